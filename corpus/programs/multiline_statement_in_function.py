from stationeers_pytrapic.symbols import *


def mix(a, b, k):
    d2.Setting = (a +
                  b * k)
    d3.Setting = (a * 2 -
                  (b + k) *
                  (a - k))


def blend(p, q):
    r = p * 3
    t = q + 1
    d4.Setting = (r -
                  t * p +
                  q * r)
    return (r +
            t * 2)


mix(d0.Setting, d1.Setting, 2)
mix(d1.Setting, d0.Setting, 3)
d5.Setting = blend(d0.On, d1.On)
d5.Setting = blend(d1.On, 4)
while True:
    yield_()
