def work():
    leds = ConsoleLED5s[db.On + 5]
    x = db.Mode * 2
    y = x + db.On
    leds.On = y
    leds.Setting = x
work()
work()
while True:
    yield_()
