def f():
    pass
