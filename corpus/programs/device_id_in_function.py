from stationeers_pytrapic.symbols import *


def probe(n):
    sensor = GasSensor(db.Setting + n)
    t = sensor.Temperature * 2
    p = sensor.Pressure + t
    return p


db.Setting = 5
db.Setting = probe(1) + probe(2)
while True:
    yield_()
