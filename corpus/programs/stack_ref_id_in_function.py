from stationeers_pytrapic.symbols import *


def refill():
    printer_id = ElectronicsPrinters.Minimum.ReferenceId
    printer_stack = Stack(ref_id=printer_id)
    printer_stack[printer_stack[63] + 1] = 77


while True:
    yield_()
    if d1.Setting:
        refill()
    if d2.Setting:
        refill()
