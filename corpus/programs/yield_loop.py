while True:
    yield_()
