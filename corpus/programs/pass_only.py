pass
