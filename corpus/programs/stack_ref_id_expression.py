from stationeers_pytrapic.symbols import *

db.Setting = 5
st = Stack(ref_id=db.Setting + 2)
t = db.Setting * 2 + db.Setting * 3
st[0] = t
while True:
    yield_()
