from stationeers_pytrapic.symbols import *
def init():
    global x
    x = d0.Setting
def use():
    d1.Setting = x + 1
init()
y = d0.Temperature * 2 + d0.Pressure * 3
use()
d1.Setting = y
init()
use()

while True:
    yield_()
