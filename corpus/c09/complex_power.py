x = (-8) ** 0.5
db.Setting = x
d0.Setting = (0 - 27) ** (1 / 3)
