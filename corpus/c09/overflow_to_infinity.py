x = d0.Setting
d1.Setting = x * (1e308 * 10)
d2.Setting = -1e308 * 10
d3.Setting = max(x, 1e200 * 1e200)
