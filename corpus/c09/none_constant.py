x = None
db.Setting = x
