x = d0.Setting
d1.Setting = x + 1e999
