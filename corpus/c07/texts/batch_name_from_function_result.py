def pick_hash():
    return db.On + 5
def siren():
    db.Setting = 911
def other(v):
    db.Mode = v
leds = ConsoleLED5s[pick_hash()]
other(1)
other(2)
while True:
    yield_()
    leds.On = 1
    if db.On > 100:
        siren()
        siren()
