def pick():
    db.Setting = 7
    return db.On + 1
def zap(v):
    db.Setting = v + 1000
sensor = GasSensor(pick())
zap(1)
zap(2)
while True:
    yield_()
    db.Setting = sensor.Pressure
