k = 0
while k < 3:
    db.Setting = k
    k += 1
    if k == 2:
        break
db.On = 1
