def inner(v):
    db.Setting = v
def outer(v):
    inner(v * 2)
    db.On = 1
outer(4)
