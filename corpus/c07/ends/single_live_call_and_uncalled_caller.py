def set_out(v):
    db.Setting = v
def never_called():
    set_out(9)
    set_out(10)
db.On = 1
set_out(3)
