def set_out(v):
    db.Setting = v
def helper():
    set_out(9)
if False:
    helper()
set_out(3)
