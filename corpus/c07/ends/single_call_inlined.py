def set_out(v):
    db.Setting = v + 1
    db.On = v
set_out(3)
db.Mode = 2
