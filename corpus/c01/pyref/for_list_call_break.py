def g(x):
    return x * 2
for x in [1, 2, 3]:
    if g(x) > 3:
        break
    db.Setting = x
db.On = 1
def h():
    db.Mode = g(2)
h()
h()
while True:
    yield_()
