for a in [1, 2, 3]:
    if a == 2:
        continue
    for b in [10, 20]:
        if b == 10:
            continue
        db.Setting = a + b
db.On = 1
while True:
    yield_()
