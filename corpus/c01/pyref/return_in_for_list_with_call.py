def g(x):
    return x * 2
def f(n):
    for x in [1, 2, 3]:
        if g(x) > n:
            return x
    return 0
db.Setting = f(3)
db.Setting = f(1)
while True:
    yield_()
