def f(n):
    for x in [1, 2, 3]:
        db.Setting = x + n
f(10)
f(20)
while True:
    yield_()
