n = 3
for i in range(n):
    n = 5
    db.Setting = i
while True:
    yield_()
