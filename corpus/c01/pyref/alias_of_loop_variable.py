def f():
    for i in range(3):
        last = i
        db.On = last
    db.Setting = last
f()
f()
for k in [4, 7, 9]:
    keep = k
db.Mode = keep
while True:
    yield_()
