st = 2
for i in range(0, 9, st):
    st = 1
    db.Setting = i
db.On = st
while True:
    yield_()
