for a in [1, 2]:
    for b in [10, 20]:
        db.Setting = a + b
while True:
    yield_()
