def g(x):
    return x + 1
def f(n):
    db.On = n
    return g(n)
db.Setting = f(3)
db.Setting = f(4)
db.Setting = g(9)
while True:
    yield_()
