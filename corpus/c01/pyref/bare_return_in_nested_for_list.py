def f(n):
    for a in [1, 2]:
        for b in [10, 20]:
            db.Mode = a + b
            if a + b > n:
                return
    db.On = n
f(11)
f(100)
while True:
    yield_()
