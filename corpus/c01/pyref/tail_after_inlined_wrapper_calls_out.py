def h(x):
    db.Mode = x
def g(x):
    h(x + 100)
def t(x):
    db.Setting = x
def f(x):
    g(x)
    t(x * 2)
f(1)
f(2)
h(5)
t(6)
while True:
    yield_()
