def g(x):
    db.Mode = x
    return x + 1
def f(n):
    db.On = n
    g(n)
f(3)
f(4)
db.Setting = g(9)
f(5)
while True:
    yield_()
