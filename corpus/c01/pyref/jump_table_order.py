k = 0
while k < 6:
    db.Setting = [90, 91, 92, 93, 94, 95][k]
    k += 1
while True:
    yield_()
