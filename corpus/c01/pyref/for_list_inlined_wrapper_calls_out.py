def show(v):
    db.Setting = v
def report(v):
    show(v)
    show(v + 100)
for v in [1, 2, 3]:
    report(v)
db.On = 1
while True:
    yield_()
