for i in range(3):
    db.Setting = i
for i in range(5, 7):
    db.Setting = i
while True:
    yield_()
