x = 0
for jj in range(3):
    x = jj
db.Setting = x
db.On = jj
while True:
    yield_()
