X = 1
if not X:
    db.Setting = 1
else:
    db.Setting = 2
if not 0:
    db.On = 1
else:
    db.On = 0
while True:
    yield_()
