n = 3
def bump():
    global n
    n = n + 2
    db.On = n
def bump2():
    bump()
for i in range(n):
    bump()
    db.Setting = i
bump2()
while True:
    yield_()
