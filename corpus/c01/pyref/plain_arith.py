a = 7
b = a * 3 - 2
c = b % 5
db.Setting = c
db.On = b - 4 * a
db.Mode = (b + 1) / 4
while True:
    yield_()
