k = 0
while k < 3:
    x = k
    x = [10, 20, 30][x]
    db.Setting = x
    k += 1
y = 1
y = [5, 6][y]
db.On = y
while True:
    yield_()
