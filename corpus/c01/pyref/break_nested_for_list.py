for a in [1, 2, 3]:
    for b in [10, 20]:
        if b > 10:
            break
        db.Setting = a + b
    if a > 1:
        break
db.On = 1
while True:
    yield_()
