def f(n):
    for i in range(n):
        n = n - 1
        db.Setting = i + n
f(4)
f(3)
while True:
    yield_()
