def scale(v):
    return v * 2
def clamp(v):
    w = scale(v)
    if w > 10:
        return 10
    else:
        return w
def pick(v):
    w = scale(v) + 1
    if w > 10:
        return 10
    elif w > 4:
        return w
    return 0
db.Setting = clamp(3)
db.Setting = clamp(8)
db.Setting = clamp(1)
db.On = pick(1)
db.On = pick(2)
db.On = pick(9)
db.Mode = scale(4)
while True:
    yield_()
