for level in [3, 8]:
    for mode in [1, 2]:
        if mode == 1:
            db.Setting = 1
            if level > 5:
                continue
        else:
            db.Setting = 2
        db.On = level
k = 0
while k < 4:
    k += 1
    if k < 3:
        db.Mode = k
        if k == 2:
            break
    else:
        db.Mode = 9
def f(n):
    if n > 0:
        db.Setting = n
        if n > 5:
            return 1
    elif n < 0:
        db.Setting = 0 - n
    else:
        db.Setting = 77
    return 2
db.On = f(3)
db.On = f(8)
db.On = f(0)
db.On = f(0 - 2)
while True:
    yield_()
