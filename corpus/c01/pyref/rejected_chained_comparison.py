a = 1
b = 5
c = 3
if a < b < c:
    db.Setting = 1
else:
    db.Setting = 2
while True:
    yield_()
