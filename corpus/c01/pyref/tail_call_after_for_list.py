def g(x):
    db.Mode = x
def f(n):
    for x in [1, 2]:
        db.On = x + n
    g(n)
f(3)
f(4)
while True:
    yield_()
