x = 1
def g():
    global x
    x = x + 1
def f(a):
    g()
    db.Setting = a
f(x)
g()
db.Setting = x
while True:
    yield_()
