x = 1
def f(a):
    global x
    x = 5
    db.Setting = a
f(x)
db.Setting = x
while True:
    yield_()
