X = 0
Y = 3
if not X:
    db.Setting = Y
else:
    db.Setting = 2
while True:
    yield_()
