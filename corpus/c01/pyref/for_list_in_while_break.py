k = 0
while k < 3:
    for a in [1, 2]:
        for b in [5]:
            db.Setting = a + b + k
    k += 1
    if k == 2:
        break
db.On = 1
while True:
    yield_()
