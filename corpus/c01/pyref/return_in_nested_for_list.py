def f(n):
    for a in [1, 2]:
        for b in [10, 20]:
            db.Mode = a + b
            if a + b > n:
                return a + b
    return 0
db.Setting = f(11)
db.Setting = f(100)
while True:
    yield_()
