(* The source dialect: abstract syntax and reference semantics ("Python control flow and
   scoping, IC10 arithmetic").  Trusted specification.

   Names are resolved by the front end (tools/pv/py2src, Python's static rule: a name is local to
   a function iff the function assigns it and does not declare it global).  Device accesses are
   reads/effects whose argument list starts with the device code [0; pin] / [1; reference id],
   exactly as the machine encodes them, so traces are directly comparable.
   `and`/`or`/`not` are the strict operators of the README, a conditional expression evaluates
   test, then-arm, else-arm once each, in that order (README: lowered to `select`). *)
From Coq Require Import List ZArith Bool Arith.
From PV Require Import IC10.Values IC10.Machine.
Import ListNotations.

Inductive var := VG (n : nat) | VL (n : nat).

Section Src.
Context {val : Type}.
Variable A : valg val.
Notation event := (@event val).
Notation oracle := (@oracle val).

Inductive expr :=
| ENum (v : val)
| EVar (x : var)
| EBin (b : binop) (x y : expr)
| EUn (u : unop) (x : expr)
| ECmp (c : cmp) (x y : expr)                 (* 1 or 0 *)
| ENot (x : expr)                             (* not x  ==  x == 0 *)
| ESel (c x y : expr)                         (* x if c else y *)
| ERead (k : rkind) (args : list expr)        (* l ls lr lb lbn lbs lbns get(other) getd sdse rand rmap *)
| ESdns (args : list expr)                    (* sdns: 1 iff the device is NOT set *)
| ESdse (args : list expr)
| EMemGet (a : expr)                          (* own stack memory: stack[a], get(db, a) *)
| EPop | EPeek
| ECall (f : nat) (args : list expr)
| EIndex (vs : list val) (i : expr).          (* constant list indexed dynamically *)

Inductive stmt :=
| SAssign (x : var) (e : expr)
| SEffect (k : ekind) (args : list expr)      (* s ss sb sbn sbs put(other) putd clr clrd yield sleep *)
| SHcf
| SMemPut (a e : expr)                        (* stack[a] = e, poke(a, e), put(db, a, e) *)
| SPush (e : expr)
| SExpr (e : expr)
| SIf (c : expr) (a b : list stmt)
| SWhile (c : expr) (body : list stmt)
| SForRange (x : var) (start stop step : expr) (down : bool) (body : list stmt)
| SForList (x : var) (vs : list val) (body : list stmt)
| SBreak | SContinue
| SReturn (e : option expr)
| SPass.

Record func := { f_nparams : nat; f_nlocals : nat; f_body : list stmt }.
Record prog := { p_nglobals : nat; p_funcs : list func; p_main : list stmt }.

(* every abnormal end carries the effect history reached so far (newest first) *)
Inductive res (X : Type) :=
| Ok (x : X) | OutOfFuel (h : list event) | Fail (code : nat) (h : list event) | Stop (h : list event).
Arguments Ok {X}. Arguments OutOfFuel {X}. Arguments Fail {X}. Arguments Stop {X}.
(* failure codes: 10 unbound variable, 11 bad address / stack, 12 missing return value,
   13 bad call, 14 index out of range, 15 break/continue/return outside its construct *)

Inductive outcome := ONormal | OBreak | OContinue | OReturn (v : option val).

Record sstate := {
  genv : list (option val); lenv : list (option val); smem : list val; ssp : Z;
  shist : list event (* newest first *) }.

Definition sinit (P : prog) : sstate :=
  {| genv := repeat None (p_nglobals P); lenv := []; smem := repeat (zero A) MEMSIZE; ssp := 0; shist := [] |}.

Definition set_genv s g := {| genv := g; lenv := lenv s; smem := smem s; ssp := ssp s; shist := shist s |}.
Definition set_lenv s l := {| genv := genv s; lenv := l; smem := smem s; ssp := ssp s; shist := shist s |}.
Definition set_smem s m := {| genv := genv s; lenv := lenv s; smem := m; ssp := ssp s; shist := shist s |}.
Definition set_ssp s z := {| genv := genv s; lenv := lenv s; smem := smem s; ssp := z; shist := shist s |}.
Definition semit s e := {| genv := genv s; lenv := lenv s; smem := smem s; ssp := ssp s; shist := e :: shist s |}.

Definition get_var (s : sstate) (x : var) : option val :=
  match x with
  | VG n => match nth_error (genv s) n with Some (Some v) => Some v | _ => None end
  | VL n => match nth_error (lenv s) n with Some (Some v) => Some v | _ => None end
  end.
Definition set_var (s : sstate) (x : var) (v : val) : sstate :=
  match x with
  | VG n => set_genv s (upd (genv s) n (Some v))
  | VL n => set_lenv s (upd (lenv s) n (Some v))
  end.

Definition bind {X Y} (r : res X) (f : X -> res Y) : res Y :=
  match r with Ok x => f x | OutOfFuel h => OutOfFuel h | Fail c h => Fail c h | Stop h => Stop h end.
Notation "'do' x <- r ; k" := (bind r (fun x => k)) (at level 200, x pattern, r at level 100, k at level 200).

Definition saddr (v : val) : option nat := addr_of A v.

Fixpoint bind_params (vs : list val) (n : nat) : list (option val) :=
  match n with O => [] | S k => match vs with v :: r => Some v :: bind_params r k | [] => None :: bind_params [] k end end.

Fixpoint eval (n : nat) (P : prog) (O : oracle) (s : sstate) (e : expr) {struct n} : res (val * sstate) :=
  match n with
  | O => OutOfFuel (shist s)
  | S n' =>
    match e with
    | ENum v => Ok (v, s)
    | EVar x => match get_var s x with Some v => Ok (v, s) | None => Fail 10 (shist s) end
    | EBin b x y =>
        do (u, s1) <- eval n' P O s x; do (v, s2) <- eval n' P O s1 y; Ok (v_bin A b u v, s2)
    | EUn u x => do (v, s1) <- eval n' P O s x; Ok (v_un A u v, s1)
    | ECmp c x y =>
        do (u, s1) <- eval n' P O s x; do (v, s2) <- eval n' P O s1 y; Ok (of_bool A (v_cmp A c u v), s2)
    | ENot x => do (v, s1) <- eval n' P O s x; Ok (of_bool A (v_cmp A Ceq v (zero A)), s1)
    | ESel c x y =>
        do (cv, s1) <- eval n' P O s c; do (u, s2) <- eval n' P O s1 x; do (v, s3) <- eval n' P O s2 y;
        Ok ((if truthy A cv then u else v), s3)
    | ERead k args => do (vs, s1) <- evals n' P O s args; Ok (O (shist s1) k vs, s1)
    | ESdse args => do (vs, s1) <- evals n' P O s args; Ok (of_bool A (truthy A (O (shist s1) RKsdse vs)), s1)
    | ESdns args => do (vs, s1) <- evals n' P O s args; Ok (of_bool A (negb (truthy A (O (shist s1) RKsdse vs))), s1)
    | EMemGet a =>
        do (av, s1) <- eval n' P O s a;
        match saddr av with
        | Some i => match nth_error (smem s1) i with Some v => Ok (v, s1) | None => Fail 11 (shist s1) end
        | None => Fail 11 (shist s1)
        end
    | EPop =>
        match saddr (v_of_Z A (ssp s - 1)) with
        | Some i => match nth_error (smem s) i with Some v => Ok (v, set_ssp s (ssp s - 1)%Z) | None => Fail 11 (shist s) end
        | None => Fail 11 (shist s)
        end
    | EPeek =>
        match saddr (v_of_Z A (ssp s - 1)) with
        | Some i => match nth_error (smem s) i with Some v => Ok (v, s) | None => Fail 11 (shist s) end
        | None => Fail 11 (shist s)
        end
    | ECall f args =>
        do (vs, s1) <- evals n' P O s args;
        do (r, s2) <- call n' P O s1 f vs;
        match r with Some v => Ok (v, s2) | None => Fail 12 (shist s2) end
    | EIndex vs i =>
        do (iv, s1) <- eval n' P O s i;
        match v_to_Z A iv with
        | Some z => if (0 <=? z)%Z then match nth_error vs (Z.to_nat z) with Some v => Ok (v, s1) | None => Fail 14 (shist s1) end
                    else Fail 14 (shist s1)
        | None => Fail 14 (shist s1)
        end
    end
  end
with evals (n : nat) (P : prog) (O : oracle) (s : sstate) (es : list expr) {struct n} : res (list val * sstate) :=
  match n with
  | O => OutOfFuel (shist s)
  | S n' =>
    match es with
    | [] => Ok ([], s)
    | e :: r => do (v, s1) <- eval n' P O s e; do (vs, s2) <- evals n' P O s1 r; Ok (v :: vs, s2)
    end
  end
with call (n : nat) (P : prog) (O : oracle) (s : sstate) (f : nat) (vs : list val) {struct n}
  : res (option val * sstate) :=
  match n with
  | O => OutOfFuel (shist s)
  | S n' =>
    match nth_error (p_funcs P) f with
    | Some fd =>
        if Nat.eqb (length vs) (f_nparams fd) then
          let saved := lenv s in
          let s0 := set_lenv s (bind_params vs (f_nparams fd) ++ repeat None (f_nlocals fd - f_nparams fd)) in
          do (o, s1) <- execs n' P O s0 (f_body fd);
          let s2 := set_lenv s1 saved in
          match o with
          | OReturn r => Ok (r, s2)
          | ONormal => Ok (None, s2)
          | _ => Fail 15 (shist s2)
          end
        else Fail 13 (shist s)
    | None => Fail 13 (shist s)
    end
  end
with exec (n : nat) (P : prog) (O : oracle) (s : sstate) (st : stmt) {struct n} : res (outcome * sstate) :=
  match n with
  | O => OutOfFuel (shist s)
  | S n' =>
    match st with
    | SAssign x e => do (v, s1) <- eval n' P O s e; Ok (ONormal, set_var s1 x v)
    | SEffect k args => do (vs, s1) <- evals n' P O s args; Ok (ONormal, semit s1 (Ev k vs))
    | SHcf => Stop (Ev EKhcf [] :: shist s)
    | SMemPut a e =>
        do (av, s1) <- eval n' P O s a; do (v, s2) <- eval n' P O s1 e;
        match saddr av with Some i => Ok (ONormal, set_smem s2 (upd (smem s2) i v)) | None => Fail 11 (shist s2) end
    | SPush e =>
        do (v, s1) <- eval n' P O s e;
        match saddr (v_of_Z A (ssp s1)) with
        | Some i => Ok (ONormal, set_ssp (set_smem s1 (upd (smem s1) i v)) (ssp s1 + 1)%Z)
        | None => Fail 11 (shist s1)
        end
    | SExpr e =>
        match e with
        | ECall f args =>     (* a call statement may ignore a missing return value *)
            do (vs, s1) <- evals n' P O s args; do (_, s2) <- call n' P O s1 f vs; Ok (ONormal, s2)
        | _ => do (_, s1) <- eval n' P O s e; Ok (ONormal, s1)
        end
    | SIf c a b =>
        do (cv, s1) <- eval n' P O s c;
        if truthy A cv then execs n' P O s1 a else execs n' P O s1 b
    | SWhile c body => loop_while n' P O s c body
    | SForRange x start stop step down body =>
        do (a, s1) <- eval n' P O s start; do (b, s2) <- eval n' P O s1 stop; do (c, s3) <- eval n' P O s2 step;
        loop_range n' P O s3 x a b c down body
    | SForList x vs body => loop_list n' P O s x vs body
    | SBreak => Ok (OBreak, s)
    | SContinue => Ok (OContinue, s)
    | SReturn None => Ok (OReturn None, s)
    | SReturn (Some e) => do (v, s1) <- eval n' P O s e; Ok (OReturn (Some v), s1)
    | SPass => Ok (ONormal, s)
    end
  end
with execs (n : nat) (P : prog) (O : oracle) (s : sstate) (ss : list stmt) {struct n} : res (outcome * sstate) :=
  match n with
  | O => OutOfFuel (shist s)
  | S n' =>
    match ss with
    | [] => Ok (ONormal, s)
    | st :: r =>
        do (o, s1) <- exec n' P O s st;
        match o with ONormal => execs n' P O s1 r | _ => Ok (o, s1) end
    end
  end
with loop_while (n : nat) (P : prog) (O : oracle) (s : sstate) (c : expr) (body : list stmt) {struct n}
  : res (outcome * sstate) :=
  match n with
  | O => OutOfFuel (shist s)
  | S n' =>
    do (cv, s1) <- eval n' P O s c;
    if truthy A cv then
      do (o, s2) <- execs n' P O s1 body;
      match o with
      | ONormal | OContinue => loop_while n' P O s2 c body
      | OBreak => Ok (ONormal, s2)
      | OReturn r => Ok (OReturn r, s2)
      end
    else Ok (ONormal, s1)
  end
with loop_range (n : nat) (P : prog) (O : oracle) (s : sstate) (x : var) (i stop step : val) (down : bool)
                (body : list stmt) {struct n} : res (outcome * sstate) :=
  match n with
  | O => OutOfFuel (shist s)
  | S n' =>
    if (if down then v_cmp A Cgt i stop else v_cmp A Clt i stop) then
      do (o, s1) <- execs n' P O (set_var s x i) body;
      match o with
      | ONormal | OContinue => loop_range n' P O s1 x (v_bin A Badd i step) stop step down body
      | OBreak => Ok (ONormal, s1)
      | OReturn r => Ok (OReturn r, s1)
      end
    else Ok (ONormal, s)
  end
with loop_list (n : nat) (P : prog) (O : oracle) (s : sstate) (x : var) (vs : list val) (body : list stmt)
               {struct n} : res (outcome * sstate) :=
  match n with
  | O => OutOfFuel (shist s)
  | S n' =>
    match vs with
    | [] => Ok (ONormal, s)
    | v :: r =>
        do (o, s1) <- execs n' P O (set_var s x v) body;
        match o with
        | ONormal | OContinue => loop_list n' P O s1 x r body
        | OBreak => Ok (ONormal, s1)
        | OReturn r' => Ok (OReturn r', s1)
        end
    end
  end.

(* A whole program run: the effect trace (oldest first) and how it ended. *)
Inductive ending := Finished | NoFuel | Failed (code : nat).

Definition run_src (fuel : nat) (P : prog) (O : oracle) : list event * ending :=
  match execs fuel P O (sinit P) (p_main P) with
  | Ok (_, s) => (rev (shist s), Finished)
  | Stop h => (rev h, Finished)
  | OutOfFuel h => (rev h, NoFuel)
  | Fail c h => (rev h, Failed c)
  end.

End Src.
