(* C09 — emitted text is loadable IC10. *)
From Coq Require Import List ZArith Bool Arith String.
From PV Require Import IC10.Values IC10.Machine IC10.Sig Valid.WfCode Valid.WfCodeProofs
                       Model.Tables Model.FormatNum Model.Fold Model.VersionNote.
From PVGen Require Import GenSites GenOps.
Import ListNotations.
Local Open Scope string_scope.

(* every emission site with a literal opcode names an existing IC10 instruction and, where the
   operand list is literal, passes exactly as many operands as the instruction takes *)
Theorem C09_sites_use_real_opcodes :
  forall w o n h, In (w, o, n, h) gen_sites ->
    o = "<label>:" \/ o = "" (* comment-only line *) \/ exists s, sig_of o = Some s /\ ((n < 0)%Z \/ (n + h)%Z = Z.of_nat (n_ops s)).
Proof.
  assert (forallb (fun t => match t with (w, o, n, h) =>
            String.eqb o "<label>:" || String.eqb o "" ||
            match sig_of o with Some s => (n <? 0)%Z || Z.eqb (n + h) (Z.of_nat (n_ops s)) | None => false end end) gen_sites = true) as H
    by (vm_compute; reflexivity).
  rewrite forallb_forall in H. intros w o n h Hin. specialize (H _ Hin). cbv beta iota in H.
  destruct (String.eqb o "<label>:") eqn:E1; [left; apply String.eqb_eq; exact E1|].
  destruct (String.eqb o "") eqn:E2; [right; left; apply String.eqb_eq; exact E2|].
  right; right. cbn [orb] in H. destruct (sig_of o) as [s|]; [|discriminate]. exists s. split; [reflexivity|].
  apply orb_prop in H as [H|H]; [left; apply Z.ltb_lt; exact H|right; apply Z.eqb_eq; exact H].
Qed.

(* the operator tables: every opcode exists, except the one named in the known finding *)
Theorem C09_table_opcodes_real_partial :
  forall e, In e (gen_binops ++ gen_unops) -> snd (fst e) <> "neg" -> sig_of (snd (fst e)) <> None.
Proof.
  assert (forallb (fun e => String.eqb (snd (fst e)) "neg" || match sig_of (snd (fst e)) with Some _ => true | None => false end)
            (gen_binops ++ gen_unops) = true) as H by (vm_compute; reflexivity).
  rewrite forallb_forall in H. intros e Hin Hn. specialize (H e Hin).
  apply orb_prop in H as [H|H]; [apply String.eqb_eq in H; contradiction|].
  destruct (sig_of (snd (fst e))); [discriminate|discriminate H].
Qed.
Theorem C09_neg_not_an_opcode_refuted :
  exists e, In e gen_unops /\ sig_of (snd (fst e)) = None.
Proof. exists ("~", "neg", PInv (PE PX)). split; [right; left; reflexivity|reflexivity]. Qed.

(* integer literals read back exactly, for EVERY integer and every set of known hashes *)
Theorem C09_integer_literal_roundtrip :
  forall hashes z, read_int_literal (format_int hashes z) = Some z.
Proof. exact format_int_roundtrip. Qed.

(* a statically well-formed program (known opcodes, right operand counts, no malformed
   operand) never stops with "unknown instruction" or "wrong operand count", for every oracle *)
Theorem C09_wf_program_never_shape_error :
  forall val (A : valg val) O p fuel, wf_program p = true ->
    st (run A O p fuel (init_state A)) <> Err 4 /\ st (run A O p fuel (init_state A)) <> Err 5.
Proof.
  intros val A O p fuel W. apply (run_no_shape_error A O p fuel W). split; cbn; discriminate.
Qed.

(* the version note: at most one line changes, and a changed line stays below 89 characters *)
Theorem C09_version_note_within_90 :
  forall l lens,
    Forall2 (fun old new => new = old \/ (new = old + l /\ new < 89)) lens (append_note l lens) /\
    List.length (filter (fun p => negb (Nat.eqb (fst p) (snd p))) (combine lens (append_note l lens))) <= 1.
Proof. intros l lens. split; [apply note_keeps_lines_short|apply note_on_at_most_one_line]. Qed.
