(* C10 — compile_code always returns a verdict, promptly, and cleans up.
   The control skeletons of compile_code, Compiler.compile and eval_constexpr are re-read from
   the sources on every run; the claims are decided by the verified outcome analysis. *)
From Coq Require Import List String Bool Arith Lia.
From PV Require Import Model.Skel Model.SkelSem Model.SkelSemProofs Model.SkelEnvs.
From PVGen Require Import GenSkeletons.
Import ListNotations.
Local Open Scope string_scope.

Definition returns_value (r : ares) : bool := match fst (fst r) with OReturn => true | _ => false end.

(* Compiler.compile: whatever exception any pass, the parser or CodeData raises (any Exception
   subclass, at any point inside the try), every path ends in `return <verdict>` *)
Theorem C10_compile_always_returns :
  forall s o s', exec env_compiler_compile s gen_compiler_compile o s' -> o = OReturn.
Proof.
  assert (forallb returns_value (outs env_compiler_compile gen_compiler_compile None) = true) as H by (vm_compute; reflexivity).
  rewrite forallb_forall in H. intros s o s' Hex.
  destruct (outs_sound _ _ _ _ _ Hex None I) as (a' & c & Hin & _). specialize (H _ Hin).
  unfold returns_value in H. cbn in H. destruct o; try discriminate. reflexivity.
Qed.

(* compile_code (options a CompileOptions value or None, source a str or a mapping with ""):
   every path ends in the return of Compiler(options).compile(src) *)
Theorem C10_compile_code_always_returns :
  forall s o s', exec env_compile_code s gen_compile_code o s' -> o = OReturn.
Proof.
  assert (forallb returns_value (outs env_compile_code gen_compile_code None) = true) as H by (vm_compute; reflexivity).
  rewrite forallb_forall in H. intros s o s' Hex.
  destruct (outs_sound _ _ _ _ _ Hex None I) as (a' & c & Hin & _). specialize (H _ Hin).
  unfold returns_value in H. cbn in H. destruct o; try discriminate. reflexivity.
Qed.

(* the verdicts: every return statement of Compiler.compile returns the result dictionary or an
   {'error': ...} dictionary *)
Fixpoint return_texts (sk : skel) : list string :=
  match sk with
  | SReturn e => [e]
  | SSeq l => (fix go (l : list skel) := match l with [] => [] | s :: r => (return_texts s ++ go r)%list end) l
  | SIf _ a b => (return_texts a ++ return_texts b)%list
  | STry b hs f => (return_texts b ++ (fix go (l : list (string * skel)) := match l with [] => [] | (_, h) :: r => (return_texts h ++ go r)%list end) hs ++ return_texts f)%list
  | SWhile _ b => return_texts b
  | SFor _ _ b => return_texts b
  | _ => []
  end.
Theorem C10_verdict_shape :
  return_texts gen_compiler_compile =
  ["self.data.result"; "{'error': msg}"; "d";
   "{'error': {'description': f'Internal compiler error: {str(e)}', 'stack_trace': stack_trace}}"].
Proof. reflexivity. Qed.

(* the constexpr child process: from the statement after `process = subprocess.Popen(...)` on,
   on every path on which communicate() did not complete (timeout) the child is killed before
   the function is left *)
Definition is_popen (sk : skel) : bool :=
  match sk with SAssign "process" e => String.prefix "subprocess.Popen(" e | _ => false end.
Fixpoint after_popen (l : list skel) : option (list skel) :=
  match l with
  | [] => None
  | s :: r => if is_popen s then Some r else after_popen r
  end.
Definition child_phase : skel :=
  match gen_eval_constexpr with
  | SSeq l => match after_popen l with Some r => SSeq r | None => SSeq [SRaise "no Popen found"] end
  | _ => SSeq [SRaise "unexpected shape"]
  end.
Definition child_ok (r : ares) : bool :=
  let '(o, a, c) := r in
  match a with Some true => true | _ => is_c1 c end.
Theorem C10_child_always_reaped :
  forall s o s', fst s = false -> exec env_constexpr_child s child_phase o s' ->
    fst s' = true \/ snd s' = S (snd s).
Proof.
  assert (forallb child_ok (outs env_constexpr_child child_phase (Some false)) = true) as H by (vm_compute; reflexivity).
  rewrite forallb_forall in H. intros s o s' Hs Hex.
  destruct (proj1 (outs_sound_all _) _ _ _ _ Hex (Some false)) as (a' & c & Hin & Ha & Hc & L); [cbn; congruence|].
  specialize (H _ Hin). unfold child_ok in H. destruct a' as [[|]|]; cbn in Ha.
  - left. congruence.
  - right. destruct c; try discriminate. cbn in Hc. lia.
  - right. destruct c; try discriminate. cbn in Hc. lia.
Qed.
(* non-vacuity: the child phase really starts after the Popen and contains the communicate call *)
Example C10_child_phase_nonvacuous :
  has_stmt (fun e => String.eqb e "process.communicate(timeout=1)") child_phase = true /\
  has_stmt (fun e => String.eqb e "process.kill()") child_phase = true.
Proof. split; vm_compute; reflexivity. Qed.
