(* Known findings of C16 as refutations over the regenerated tables.  If this file stops
   compiling the defect no longer reproduces (information, not a violation). *)
From Coq Require Import List String Bool.
From PV Require Import IC10.Sig Model.Tables Props.C16.
From PVGen Require Import GenIntrinsics.
Import ListNotations.
Local Open Scope string_scope.

Lemma C16_intrinsics_match_sig_refuted :
  forall n, In n intrinsic_exceptions ->
    exists w, In w gen_intrinsics /\ i_name w = n /\ intrinsic_ok w = false.
Proof.
  intros n Hin.
  assert (forallb (fun n => existsb (fun w => String.eqb (i_name w) n && negb (intrinsic_ok w)) gen_intrinsics)
            intrinsic_exceptions = true) as H by (vm_compute; reflexivity).
  rewrite forallb_forall in H. specialize (H n Hin). apply existsb_exists in H as (w & Hw & Hc).
  apply andb_prop in Hc as [H1 H2]. exists w. repeat split; auto.
  - apply String.eqb_eq; exact H1.
  - destruct (intrinsic_ok w); [discriminate|reflexivity].
Qed.
