(* C05 — every jump lands on the instruction the source construct meant; label removal is a
   pure renumbering. *)
From Coq Require Import List ZArith Bool Arith.
From PV Require Import IC10.Values IC10.Machine Valid.Resolve Valid.ResolveProofs.
Import ListNotations.

(* (b) reference renumbering: for EVERY program and label, the number that replaces the label
   is the index, in the label-free program, of the (resolved) instruction following the label *)
Theorem C05_resolve_target_is_next_instruction :
  forall val (A : valg val) p id n, label_target p id = Some n ->
    exists i, find_label p id 0 = Some i /\
      nth_error (resolve A p) n =
      match next_instr p i with
      | Some (LInstr op args) => Some (LInstr op (map (res_operand A p) args))
      | _ => None
      end.
Proof. intros. apply resolve_target_is_next_instruction; assumption. Qed.

(* the resolved program contains neither label lines nor label operands *)
Theorem C05_resolve_label_free :
  forall val (A : valg val) p l, In l (resolve A p) ->
    exists op args, l = LInstr op args /\ forall o, In o args -> match o with OLbl _ => False | _ => True end.
Proof. intros. eapply resolve_label_free; eauto. Qed.

(* (a) the static label check: every referenced label is defined exactly once and resolves *)
Theorem C05_wf_labels_defined :
  forall val (p : list (@line val)), wf_labels p = true ->
    forall id, In id (refs p) -> count_defs p id = 1 /\ exists i, find_label p id 0 = Some i.
Proof. intros val p. exact (wf_labels_defined p). Qed.

Example C05_nonvacuous :
  let p := [LInstr IJal [OLbl 0]; LInstr IJ [OLbl 1]; LLabel 0; LInstr IYield []; LInstr IJ [OReg 17]; LLabel 1] : list (@line nat) in
  wf_labels p = true /\ label_target p 0 = Some 2 /\ label_target p 1 = Some 4.
Proof. repeat split; reflexivity. Qed.
