(* C05 — every jump lands on the instruction the source construct meant; label removal is a
   pure renumbering. *)
From Coq Require Import List ZArith Bool Arith.
From Coq Require Import PrimFloat.
From PV Require Import IC10.Values IC10.Machine IC10.FloatAlg Valid.Resolve Valid.ResolveProofs Valid.ResolveSem.
From PV Require Valid.ResolveCalls.
From PV Require Model.UnusedLabels.
Import ListNotations.

(* (b) reference renumbering: for EVERY program and label, the number that replaces the label
   is the index, in the label-free program, of the (resolved) instruction following the label *)
Theorem C05_resolve_target_is_next_instruction :
  forall val (A : valg val) p id n, label_target p id = Some n ->
    exists i, find_label p id 0 = Some i /\
      nth_error (resolve A p) n =
      match next_instr p i with
      | Some (LInstr op args) => Some (LInstr op (map (res_operand A p) args))
      | _ => None
      end.
Proof. intros. apply resolve_target_is_next_instruction; assumption. Qed.

(* the resolved program contains neither label lines nor label operands *)
Theorem C05_resolve_label_free :
  forall val (A : valg val) p l, In l (resolve A p) ->
    exists op args, l = LInstr op args /\ forall o, In o args -> match o with OLbl _ => False | _ => True end.
Proof. intros. eapply resolve_label_free; eauto. Qed.

(* (a) the static label check: every referenced label is defined exactly once and resolves *)
Theorem C05_wf_labels_defined :
  forall val (p : list (@line val)), wf_labels p = true ->
    forall id, In id (refs p) -> count_defs p id = 1 /\ exists i, find_label p id 0 = Some i.
Proof. intros val p. exact (wf_labels_defined p). Qed.

Example C05_nonvacuous :
  let p := [LInstr IJal [OLbl 0]; LInstr IJ [OLbl 1]; LLabel 0; LInstr IYield []; LInstr IJ [OReg 17]; LLabel 1] : list (@line nat) in
  wf_labels p = true /\ label_target p 0 = Some 2 /\ label_target p 1 = Some 4.
Proof. repeat split; reflexivity. Qed.

(* (c) SEMANTICS, call-free fragment.  For every labelled program in which labels occur only as the
   targets of absolute non-linking jumps / branches (each a defined label), without jal / jr / relative
   branches and without alias / define names, for every behaviour of the attached devices and every
   number of steps: the label-free program `resolve q` reaches a state with the same effect history,
   status, registers and memory, its pc being the number of instruction lines before q's pc.
   Stated for an arbitrary value algebra in which q's line numbers are exactly representable ... *)
Theorem C05_label_removal_preserves_behaviour_call_free :
  forall val (A : valg val) (O : @oracle val) (q : list (@line val)),
    (forall n, n <= length q -> v_to_Z A (of_nat A n) = Some (Z.of_nat n)) ->
    frag q = true -> forall fuel, exists fuel', (fuel' <= fuel) /\
    let a := run A O q fuel (init_state A) in
    let b := run A O (resolve A q) fuel' (init_state A) in
    hist b = hist a /\ st b = st a /\ regs b = regs a /\ mem b = mem a /\ pc b = instrs_before q (pc a).
Proof. intros val A O q H. exact (resolve_preserves_behaviour A O q H). Qed.

(* ... and for the chip's binary64 arithmetic, every program of at most 4096 lines *)
Theorem C05_label_removal_preserves_behaviour_call_free_float :
  forall (O : @oracle float) (q : list (@line float)),
    length q <= 4096 -> frag q = true -> forall fuel, exists fuel', (fuel' <= fuel) /\
    let a := run FloatAlg O q fuel (init_state FloatAlg) in
    let b := run FloatAlg O (resolve FloatAlg q) fuel' (init_state FloatAlg) in
    hist b = hist a /\ st b = st a /\ regs b = regs a /\ mem b = mem a /\ pc b = instrs_before q (pc a).
Proof. exact resolve_preserves_behaviour_float. Qed.

(* and conversely: whatever the label-free program does after any number of steps, the labelled
   program does too (it needs the extra steps over its label lines) *)
Theorem C05_label_free_runs_are_runs_of_the_labelled_program :
  forall (O : @oracle float) (q : list (@line float)),
    length q <= 4096 -> frag q = true -> forall fuel', exists fuel,
    let a := run FloatAlg O q fuel (init_state FloatAlg) in
    let b := run FloatAlg O (resolve FloatAlg q) fuel' (init_state FloatAlg) in
    hist b = hist a /\ st b = st a /\ regs b = regs a /\ mem b = mem a /\ pc b = instrs_before q (pc a).
Proof. exact resolve_behaviour_converse_float. Qed.

(* (d) SEMANTICS with calls.  The same for programs that also contain `jal <label>` and `j ra`, provided
   no other operand names ra (leaf subroutines, which need not save it): same effect history, status and
   memory; the registers agree except that ra holds the renumbered return address; the pc is renumbered *)
Theorem C05_label_removal_preserves_behaviour_with_leaf_calls :
  forall (O : @oracle float) (q : list (@line float)),
    length q <= 4096 -> ResolveCalls.frag q = true -> forall fuel, exists fuel', (fuel' <= fuel) /\
    let a := run FloatAlg O q fuel (init_state FloatAlg) in
    let b := run FloatAlg O (resolve FloatAlg q) fuel' (init_state FloatAlg) in
    hist b = hist a /\ st b = st a /\ mem b = mem a /\
    regs b = ResolveCalls.map_regs FloatAlg q (regs a) /\ pc b = instrs_before q (pc a).
Proof. exact ResolveCalls.resolve_preserves_behaviour_with_calls_float. Qed.

Theorem C05_label_free_runs_with_leaf_calls_are_runs_of_the_labelled_program :
  forall (O : @oracle float) (q : list (@line float)),
    length q <= 4096 -> ResolveCalls.frag q = true -> forall fuel', exists fuel,
    let a := run FloatAlg O q fuel (init_state FloatAlg) in
    let b := run FloatAlg O (resolve FloatAlg q) fuel' (init_state FloatAlg) in
    hist b = hist a /\ st b = st a /\ mem b = mem a /\
    regs b = ResolveCalls.map_regs FloatAlg q (regs a) /\ pc b = instrs_before q (pc a).
Proof. exact ResolveCalls.resolve_behaviour_with_calls_converse_float. Qed.

(* (e) remove_unused_labels (labelled mode): Model/UnusedLabels.v is the function line by line (`UnusedLabels.rul`), compared with
   the real function in every run.  For EVERY program text: the result is the program with some lines left out;
   only lines that read `<label>:` for a defined label that no token of any line mentions are left out; no
   instruction line is ever left out ... *)
Theorem C05_unused_label_removal_drops_only_unreferenced_label_lines : forall p l,
  UnusedLabels.sublist (UnusedLabels.rul p) p /\
  (In l p -> UnusedLabels.ends_colon (UnusedLabels.raw l) = false -> In l (UnusedLabels.rul p)) /\
  (In l p -> ~ In l (UnusedLabels.rul p) ->
     UnusedLabels.ends_colon (UnusedLabels.raw l) = true /\ In (UnusedLabels.drop_last (UnusedLabels.raw l)) (UnusedLabels.labels p) /\
     forall l', In l' p -> ~ In (UnusedLabels.drop_last (UnusedLabels.raw l)) (UnusedLabels.toks l')).
Proof.
  intros p l. split; [apply UnusedLabels.rul_sublist|]. split.
  - apply UnusedLabels.rul_keeps_instructions.
  - apply UnusedLabels.rul_drops_only_unreferenced_labels.
Qed.

(* ... so it creates no dangling reference: a label defined in the input (definition lines unindented, as the
   emitter writes them) and mentioned by any token of a line of the result -- with or without a comment behind
   it -- is still defined in the result *)
Theorem C05_unused_label_removal_creates_no_dangling_reference : forall p x l',
  UnusedLabels.plain_defs p -> In x (UnusedLabels.labels p) -> In l' (UnusedLabels.rul p) -> In x (UnusedLabels.toks l') -> In x (UnusedLabels.labels (UnusedLabels.rul p)).
Proof. exact UnusedLabels.rul_creates_no_dangling_reference. Qed.
