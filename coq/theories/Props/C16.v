(* C16 — device, enum and instruction tables are internally consistent.
   Every theorem is over the tables regenerated from /repo on this run; the bound of each
   finite quantifier is the table itself (exhaustive). *)
From Coq Require Import List ZArith NArith String Bool.
From PV Require Import Base.CRC32 IC10.Sig Model.Tables Model.TablesProofs.
From PVGen Require Import GenEnums GenStructs GenIntrinsics.
Import ListNotations.
Local Open Scope string_scope.

Definition lts : list string :=
  match assoc "LogicType" gen_enums with Some m => map fst m | None => [] end.
Definition slts : list string :=
  match assoc "LogicSlotType" gen_enums with Some m => map fst m | None => [] end.

(* (1) every stored prefab hash is the signed CRC-32 of the prefab name *)
Theorem C16_all_hashes_are_crc :
  forall c h p, In c gen_classes -> c_hash c = Some h -> c_prefab c = Some p ->
    h = signed32 (crc32_bytes (bytes_of_string p)).
Proof.
  assert (forallb hash_ok gen_classes = true) as H by (vm_compute; reflexivity).
  rewrite forallb_forall in H. intros c h p Hin. apply hash_ok_spec. exact (H c Hin).
Qed.

(* (2) every plural class names one singular class with the same hash and prefab name, its
   four batch properties construct that class with the matching batch method, indexing
   yields the plural class, and a module-level singleton of it exists; every singular class
   is the target of exactly one plural class. *)
Theorem C16_plural_matches_singular :
  forall c, In c gen_classes ->
    plural_ok gen_classes gen_singletons c = true /\ singular_ok gen_classes c = true.
Proof.
  assert (forallb (fun c => plural_ok gen_classes gen_singletons c && singular_ok gen_classes c) gen_classes = true) as H
    by (vm_compute; reflexivity).
  rewrite forallb_forall in H. intros c Hin. apply andb_prop. exact (H c Hin).
Qed.

(* (3) every property is what its name says: logic-type properties carry the logic type of
   their own name (a member of the enum), slotN carries index N, and every named slot is an
   alias of a numbered slot of the same class. *)
Theorem C16_named_slots_resolve :
  forall c, In c gen_classes -> class_props_ok lts slts c = true.
Proof.
  assert (forallb (class_props_ok lts slts) gen_classes = true) as H by (vm_compute; reflexivity).
  rewrite forallb_forall in H. exact H.
Qed.

(* (5) within each enumeration no two names share a number *)
Theorem C16_enum_values_injective :
  forall e, In e gen_enums ->
    forall a b v, In (a, v) (snd e) -> In (b, v) (snd e) -> a = b.
Proof.
  assert (forallb enum_ok gen_enums = true) as H by (vm_compute; reflexivity).
  rewrite forallb_forall in H. intros e Hin. apply enum_ok_inj. exact (H e Hin).
Qed.

(* (4) intrinsic wrappers: opcode = own name, operands = parameters in order, result iff the
   instruction has an output register.  Proved for all wrappers except the listed ones,
   which are open known findings (see C16_findings.v: they are refuted there). *)
Definition intrinsic_exceptions : list string :=
  ["rmap"; "ext"; "ins"; "bdns"; "bdnsal"; "bdse"; "bdseal"; "brdns"; "brdse"].

Theorem C16_intrinsics_match_sig_partial :
  forall w, In w gen_intrinsics -> str_mem (i_name w) intrinsic_exceptions = false ->
    intrinsic_ok w = true.
Proof.
  assert (forallb (fun w => str_mem (i_name w) intrinsic_exceptions || intrinsic_ok w) gen_intrinsics = true) as H
    by (vm_compute; reflexivity).
  rewrite forallb_forall in H. intros w Hin Hex. specialize (H w Hin). rewrite Hex in H. exact H.
Qed.

(* the instruction list shipped with the web editor and the signature table agree *)
Theorem C16_sig_covers_instruction_list :
  forall n, In n gen_ic10_instructions -> sig_of n <> None.
Proof.
  assert (forallb (fun n => match sig_of n with Some _ => true | None => false end) gen_ic10_instructions = true) as H
    by (vm_compute; reflexivity).
  rewrite forallb_forall in H. intros n Hin. specialize (H n Hin). destruct (sig_of n); [discriminate|discriminate H].
Qed.

Theorem C16_every_wrapped_opcode_is_listed :
  forall w, In w gen_intrinsics -> str_mem (i_op w) gen_ic10_instructions = true.
Proof.
  assert (forallb (fun w => str_mem (i_op w) gen_ic10_instructions) gen_intrinsics = true) as H
    by (vm_compute; reflexivity).
  rewrite forallb_forall in H. exact H.
Qed.

(* non-vacuity: the tables are not empty and contain the expected kinds of rows *)
Example C16_nonvacuous :
  Nat.leb 700 (List.length (filter is_structure gen_classes)) = true /\
  Nat.leb 140 (List.length gen_intrinsics) = true /\ Nat.leb 27 (List.length gen_enums) = true /\
  hash_of_string "StructureAccessBridge" = 1298920475%Z.
Proof. vm_compute. repeat split; reflexivity. Qed.
