(* C11 — a compilation's result does not depend on what was compiled before. *)
From Coq Require Import List String Bool.
From PV Require Import Model.GlobalState Model.Skel Model.SkelEnvs.
From PVGen Require Import GenGlobals GenSkeletons.
Import ListNotations.
Local Open Scope string_scope.

(* For EVERY history of requests and EVERY request (any evaluator, any compiler that uses the
   evaluator only by calling it): the result equals the result in a fresh process. *)
Theorem C11_history_independent :
  forall (Src Opt Res Key Val : Type) (key_eqb : Key -> Key -> bool),
    (forall a b, key_eqb a b = true -> a = b) ->
    forall (ev : Key -> Val) (pragmas : Src -> Opt -> Opt) (compact : Opt -> bool)
           (comp : bool -> Src -> Opt -> (Key -> Val) -> Res * list Key),
      (forall m s o f g, (forall k, f k = g k) -> comp m s o f = comp m s o g) ->
      forall h r,
        snd (serve Src Opt Res Key Val key_eqb ev pragmas compact comp (run_history Src Opt Res Key Val key_eqb ev pragmas compact comp h) r)
        = snd (serve Src Opt Res Key Val key_eqb ev pragmas compact comp (ginit Key Val) r).
Proof. intros. apply history_independent; assumption. Qed.

(* Tie (translator): the inventory of process-wide mutable state in the package is exactly the
   one the model accounts for: the three state variables above, read-only tables, the timing
   debug variable, and the daemon's log handles / stdout redirection. *)
Theorem C11_inventory_covered :
  gen_globals = [
    ("compiler", "_last_time", "rebound");
    ("generate_code", "_HAS_RELATIVE_INSTRUCTION", "container_const");
    ("mod_daemon", "_err_file", "rebound");
    ("mod_daemon", "_log_file", "rebound");
    ("mod_daemon", "sys.stdout", "attribute_write");
    ("types", "constants", "container_const");
    ("utils", "_all_hashes", "container_mutated");
    ("utils", "_branch_variant", "container_const");
    ("utils", "_eval_constexpr_cache", "container_mutated");
    ("utils", "_math_functions", "container_const");
    ("utils", "_output_mode", "rebound")].
Proof. reflexivity. Qed.

(* the caller's options object is not modified: the directive scanner works on a copy, made
   before the first write, and the output mode is set from the request before compiling *)
Fixpoint stmts (sk : skel) : list skel := match sk with SSeq l => l | _ => [sk] end.
Definition copies_options_first : bool :=
  match gen_compile_code with
  | SSeq l =>
      (* the statement that scans directives contains a copy of `options` before any setattr *)
      existsb (fun s => has_stmt (fun e => String.eqb e "copy.copy(options)") s) l
  | _ => false
  end.
Theorem C11_caller_options_copied_before_directives : copies_options_first = true.
Proof. vm_compute. reflexivity. Qed.

Theorem C11_mode_set_from_request_before_compile :
  has_stmt (fun e => String.eqb e "set_output_mode(OutputMode.COMPACT if options.compact else OutputMode.VERBOSE)") gen_compile_code = true.
Proof. vm_compute. reflexivity. Qed.
