(* C17 — reported size statistics describe the emitted program. *)
From Coq Require Import List NArith ZArith Bool String Lia.
From PV Require Import Base.PyStr Model.Stats Model.StatsProofs.
From PVGen Require Import GenStats.
Import ListNotations.

(* Tie (translator): the three statistics expressions read from get_code on this run. *)
Theorem C17_generated_result_fields :
  gen_result_fields = ["code"; "num_lines"; "num_registers"; "num_bytes"]%string.
Proof. reflexivity. Qed.

(* For EVERY finished program text (non-empty, "\n" the only line boundary, no trailing
   newline) and every register count: num_lines is the number of lines, num_bytes the size with
   two-byte line ends, num_registers the size of the used-register list. *)
Theorem C17_stats_meaning :
  forall s nregs, plain_text s ->
    let r := run_stats s nregs gen_stats [] in
    lookupZ "num_lines" r = Z.of_nat (line_count s) /\
    lookupZ "num_bytes" r = Z.of_nat (crlf_size s) /\
    lookupZ "num_registers" r = Z.of_nat nregs.
Proof.
  (* proved on the regenerated expressions themselves, so any arithmetic rearrangement of the
     source that keeps the meaning keeps the proof *)
  intros s nregs H. unfold gen_stats. cbn. rewrite (splitlines_line_count s H).
  unfold crlf_size, line_count. repeat split; lia.
Qed.

(* the empty program (nothing emitted): no lines and no bytes *)
Theorem C17_stats_empty_program :
  forall nregs, let r := run_stats [] nregs gen_stats [] in
    lookupZ "num_lines" r = 0%Z /\ lookupZ "num_bytes" r = Z.of_nat (crlf_size []).
Proof. intros nregs. unfold gen_stats. cbn. split; reflexivity. Qed.

Theorem C17_splitlines_counts_lines :
  forall s, plain_text s -> List.length (splitlines s) = line_count s.
Proof. exact splitlines_line_count. Qed.

(* non-vacuity: a two-line text meets the premise *)
Example C17_nonvacuous : plain_text [97; 10; 98]%N.
Proof.
  split; [discriminate|]. split; [|cbn; discriminate].
  intros c [<-|[<-|[<-|[]]]]; cbn; intros H; try discriminate; reflexivity.
Qed.
