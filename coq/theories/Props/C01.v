(* C01 — compiled IC10 behaves like the Python source it came from.

   Full statement (over the trusted semantics Src.Sem and IC10.Machine, any value algebra A):
     for every source program P and emitted program T = compile P, every oracle O and all
     fuels, the effect trace of P and the effect trace of T agree on their common length, and
     neither stops while the other still produces effects.
   The compiler itself (3000 lines over mutable astroid objects) is not modelled as a function;
   the statement is decided per compile by validation: the theorems below are the kernel-checked
   parts (for ALL programs / operands), the run-time tie is differential execution of real
   compiler output through the very definitions the theorems are about. *)
From Coq Require Import List ZArith Bool String PrimFloat.
From PV Require Import IC10.Values IC10.Machine IC10.MachineProofs IC10.FloatAlg IC10.FloatFacts
                       Src.Sem Valid.Diff Valid.DiffProofs Model.Fold Model.Tables Model.ForRange Model.IfTest.
From PVGen Require Import GenOps GenForRange GenIfTest.
Import ListNotations.
Local Open Scope string_scope.

Definition C01_statement {val} (A : valg val) (compile : @prog val -> option (@program val)) : Prop :=
  forall P T, compile P = Some T -> forall O fs ft,
    let '(se, _) := run_src A fs P O in
    let tt := trace (run A O T ft (init_state A)) in
    forall k x y, nth_error se k = Some x -> nth_error tt k = Some y -> ev_eqb A x y = true.

(* (1) effects are never retracted: a fuel-cut target trace is a prefix of every longer run,
   for every program, oracle and state — comparing prefixes is therefore meaningful *)
Theorem C01_target_trace_monotone :
  forall val (A : valg val) O p a b s,
    exists l, trace (run A O p (a + b) s) = (trace (run A O p a s) ++ l)%list.
Proof. intros. apply trace_prefix_of_longer_run. Qed.

(* (2) soundness of the comparison: verdict 0 means the traces agree event by event *)
Theorem C01_verdict_agree_sound :
  forall val (A : valg val) sres tt ts c i ns nt e1 e2,
    judge A sres tt ts = (c, i, ns, nt, e1, e2) -> c = 0 ->
    forall k x y, nth_error (fst sres) k = Some x -> nth_error tt k = Some y -> ev_eqb A x y = true.
Proof. intros. eapply judge_agree_sound; eauto. Qed.

(* (3) branch selection: for every source comparison operator the generated table pairs it
   with the suffix of the NEGATED relation (finite, over the regenerated tables) ... *)
Theorem C01_negated_suffix_table :
  forall op s n, assoc op gen_cmp_suffix = Some s -> assoc op gen_neg_cmp_suffix = Some n ->
    exists c, cmp_of_suffix s = Some c /\ cmp_of_suffix n = Some (cmp_neg c).
Proof.
  assert (forallb (fun p => match assoc (fst p) gen_neg_cmp_suffix with
                            | Some n => match cmp_of_suffix (snd p), cmp_of_suffix n with
                                        | Some c, Some c' => match c, c' with
                                            | Ceq, Cne | Cne, Ceq | Clt, Cge | Cle, Cgt | Cgt, Cle | Cge, Clt => true
                                            | _, _ => false end
                                        | _, _ => false end
                            | None => false end) gen_cmp_suffix = true) as H by (vm_compute; reflexivity).
  rewrite forallb_forall in H.
  assert (forall (l : list (string * string)) op s, assoc op l = Some s -> In (op, s) l) as AI.
  { induction l as [|[k v] l IH]; cbn; intros op s E; [discriminate|].
    destruct (String.eqb op k) eqn:Ek; [apply String.eqb_eq in Ek; injection E as <-; left; congruence|right; auto]. }
  intros op s n Hs Hn. specialize (H (op, s) (AI _ _ _ Hs)). cbn [fst snd] in H. rewrite Hn in H.
  destruct (cmp_of_suffix s) as [c|]; [|discriminate]. destruct (cmp_of_suffix n) as [c'|]; [|discriminate].
  exists c. split; [reflexivity|]. destruct c, c'; try discriminate; reflexivity.
Qed.

(* ... and for ALL ordered (non-NaN) operands the branch on the negated relation is taken exactly
   when the source comparison is false *)
Theorem C01_negated_branch_correct :
  forall c x y, PrimFloat.is_nan x = false -> PrimFloat.is_nan y = false ->
    fcmp (cmp_neg c) x y = negb (fcmp c x y).
Proof. exact cmp_neg_correct. Qed.

(* the premise is needed: with a NaN operand both relations are false (known finding) *)
Theorem C01_negated_branch_nan_refuted :
  exists x y, fcmp (cmp_neg Clt) x y = false /\ fcmp Clt x y = false.
Proof. exact cmp_neg_nan_refuted. Qed.

(* (4) `for v in range(start, stop, step)`: the exit branch, the direction test, the increment and the
   back jump are re-read from handle_for on every run ... *)
Theorem C01_for_range_lowering_as_modelled :
  test_of_opcode gen_for_branch_increasing = Some TGe /\ test_of_opcode gen_for_branch_decreasing = Some TLe /\
  gen_for_branch_operands = "[iter_sym, end, end_label]" /\
  gen_for_direction_test = "args[2]._ndata.constant_value >= 0" /\ gen_for_default_increasing = true /\
  gen_for_tail = [("f'{cont_label}:'", "", ""); ("add", "[iter_sym, step]", "iter_sym"); ("j", "[for_label]", ""); ("f'{end_label}:'", "", "")].
Proof. repeat split; reflexivity. Qed.

(* ... and with those branches the loop visits exactly Python's range(start, stop, step) (CPython's
   length formula), for EVERY start, stop and constant step > 0, resp. < 0 *)
Theorem C01_for_range_increasing : forall a b s t, (0 < s)%Z ->
  test_of_opcode gen_for_branch_increasing = Some t ->
  forall fuel, (Z.to_nat (range_len a b s) < fuel)%nat -> loop t a b s fuel = py_range a b s.
Proof.
  intros a b s t Hs Ht fuel Hf. assert (t = TGe) as -> by (cbn in Ht; congruence).
  exact (loop_up_is_range _ a b s Hs eq_refl fuel Hf).
Qed.
Theorem C01_for_range_decreasing : forall a b s t, (s < 0)%Z ->
  test_of_opcode gen_for_branch_decreasing = Some t ->
  forall fuel, (Z.to_nat (range_len a b s) < fuel)%nat -> loop t a b s fuel = py_range a b s.
Proof.
  intros a b s t Hs Ht fuel Hf. assert (t = TLe) as -> by (cbn in Ht; congruence).
  exact (loop_down_is_range _ a b s Hs eq_refl fuel Hf).
Qed.

(* (5) the test of an `if`: gen_* are re-read from handle_if / try_replace_call_with_branch on every run
   (tools/pyt2coq/iftest.py).  Python runs the body of `if [not] c` iff  truth(c) xor negated.

   constant test: exactly the branch Python runs is kept (and it is emitted unguarded) ... *)
Theorem C01_constant_if_keeps_the_branch_python_runs : forall v negated body_present else_present,
  gen_const_test v negated body_present else_present
  = (body_present && python_runs_body v negated, else_present && negb (python_runs_body v negated)) /\
  gen_literal_test v negated body_present else_present
  = (body_present && python_runs_body v negated, else_present && negb (python_runs_body v negated)).
Proof. intros; split; [apply const_test_spec | apply literal_test_spec]. Qed.

(* ... run-time test: the one branch instruction placed before the body (comparison, plain value, device
   test sdse / sdns) is taken -- skipping the body -- exactly when Python does not run the body, with and
   without `not` (comparisons: for ordered operands, see C01_negated_branch_nan_refuted) *)
Theorem C01_if_branch_skips_body_iff_python_skips : forall negated,
  (forall r, compare_branch_taken (gen_compare_uses_negated_suffix negated) r = negb (python_runs_body r negated)) /\
  (forall t, value_branch_taken (gen_value_branch negated) t = Some (negb (python_runs_body t negated))) /\
  (forall f set tv, device_test_value f set = Some tv ->
     device_branch_taken (gen_device_test_branch f negated) set = Some (negb (python_runs_body tv negated))).
Proof.
  intros n; repeat split.
  - intros r; apply compare_branch_spec.
  - intros t; apply value_branch_spec.
  - intros f set tv H; apply device_branch_spec; exact H.
Qed.

(* the premises are satisfiable: `if not sdse(d)` on a device that is not set runs the body *)
Example C01_if_not_sdse_example :
  device_test_value "sdse" false = Some false /\ gen_device_test_branch "sdse" true = "bdse" /\
  device_branch_taken "bdse" false = Some false /\ python_runs_body false true = true.
Proof. repeat split; reflexivity. Qed.
