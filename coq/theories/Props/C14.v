(* C14 — the compile daemon answers every request with exactly one line. *)
From Coq Require Import List String Bool Arith Lia.
From PV Require Import Model.Skel Model.SkelSem Model.SkelSemProofs Model.SkelEnvs.
From PVGen Require Import GenSkeletons.
Import ListNotations.
Local Open Scope string_scope.

(* the analysis is sound for EVERY skeleton, environment and execution *)
Theorem C14_analysis_sound :
  forall E s sk o s', exec E s sk o s' -> forall a, absr a (fst s) ->
    exists a' c, In (o, a', c) (outs E sk a) /\ absr a' (fst s') /\ cnt_ok c (snd s' - snd s).
Proof. exact outs_sound. Qed.

(* process_input on a NON-EMPTY line: on every path (whichever call raises whichever exception)
   it returns normally and exactly one reply line is written *)
Definition one_reply (r : ares) : bool :=
  let '(o, _, c) := r in negb (outcome_is_raise o) && is_c1 c.
Theorem C14_one_reply_per_request :
  forall s o s', exec (env_process_input false) s gen_process_input o s' ->
    (forall x, o <> ORaise x) /\ snd s' = S (snd s).
Proof.
  assert (forallb one_reply (outs (env_process_input false) gen_process_input (Some false)
                              ++ outs (env_process_input false) gen_process_input (Some true)) = true) as H
    by (vm_compute; reflexivity).
  rewrite forallb_forall in H. intros s o s' Hex.
  destruct (outs_sound _ _ _ _ _ Hex (Some (fst s)) eq_refl) as (a' & c & Hin & _ & Hc).
  assert (one_reply (o, a', c) = true) as K.
  { apply H. apply in_or_app. destruct (fst s); [right|left]; exact Hin. }
  unfold one_reply in K. apply andb_prop in K as [K1 K2]. destruct c; try discriminate. cbn in Hc.
  split; [intros x ->; discriminate|].
  assert (snd s <= snd s') as L.
  { destruct (proj1 (outs_sound_all _) _ _ _ _ Hex (Some (fst s)) eq_refl) as (? & ? & _ & _ & _ & L). exact L. }
  lia.
Qed.

(* an empty line is skipped silently *)
Theorem C14_empty_line_no_reply :
  forall s o s', exec (env_process_input true) s gen_process_input o s' -> o = OReturn /\ snd s' = snd s.
Proof.
  assert (forallb (fun r => match r with (OReturn, _, C0) => true | _ => false end)
            (outs (env_process_input true) gen_process_input (Some false)
             ++ outs (env_process_input true) gen_process_input (Some true)) = true) as H by (vm_compute; reflexivity).
  rewrite forallb_forall in H. intros s o s' Hex.
  destruct (proj1 (outs_sound_all _) _ _ _ _ Hex (Some (fst s)) eq_refl) as (a' & c & Hin & _ & Hc & L).
  assert (In (o, a', c) (outs (env_process_input true) gen_process_input (Some false)
                          ++ outs (env_process_input true) gen_process_input (Some true))) as Hin'.
  { apply in_or_app. destruct (fst s); [right|left]; exact Hin. }
  specialize (H _ Hin'). destruct o; try discriminate. destruct c; try discriminate. cbn in Hc. split; [reflexivity|lia].
Qed.

(* the main loop never lets an exception escape, and stdin is made lenient before reading *)
Theorem C14_main_loop_never_raises :
  (forall s o s', exec env_daemon_main s gen_daemon_main o s' -> forall x, o <> ORaise x) /\
  has_stmt (fun e => String.eqb e "sys.stdin.reconfigure(errors='replace')") gen_daemon_main = true.
Proof.
  split; [|vm_compute; reflexivity].
  assert (forallb (fun r => negb (outcome_is_raise (fst (fst r)))) (outs env_daemon_main gen_daemon_main None) = true) as H
    by (vm_compute; reflexivity).
  rewrite forallb_forall in H. intros s o s' Hex x ->.
  destruct (outs_sound _ _ _ _ _ Hex None I) as (a' & c & Hin & _). specialize (H _ Hin). discriminate H.
Qed.

(* nothing else ever reaches standard output: stdout is redirected to stderr at import and the
   only statement writing to the saved real stdout is the reply *)
Theorem C14_only_reply_site_writes_stdout :
  gen_daemon_stdout_setup = ["_stdout = sys.stdout"; "sys.stdout = sys.stderr"] /\
  gen_daemon_print_sites = ["print(encoded, flush=True, file=_stdout)"].
Proof. split; reflexivity. Qed.

(* ---- histories: the daemon serves request lines one after the other; whatever each call of
        process_input does internally (any exception raised anywhere inside it), after a whole
        history the number of replies written equals the number of non-empty lines, and no call
        ever ends by raising.  `true` in the history stands for an empty line. ---- *)
Inductive serves : (bool * nat) -> list bool -> (bool * nat) -> Prop :=
| serves_nil : forall s, serves s [] s
| serves_cons : forall s e o s1 es s2,
    exec (env_process_input e) s gen_process_input o s1 -> serves s1 es s2 -> serves s (e :: es) s2.

Fixpoint non_empty (es : list bool) : nat :=
  match es with [] => 0 | e :: r => (if e then 0 else 1) + non_empty r end.

Theorem C14_history_replies :
  forall es s s', serves s es s' -> snd s' = snd s + non_empty es.
Proof.
  induction es as [|e es IH]; intros s s' H; inversion H; subst; cbn [non_empty].
  - lia.
  - match goal with Hs : serves _ es _ |- _ => apply IH in Hs; rewrite Hs end.
    match goal with Hx : exec (env_process_input e) _ _ _ _ |- _ =>
      destruct e; [apply C14_empty_line_no_reply in Hx as [_ Hx] | apply C14_one_reply_per_request in Hx as [_ Hx]];
      rewrite Hx; lia end.
Qed.

(* replies come in request order: after every prefix of the history the count is the number of
   non-empty lines of that prefix (so the k-th reply is written while the k-th non-empty line is served) *)
Theorem C14_history_prefix_order :
  forall es1 es2 s s', serves s (es1 ++ es2) s' ->
    exists sm, serves s es1 sm /\ serves sm es2 s' /\ snd sm = snd s + non_empty es1.
Proof.
  induction es1 as [|e es1 IH]; intros es2 s s' H; cbn [app] in H.
  - exists s. split; [constructor|]. split; [exact H|cbn; lia].
  - inversion H; subst.
    match goal with Hs : serves _ (es1 ++ es2) _ |- _ => destruct (IH _ _ _ Hs) as (sm & A & B & C) end.
    exists sm. split; [econstructor; eassumption|]. split; [exact B|].
    assert (serves s (e :: es1) sm) as K by (econstructor; eassumption).
    apply C14_history_replies in K. exact K.
Qed.
