(* C08 — compact output means the same as verbose output. *)
From Coq Require Import ZArith NArith String Ascii List Bool.
From PV Require Import Base.CRC32 Model.Tables Model.FormatNum Model.HashStr Model.HashStrProofs.
From PVGen Require Import GenHash GenEnums.
Import ListNotations.
Local Open Scope string_scope.

(* Tie (translator): each of the six functions has the modelled shape (checked by the
   translator, fail-closed) with exactly these constants. *)
Theorem C08_generated_code_is_model :
  gen_calc_hash_consts = [CInt 2147483648; CInt 2147483648] /\
  gen_format_int_consts = [CStr "_hash"; CInt 10000; CStr "${value:X}"] /\
  gen_format_enum_consts = [CStr "."] /\
  gen_apply_output_mode_consts = [CNone] /\
  gen_compute_string_consts = [CInt 0; CInt 8; CStr "STR(""{s}"")"] /\
  gen_compute_hash_consts = [CStr "__register."; CStr ""; CStr "Name cannot be an empty string"; CInt 0; CStr """";
                             CInt 1; CStr """"; CInt 1; CInt 1; CStr "HASH("""; CStr """)"; CInt 6; CInt 2;
                             CStr "HASH(""{name}"")"].
Proof. repeat split; reflexivity. Qed.

(* calc_hash's xor/subtract formula is the two's-complement reading of the CRC, for every
   32-bit value, hence for the CRC of every string *)
Theorem C08_calc_hash_is_signed_crc :
  forall s, heval model_calc_hash (Z.of_N (crc32_bytes (bytes_of_string s))) = signed_crc s.
Proof. exact calc_hash_of_string. Qed.

(* For EVERY name and EVERY output mode the printed HASH token has the value of the signed
   CRC-32 of the name: a number is substituted only if it is exactly the symbol's value. *)
Theorem C08_hash_token_value_mode_independent :
  forall hashes name m, tok_value (print_rendered hashes (compute_hash name m)) = Some (signed_crc name).
Proof. exact hash_token_value_mode_independent. Qed.

(* the same for STR (strings of code points < 256): big-endian byte packing *)
Theorem C08_str_token_value_mode_independent :
  forall hashes s m, tok_value (print_rendered hashes (compute_string s m)) = Some (be256 s).
Proof. exact str_token_value_mode_independent. Qed.

(* integer literals ($HEX above 10000, decimal otherwise) read back exactly, for every integer *)
Theorem C08_integer_literal_roundtrip :
  forall hashes z, read_int_literal (format_int hashes z) = Some z.
Proof. exact format_int_roundtrip. Qed.

(* enum members: within each enumeration the name printed in verbose mode resolves to the
   number printed in compact mode (finite, over all regenerated enums) *)
Theorem C08_enum_tokens_same_value :
  forall e name v, In e gen_enums -> In (name, v) (snd e) -> assoc name (snd e) = Some v.
Proof.
  assert (forallb (fun e => forallb (fun p => match assoc (fst p) (snd e) with Some v => Z.eqb v (snd p) | None => false end) (snd e)) gen_enums = true) as H
    by (vm_compute; reflexivity).
  rewrite forallb_forall in H. intros e name v He Hm. specialize (H e He). rewrite forallb_forall in H.
  specialize (H (name, v) Hm). cbn [fst snd] in H. destruct (assoc name (snd e)); [|discriminate].
  apply Z.eqb_eq in H. congruence.
Qed.

Example C08_nonvacuous :
  tok_value "HASH(""StructureWallLight"")" = Some (-1860064656)%Z /\
  print_rendered [] (compute_hash "n" COMPACT) = "HASH(""n"")" /\
  print_rendered [] (compute_hash "Some Name" COMPACT) = "$8D149E6" /\
  tok_value "$8D149E6" = Some (signed_crc "Some Name").
Proof. vm_compute. repeat split; reflexivity. Qed.
