(* C18 — share links round-trip.  Only statements closed by `exact`. *)
From Coq Require Import List NArith Bool String.
From PV Require Import Base.Base64 Model.ShareLink Model.ShareLinkProofs.
From PVGen Require Import GenShare.
Import ListNotations.
Local Open Scope N_scope.

(* Tie (translator): the replacement chains, padding rule and call pipelines read from
   types.py on this run are the ones the model below is about. *)
Theorem C18_generated_code_is_model :
  gen_enc_chain = enc_chain /\ gen_dec_chain = dec_chain /\
  gen_pad_char = PAD /\ gen_pad_mod = 4 /\
  gen_enc_pipeline = ["json.dumps"; ".encode"; "zlib.compress"; "base64.b64encode"; ".decode"]%string /\
  gen_dec_pipeline = ["base64.b64decode"; "zlib.decompress"; ".decode"; "json.loads"]%string.
Proof. repeat split; reflexivity. Qed.

(* For EVERY byte string: decoding the encoded form gives the bytes back. *)
Theorem C18_codec_roundtrip :
  forall bs, Forall (fun b => b < 256) bs -> url_decode (url_encode bs) = Some bs.
Proof. exact url_roundtrip. Qed.

(* For EVERY byte string the encoded form uses only letters, digits, '-' and '_'. *)
Theorem C18_urlsafe_alphabet :
  forall bs, Forall (fun b => b < 256) bs -> forallb urlsafe_char (url_encode bs) = true.
Proof. exact url_alphabet. Qed.

Theorem C18_length_never_1_mod_4 :
  forall bs, Forall (fun b => b < 256) bs -> N.of_nat (List.length (url_encode bs)) mod 4 <> 1.
Proof. exact url_length_not_1_mod_4. Qed.

(* The whole pipeline, zlib / JSON / UTF-8 being oracles with their round-trip laws. *)
Theorem C18_share_roundtrip :
  forall (J : Type) (ser : J -> list N) (deser : list N -> option J)
         (compress decompress_ : list N -> list N),
    (forall d, deser (ser d) = Some d) ->
    (forall bs, decompress_ (compress bs) = bs) ->
    (forall bs, Forall (fun b => b < 256) (compress bs)) ->
    forall d, decode_data J deser decompress_ (encode_data J ser compress d) = Some d
              /\ forallb urlsafe_char (encode_data J ser compress d) = true.
Proof.
  intros J ser deser compress decompress_ H1 H2 H3 d. split.
  - exact (share_roundtrip J ser deser compress decompress_ H1 H2 H3 d).
  - exact (share_urlsafe J ser compress H3 d).
Qed.

(* Non-vacuity: a concrete byte string of each length class meets the premise and exercises
   '+', '/', and both padding lengths. *)
Example C18_nonvacuous :
  url_encode [251; 255; 254] = [45; 95; 95; 45] /\ url_encode [251; 255] = [45; 95; 56] /\
  url_encode [251] = [45; 119] /\ url_decode [45; 119] = Some [251].
Proof. vm_compute. repeat split; reflexivity. Qed.
