(* C07 — when the top-level script finishes, nothing else runs. *)
From Coq Require Import List ZArith Bool Arith.
From PV Require Import IC10.Values IC10.Machine Model.Layout Model.LayoutProofs.
Import ListNotations.

(* For EVERY program, oracle and running state: an instruction that is not a control transfer
   either moves to the next line or fails in place (so sequential flow is exactly "pc + 1"). *)
Theorem C07_sequential_flow_is_next_line :
  forall val (A : valg val) O p s op args,
    st s = Running -> nth_error p (pc s) = Some (LInstr op args) -> is_control op = false ->
    pc (step A O p s) = S (pc s) \/ st (step A O p s) <> Running.
Proof. intros. eapply step_noncontrol; eauto. Qed.

(* In a closed layout the line before every function region is j / jr / hcf ... *)
Theorem C07_closed_layout_has_terminators :
  forall val (p : @program val) entries, closed p entries = true ->
    forall e, In e entries -> exists k l, e = S k /\ nth_error p k = Some l /\ seq_falls l = false.
Proof. intros val p entries. exact (closed_spec p entries). Qed.

(* ... and from such a line the machine never continues by sequential flow: it stops, or the
   next program counter is the evaluated jump target.  Hence in a closed layout a function
   region is entered only by an explicit transfer (jal, or j for a tail call). *)
Theorem C07_terminator_never_falls_through :
  forall val (A : valg val) O p s l,
    st s = Running -> nth_error p (pc s) = Some l -> seq_falls l = false ->
    exists op args, l = LInstr op args /\
      ((op = IHcf /\ st (step A O p s) <> Running) \/
       (st (step A O p s) <> Running) \/
       (exists t v, (op = IJ \/ op = IJr) /\ args = [t] /\ oval A p s t = Some v /\
          (op = IJ -> exists z, v_to_Z A v = Some z /\ pc (step A O p s) = Z.to_nat z) /\
          (op = IJr -> exists z, v_to_Z A v = Some z /\ pc (step A O p s) = Z.to_nat (Z.of_nat (pc s) + z)))).
Proof. intros. eapply step_terminator; eauto. Qed.

(* past the last line the machine halts without any effect *)
Theorem C07_end_of_program_halts :
  forall val (A : valg val) O (p : @program val) s,
    st s = Running -> nth_error p (pc s) = None ->
    st (step A O p s) = Halted /\ hist (step A O p s) = hist s.
Proof. intros val A O p s Hr Hn. unfold step. rewrite Hr, Hn. split; reflexivity. Qed.

(* The emitted layout is NOT closed today when the main code can terminate: witness (the shape
   of register_assignment.ref: 'jal main / get r0 db 511 / main:').  Known finding. *)
Example C07_main_falls_through_refuted :
  closed (val := nat) [LInstr IJal [OLbl 0]; LInstr IGet [OReg 0; ODev 6; OImm 511]; LLabel 0; LInstr IJ [OReg 17]] [2] = false.
Proof. reflexivity. Qed.
Example C07_nonvacuous :
  closed (val := nat) [LLabel 1; LInstr IJal [OLbl 0]; LInstr IJ [OLbl 1]; LLabel 0; LInstr IJ [OReg 17]] [3] = true.
Proof. reflexivity. Qed.
