(* C12 — constexpr calls are replaced by exactly what the function returns; the decorated
   function emits no code; functions containing open, eval or exec are rejected.
   The mechanisms (forbidden-word test, body removal, the skip in code gathering) are re-read
   from the sources on every run; the value itself is computed by CPython (outside the model)
   and compared by the correspondence runs of tools/pv/props/c12.py. *)
From Coq Require Import List NArith ZArith String Bool.
From PV Require Import Base.PyStr Model.FormatNum Model.Skel Model.Constexpr Model.ConstexprProofs.
From PVGen Require Import GenSkeletons.
Import ListNotations.

Definition bytes (s : string) : pystr := map Ascii.N_of_ascii (list_ascii_of_string s).
Definition has (needle hay : string) : bool := PyStr.contains (bytes needle) (bytes hay).

(* ---- rejection: a function text with open / eval / exec standing as a word anywhere ---- *)
Theorem C12_forbidden_rejected : forall pre rest w,
  w = W_OPEN \/ w = W_EVAL \/ w = W_EXEC ->
  (match rev pre with [] => True | c :: _ => is_word c = false end) ->
  (match rest with [] => True | c :: _ => is_word c = false end) ->
  forbidden (pre ++ w ++ rest) = true.
Proof. exact forbidden_rejected. Qed.
Print Assumptions C12_forbidden_rejected.

Example forbidden_example :
  forbidden (bytes "def f(a):
    return eval('1')") = true /\
  forbidden (bytes "def f(opened, evaluate, _exec):
    return opened") = false.
Proof. split; vm_compute; reflexivity. Qed.

(* the source applies exactly this test, and raises when it matches *)
Local Open Scope string_scope.
Theorem C12_source_applies_the_test :
  gen_constexpr_check =
  SSeq [SImport;
        SIf "re.search('\\b(open|eval|exec)\\b', node.as_string())"
            (SSeq [SRaise "CompilerError('Constexpr functions cannot contain open, eval or exec statements', node)"])
            (SSeq [])].
Proof. reflexivity. Qed.

(* ---- decorated functions: checked first, source recorded, body removed ---- *)
Fixpoint assigns (sk : skel) : list (string * string) :=
  match sk with
  | SAssign t e => [(t, e)]
  | SSeq l => (fix go (l : list skel) := match l with [] => [] | s :: r => (assigns s ++ go r)%list end) l
  | SIf _ a b => (assigns a ++ assigns b)%list
  | SFor _ _ b => assigns b
  | SWhile _ b => assigns b
  | _ => []
  end.

Definition constexpr_branch : option skel :=
  match gen_constexpr_decorators with
  | SSeq [SFor "n" "node.nodes" (SSeq [_; SIf "n.name in ['constexpr', 'emit_code']" yes (SSeq [SRaise _])])] => Some yes
  | _ => None
  end.

Theorem C12_decorated_function_is_checked_recorded_and_emptied :
  exists rest,
    constexpr_branch = Some (SSeq (SAssign "fnode" "node.parent" :: SExpr "self.check_constexpr_function(fnode)" :: rest))
    /\ In ("fnode.body", "[]") (assigns (SSeq rest))
    /\ In ("self.data.constexpr_functions[scope]",
           "self.data.constexpr_functions.get(scope, '') + '\n' + fnode.as_string()") (assigns (SSeq rest)).
Proof.
  eexists. split; [reflexivity|]. split; cbn; repeat (try (left; reflexivity); right).
Qed.

(* ---- code gathering: a constexpr function is skipped before anything is appended ---- *)
Definition mentions (needle : string) (sk : skel) : bool :=
  (fix go (sk : skel) : bool :=
     match sk with
     | SExpr e => has needle e
     | SAssign t e => has needle t || has needle e
     | SSeq l => (fix gl (l : list skel) := match l with [] => false | s :: r => go s || gl r end) l
     | SIf _ a b => go a || go b
     | SFor _ _ b => go b
     | SWhile _ b => go b
     | _ => false
     end) sk.

Definition gather_loop_body : option (list skel) :=
  match gen_gather_run with
  | SSeq l =>
      (fix find (l : list skel) :=
         match l with
         | [] => None
         | SFor "fname" "sorted(self.data.functions.keys())" (SSeq b) :: _ => Some b
         | _ :: r => find r
         end) l
  | _ => None
  end.

(* the only statements of CompilerPassGatherCode.run that add lines to the output stand in the
   per-function loop, after `if func.is_constexpr: continue` *)
Theorem C12_constexpr_functions_are_skipped :
  exists rest,
    gather_loop_body = Some (SAssign "func" "self.data.functions[fname]"
                             :: SIf "func.is_constexpr" (SSeq [SContinue]) (SSeq []) :: rest)
    /\ existsb (mentions "self.code.append") rest = true.
Proof. eexists. split; [reflexivity|]. vm_compute. reflexivity. Qed.

Theorem C12_nothing_appended_outside_the_loop :
  match gen_gather_run with
  | SSeq l => forallb (fun s => match s with
                                | SFor "fname" _ _ => true
                                | _ => negb (mentions "self.code.append" s)
                                end) l = true
  | _ => False
  end.
Proof. vm_compute. reflexivity. Qed.

(* ---- transport of the value: every integer result arrives unchanged in the literal the
        chip reads, whatever the hash table says about it ---- *)
Theorem C12_integer_result_arrives_unchanged : forall hashes z, transport_int hashes z = Some z.
Proof. exact transport_int_identity. Qed.
Print Assumptions C12_integer_result_arrives_unchanged.
