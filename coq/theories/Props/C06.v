(* C06 — calls return to their call site; arguments and results arrive intact. *)
From Coq Require Import List ZArith Bool Arith.
From PV Require Import IC10.Values IC10.Machine IC10.Monitor Model.RaInsert Model.RaInsertProofs.
Import ListNotations.

(* the shadow-stack monitor only observes: the monitored run IS the machine's run, for every
   program, oracle, fuel and starting state *)
Theorem C06_monitor_does_not_disturb :
  forall val (A : valg val) O p fuel s stk log,
    fst (fst (mrun A O p fuel s stk log)) = run A O p fuel s.
Proof. intros. apply mrun_state. Qed.

(* push ra / pop ra insertion, fixed-slot convention: for EVERY function body of the emitted
   shape that makes a call, exactly one push on entry and one pop after the end label (so early
   returns, which jump to the end label, pass through it) *)
Theorem C06_ra_saved_and_restored_fixed :
  forall body, (forall x, In x body -> x <> EndLab) -> have_calls body = true ->
    add_ra_fixed (Lab :: body ++ [EndLab; JRa]) = Some (Lab :: PushRa :: body ++ [EndLab; PopRa; JRa]).
Proof. exact add_ra_fixed_shape. Qed.

Theorem C06_leaf_functions_untouched :
  forall c, have_calls c && have_returns c = false -> add_ra_fixed c = Some c.
Proof. exact add_ra_fixed_untouched. Qed.

Example C06_nonvacuous :
  add_ra_fixed [Lab; Other; Call; JEnd; Other; EndLab; JRa] = Some [Lab; PushRa; Other; Call; JEnd; Other; EndLab; PopRa; JRa] /\
  add_ra_pushpop [Lab; PopArg; PopArg; Call; PushV; JEnd; Other; PushV; EndLab; JRa]
    = [Lab; PopArg; PopArg; PushRa; Call; PopRa; PushV; JEnd; Other; PopRa; PushV; EndLab; JRa].
Proof. split; reflexivity. Qed.
