(* C06 — calls return to their call site; arguments and results arrive intact. *)
From Coq Require Import List ZArith Bool Arith.
From PV Require Import IC10.Values IC10.Machine IC10.Monitor Model.RaInsert Model.RaInsertProofs Model.RaPushPop.
Import ListNotations.

(* the shadow-stack monitor only observes: the monitored run IS the machine's run, for every
   program, oracle, fuel and starting state *)
Theorem C06_monitor_does_not_disturb :
  forall val (A : valg val) entries O p fuel s stk log,
    fst (fst (mrun A entries O p fuel s stk log)) = run A O p fuel s.
Proof. intros. apply mrun_state. Qed.

(* push ra / pop ra insertion, fixed-slot convention: for EVERY function body of the emitted
   shape that makes a call, exactly one push on entry and one pop after the end label (so early
   returns, which jump to the end label, pass through it) *)
Theorem C06_ra_saved_and_restored_fixed :
  forall body, (forall x, In x body -> x <> EndLab) -> have_calls body = true ->
    add_ra_fixed (Lab :: body ++ [EndLab; JRa]) = Some (Lab :: PushRa :: body ++ [EndLab; PopRa; JRa]).
Proof. exact add_ra_fixed_shape. Qed.

Theorem C06_leaf_functions_untouched :
  forall c, have_calls c && have_returns c = false -> add_ra_fixed c = Some c.
Proof. exact add_ra_fixed_untouched. Qed.

(* push/pop convention, for EVERY instruction list that starts with the function's label and whose
   `push ra` position is not also a `pop ra` position: (1) the insertions leave the original
   instructions in place and put, in front of the instruction with original index i, exactly the
   elements scheduled for i (`push ra` after the argument pops, `pop ra` at each exit or in front of
   the value push preceding it); (2) reading the result from the top, every exit - an early return
   `j <name>end` as well as the end label - is preceded by `pop ra` with at most the push of the
   return value in between, so every path out of the function restores the return address *)
Theorem C06_pushpop_result_is_decoration :
  forall c, nth_error c 0 = Some Lab ->
    ~ In (1 + leading_pops (tl c)) (dedup (map (pop_pos c) (exit_points c 0))) ->
    have_calls c && have_returns c = true ->
    add_ra_pushpop c =
    decorate (at_pos (sort_desc ((1 + leading_pops (tl c), PushRa)
                                 :: map (fun p => (p, PopRa)) (dedup (map (pop_pos c) (exit_points c 0)))))) c 0.
Proof. intros c H1 H2 H3. exact (pushpop_is_decorate c H1 H2 H3). Qed.

Theorem C06_pushpop_exits_are_guarded :
  forall c, nth_error c 0 = Some Lab ->
    ~ In (1 + leading_pops (tl c)) (dedup (map (pop_pos c) (exit_points c 0))) ->
    have_calls c && have_returns c = true ->
    scan (add_ra_pushpop c) false = true.
Proof. exact pushpop_exits_are_guarded. Qed.

Example C06_nonvacuous :
  add_ra_fixed [Lab; Other; Call; JEnd; Other; EndLab; JRa] = Some [Lab; PushRa; Other; Call; JEnd; Other; EndLab; PopRa; JRa] /\
  add_ra_pushpop [Lab; PopArg; PopArg; Call; PushV; JEnd; Other; PushV; EndLab; JRa]
    = [Lab; PopArg; PopArg; PushRa; Call; PopRa; PushV; JEnd; Other; PopRa; PushV; EndLab; JRa].
Proof. split; reflexivity. Qed.
