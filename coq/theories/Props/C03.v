(* C03 — compile-time evaluation gives the value the chip would compute. *)
From Coq Require Import List ZArith Bool String PrimFloat.
From PV Require Import IC10.Values IC10.Machine IC10.FloatAlg IC10.FloatFacts IC10.Sig Model.Fold Model.FoldProofs Model.FoldTree Model.Tables.
From PVGen Require Import GenOps.
Import ListNotations.
Local Open Scope string_scope.

(* Tie (translator): the operator tables read from utils.py on this run, lambdas included, are
   the ones the theorems below are about. *)
Theorem C03_generated_tables_are_model :
  gen_binops = model_binops /\ gen_unops = model_unops.
Proof. split; reflexivity. Qed.

(* every table entry names an instruction whose run-time meaning is defined *)
Theorem C03_binop_opcodes_known :
  forall e, In e gen_binops -> chip_binop (snd (fst e)) <> None /\ sig_of (snd (fst e)) <> None.
Proof.
  assert (forallb (fun e => match chip_binop (snd (fst e)), sig_of (snd (fst e)) with Some _, Some _ => true | _, _ => false end) gen_binops = true) as H
    by (vm_compute; reflexivity).
  rewrite forallb_forall in H. intros e Hin. specialize (H e Hin).
  destruct (chip_binop (snd (fst e))), (sig_of (snd (fst e))); try discriminate. split; discriminate.
Qed.

(* + - * / ** : the folded value IS the instruction's result, for all operands *)
Theorem C03_fold_arith_agrees : forall x y r,
  (fold2 (PBin PAdd (PE PX) (PE PY)) x y = Some r -> r = fbin Badd x y) /\
  (fold2 (PBin PSub (PE PX) (PE PY)) x y = Some r -> r = fbin Bsub x y) /\
  (fold2 (PBin PMul (PE PX) (PE PY)) x y = Some r -> r = fbin Bmul x y) /\
  (fold2 (PBin PDiv (PE PX) (PE PY)) x y = Some r -> r = fbin Bdiv x y) /\
  (fold2 (PBin PPow (PE PX) (PE PY)) x y = Some r -> r = fbin Bpow x y).
Proof.
  intros x y r. repeat split.
  - exact (fold_add x y r). - exact (fold_sub x y r). - exact (fold_mul x y r).
  - exact (fold_div x y r). - exact (fold_pow x y r).
Qed.

(* % : for every modulus that is not negative *)
Theorem C03_fold_mod_agrees : forall x y r, PrimFloat.ltb y PrimFloat.zero = false ->
  fold2 (PBin PMod (PE PX) (PE PY)) x y = Some r -> r = fbin Bmod x y.
Proof. exact (fold_mod zero_not_neg). Qed.

(* comparisons, both table shapes *)
Theorem C03_fold_cmp_agrees : forall c x y r,
  (fold2 (PCmp c (PE PX) (PE PY)) x y = Some r -> r = of_bool FloatAlg (fcmp c x y)) /\
  (fold2 (PCmp c PX PY) x y = Some r -> r = of_bool FloatAlg (fcmp c x y)).
Proof. intros c x y r. split; [exact (fold_cmp_e c x y r)|exact (fold_cmp_raw c x y r)]. Qed.

(* and or ^ & : operands non-negative integers below 2^53 *)
Theorem C03_fold_bitwise_agrees : forall x y a c r, int_operand x a -> int_operand y c ->
  (fold2 (PBin PBitAnd (PInt (PE PX)) (PInt (PE PY))) x y = Some r -> r = fbin Band x y) /\
  (fold2 (PBin PBitOr (PInt (PE PX)) (PInt (PE PY))) x y = Some r -> r = fbin Bor x y) /\
  (fold2 (PBin PBitXor (PInt (PE PX)) (PInt (PE PY))) x y = Some r -> r = fbin Bxor x y).
Proof.
  intros x y a c r Hx Hy. repeat split.
  - apply (fold_bit PBitAnd Z.land Band x y a c r); auto.
  - apply (fold_bit PBitOr Z.lor Bor x y a c r); auto.
  - apply (fold_bit PBitXor Z.lxor Bxor x y a c r); auto 6.
Qed.

(* >> << : left operand a non-negative integer below 2^53, amounts 0..63 (0..9 for <<) *)
Theorem C03_fold_shift_agrees : forall x y a c r, int_operand x a -> trunc_Z y = Some c ->
  ((0 <= c < 64)%Z -> fold2 (PBin PShr (PInt (PE PX)) (PInt (PE PY))) x y = Some r -> r = fbin Bsrl x y) /\
  ((0 <= c <= 9)%Z -> fold2 (PBin PShl (PInt (PE PX)) (PInt (PE PY))) x y = Some r -> r = fbin Bsll x y).
Proof.
  intros x y a c r Hx Hy. split; intros Hc.
  - exact (fold_shr x y a c r Hx Hy Hc). - exact (fold_shl x y a c r Hx Hy Hc).
Qed.

(* unary: not, -, ~ *)
Theorem C03_fold_unary_agrees : forall x r,
  (fold1 (PInt (PNot (PE PX))) x = Some r -> r = of_bool FloatAlg (fcmp Ceq x (of_Z 0))) /\
  (fold1 (PNeg (PE PX)) x = Some r ->
     r = fbin Bsub (of_Z 0) x \/
     (PrimFloat.eqb r PrimFloat.zero = true /\ PrimFloat.eqb (fbin Bsub (of_Z 0) x) PrimFloat.zero = true)) /\
  fold1 (PInv (PE PX)) x = None.
Proof.
  intros x r. repeat split.
  - exact (fold_not x r). - exact (fold_neg neg_is_zero_minus x r). 
Qed.

(* whole expression trees (the recursion of is_constant): for every tree over + - * / ** and the six
   comparisons, of any shape and depth, on any constants, built with the tables read on this run:
   whenever the compiler folds the tree to r, executing the instructions on the same constants gives r *)
Theorem C03_arithmetic_trees_fold_to_run_time_value : forall t r,
  total_tree t = true -> fold_tree gen_binops gen_unops t = Some r -> run_tree gen_binops gen_unops t = Some r.
Proof. exact arithmetic_trees_fold_to_run_time_value. Qed.

(* ... and for trees over all operators, provided each node's operands are in that operator's domain *)
Theorem C03_trees_fold_to_run_time_value : forall t r,
  nodes_agree gen_binops gen_unops t -> fold_tree gen_binops gen_unops t = Some r -> run_tree gen_binops gen_unops t = Some r.
Proof. exact (fold_tree_is_run_tree gen_binops gen_unops). Qed.

(* non-vacuity: concrete operands in each domain *)
Example C03_nonvacuous :
  fold2 (PBin PMod (PE PX) (PE PY)) (-7)%float 3%float = Some 2%float /\
  fold2 (PBin PBitOr (PInt (PE PX)) (PInt (PE PY))) 4%float 1%float = Some 5%float /\
  int_operand 4%float 4%Z /\ fold2 (PBin PShr (PInt (PE PX)) (PInt (PE PY))) 1000%float 2%float = Some 250%float.
Proof. vm_compute. repeat split; try reflexivity; discriminate. Qed.
