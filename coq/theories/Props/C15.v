(* C15 — '# pytrapic:' directives set exactly the named options. *)
From Coq Require Import List NArith ZArith Bool.
From PV Require Import Base.PyStr Model.Pragma Model.PragmaProofs.
From PVGen Require Import GenPragma.
Import ListNotations.

(* Tie (translator): the scanner loop has the modelled shape (checked by the translator, which
   fails closed otherwise) with exactly these literals, and a name is accepted only if it is a
   dataclass field of the options object. *)
Theorem C15_generated_scanner_is_model :
  gen_scanner_consts =
    [S KEY; S KEY; S [HASHCH]; S [HASHCH]; I 1; I 2; I 1; S KEY; I 1; I 2; I 1;
     S [COMMA]; S [DASH]; S [UNDERSCORE]; S NO_; I 3] /\
  gen_attr_test = AttrIsField.
Proof. split; reflexivity. Qed.

(* For EVERY source text and EVERY caller option vector the scanner equals "collect the
   directives of the directive lines in order, then apply them one after the other". *)
Theorem C15_scan_eq_spec : forall src o, scan src o = apply_all (directives src) o.
Proof. exact scan_eq_spec. Qed.

Theorem C15_last_wins : forall src o n, has_field o n = true ->
  lookup (scan src o) n =
  match last_directive (directives src) n with Some v => Some v | None => lookup o n end.
Proof. intros src o n H. rewrite scan_eq_spec. exact (last_wins (directives src) o n H). Qed.

Theorem C15_unnamed_untouched : forall src o n, has_field o n = true ->
  last_directive (directives src) n = None -> lookup (scan src o) n = lookup o n.
Proof. intros src o n H1 H2. rewrite scan_eq_spec. exact (unnamed_untouched _ o n H1 H2). Qed.

Theorem C15_unknown_ignored : forall o d, has_field o (fst d) = false -> apply_directive o d = o.
Proof. exact unknown_ignored. Qed.

Theorem C15_option_set_unchanged : forall src o, map fst (scan src o) = map fst o.
Proof. intros src o. rewrite scan_eq_spec. exact (option_names_unchanged _ o). Qed.

Theorem C15_code_lines_inert : forall line,
  starts_with [HASHCH] (lstrip line) = false -> line_tags line = [].
Proof. exact code_lines_inert. Qed.

Theorem C15_dash_underscore_alike : forall tag,
  norm_tag (replace_char DASH UNDERSCORE tag) = norm_tag tag.
Proof. exact dash_underscore_alike. Qed.

(* non-vacuity: "# pytrapic: compact, no-inline-functions\nx = 1 # pytrapic: remove-labels" on the
   defaults sets compact, clears inline_functions and leaves remove_labels alone *)
Definition ex_src : pystr :=
  [35;32;112;121;116;114;97;112;105;99;58;32;99;111;109;112;97;99;116;44;32;110;111;45;105;110;108;105;110;101;45;102;117;110;99;116;105;111;110;115;10;
   120;32;61;32;49;32;35;32;112;121;116;114;97;112;105;99;58;32;114;101;109;111;118;101;45;108;97;98;101;108;115]%N.
Example C15_nonvacuous :
  map snd (scan ex_src gen_option_fields) = [false; false; false; false; true; true; false; false].
Proof. vm_compute. reflexivity. Qed.
