(* C04 — register allocation never lets one live value overwrite another. *)
From Coq Require Import List ZArith Bool Arith.
From PV Require Import Model.RegAlloc Model.RegAllocProofs Model.RegScopes.
Import ListNotations.

(* Interval colouring (assign_colors), for EVERY list of symbols in any order and with any
   lifetimes: two different symbols whose lifetimes overlap get different colours. *)
Theorem C04_colours_disjoint :
  forall l : list sym, NoDup (map s_id l) ->
    forall x y, In x l -> In y l -> s_id x <> s_id y -> overlap x y ->
      exists cx cy, colour_of (assign_colors l) (s_id x) = Some cx /\
                    colour_of (assign_colors l) (s_id y) = Some cy /\ cx <> cy.
Proof. exact colours_disjoint. Qed.

(* Scope ordering, for EVERY call graph: if it succeeds, every scope is placed after all scopes
   it is called from (so the registers blocked by its callers are known when it is coloured) *)
Theorem C04_scopes_processed_in_call_order :
  forall fuel cf todo placed order, sort_scopes fuel cf todo placed = Some order ->
    exists rest, order = placed ++ rest /\
      forall a s b, rest = a ++ s :: b -> subset (callers cf s) (placed ++ a) = true.
Proof. exact sort_scopes_topological. Qed.

(* ... and any call cycle makes it fail: recursion is rejected, not miscompiled *)
Theorem C04_call_cycles_rejected :
  forall fuel cf C todo placed,
    C <> [] -> (forall s, In s C -> In s todo) -> (forall s, In s C -> ~ In s placed) ->
    (forall s, In s C -> exists c, In c C /\ In c (callers cf s)) ->
    sort_scopes fuel cf todo placed = None.
Proof. exact sort_scopes_rejects_cycles. Qed.

(* a callee never receives a register blocked by its callers, only r0..r15 are handed out ... *)
Theorem C04_callee_avoids_callers_only_r0_r15 :
  forall blocked colours m, scope_regs (minus all16 blocked) colours = Some m ->
    forall id r, In (id, r) m -> (r < 16)%nat /\ ~ In r blocked.
Proof. exact scope_regs_in_range. Qed.

(* ... and a colour beyond the available registers is the out-of-registers error *)
Theorem C04_out_of_registers_is_error :
  forall avail colours id c, In (id, c) colours -> (length avail <= c)%nat -> scope_regs avail colours = None.
Proof. exact out_of_registers_is_error. Qed.

Example C04_nonvacuous :
  assign_colors [{| s_id := 0; s_start := 1; s_stop := 5 |}; {| s_id := 1; s_start := 2; s_stop := 3 |};
                 {| s_id := 2; s_start := 3; s_stop := 9 |}; {| s_id := 3; s_start := 4; s_stop := 6 |}]%Z
  = [(0, 0); (1, 1); (2, 1); (3, 2)]%nat /\
  sort_scopes 5 [(1, [0]); (2, [0; 1])]%nat [2; 1; 0]%nat [] = Some [0; 1; 2]%nat /\
  sort_scopes 5 [(1, [2]); (2, [1])]%nat [2; 1; 0]%nat [] = None.
Proof. vm_compute. repeat split; reflexivity. Qed.

(* the scope loop of assign_registers as a whole (after fix 65c3091): for EVERY call graph, every
   assignment of colours and every order in which callers precede their callees, a scope uses no
   register that any of its TRANSITIVE callers uses - also when the chain passes through functions that
   own no register *)
Theorem C04_no_register_shared_with_a_transitive_caller :
  forall callers colours order s', topo callers [] order -> RegScopes.run callers colours init order = Some s' ->
    forall a x r, ancestor callers a x -> In x order -> In r (lookup (used s') x) -> ~ In r (lookup (used s') a).
Proof. exact no_register_shared_with_a_transitive_caller. Qed.

(* per compile: the exported order, called_from, colours and registers are run through the model; an
   accepted certificate proves the statement for that very allocation *)
Theorem C04_allocation_certificate_sound :
  forall order cf cols given, check_alloc order cf cols given = true ->
    forall a x r, ancestor (assoc cf []) a x -> In x order -> In a order ->
      In r (lookup given x) -> ~ In r (lookup given a).
Proof. exact check_alloc_sound. Qed.
