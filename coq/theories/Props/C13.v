(* C13 — library modules behave like the same code written in the main file.
   The split program (main + library modules) and the merged single-file program (library-level
   names prefixed with the module name) are two renderings of ONE source tree of Src.Sem; the
   statement is: both compile to programs whose effect traces agree with that tree's semantics
   and with each other.  Decided per pair of real compiler outputs by execution on the machine. *)
From Coq Require Import List ZArith Bool Arith.
From PV Require Import IC10.Values IC10.Machine IC10.MachineProofs Src.Sem Valid.Diff Valid.DiffProofs.
Import ListNotations.

Definition C13_statement {val} (A : valg val) (P : @prog val) (Tsplit Tmerged : @program val) : Prop :=
  forall O fs f1 f2 k x y z,
    nth_error (fst (run_src A fs P O)) k = Some x ->
    nth_error (trace (run A O Tsplit f1 (init_state A))) k = Some y ->
    nth_error (trace (run A O Tmerged f2 (init_state A))) k = Some z ->
    ev_eqb A x y = true /\ ev_eqb A x z = true.

(* verdict 0 of the source-vs-target comparison implies event-wise agreement *)
Theorem C13_verdict_sound :
  forall val (A : valg val) sres tt ts c i ns nt e1 e2,
    judge A sres tt ts = (c, i, ns, nt, e1, e2) -> c = 0 ->
    forall k x y, nth_error (fst sres) k = Some x -> nth_error tt k = Some y -> ev_eqb A x y = true.
Proof. intros. eapply judge_agree_sound; eauto. Qed.

(* verdict 0 of the split-vs-merged comparison implies event-wise agreement *)
Theorem C13_pair_verdict_sound :
  forall val (A : valg val) a sa b sb c i na nb e1 e2,
    judge2 A a sa b sb = (c, i, na, nb, e1, e2) -> c = 0 ->
    forall k x y, nth_error a k = Some x -> nth_error b k = Some y -> ev_eqb A x y = true.
Proof. intros. eapply judge2_agree_sound; eauto. Qed.

Theorem C13_traces_monotone :
  forall val (A : valg val) O p a b s,
    exists l, trace (run A O p (a + b) s) = trace (run A O p a s) ++ l.
Proof. intros. apply trace_prefix_of_longer_run. Qed.
