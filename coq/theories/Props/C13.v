(* C13 — library modules behave like the same code written in the main file.
   The split program (main + library modules) and the merged single-file program (library-level
   names prefixed with the module name) are two renderings of ONE source tree of Src.Sem; the
   statement is: both compile to programs whose effect traces agree with that tree's semantics
   and with each other.  Decided per pair of real compiler outputs by execution on the machine. *)
From Coq Require Import List ZArith Bool Arith.
From PV Require Import IC10.Values IC10.Machine IC10.MachineProofs Src.Sem Valid.Diff Valid.DiffProofs.
Import ListNotations.

Definition C13_statement {val} (A : valg val) (P : @prog val) (Tsplit Tmerged : @program val) : Prop :=
  forall O fs f1 f2 k x y z,
    nth_error (fst (run_src A fs P O)) k = Some x ->
    nth_error (trace (run A O Tsplit f1 (init_state A))) k = Some y ->
    nth_error (trace (run A O Tmerged f2 (init_state A))) k = Some z ->
    ev_eqb A x y = true /\ ev_eqb A x z = true.

(* verdict 0 of the source-vs-target comparison implies event-wise agreement *)
Theorem C13_verdict_sound :
  forall val (A : valg val) sres tt ts c i ns nt e1 e2,
    judge A sres tt ts = (c, i, ns, nt, e1, e2) -> c = 0 ->
    forall k x y, nth_error (fst sres) k = Some x -> nth_error tt k = Some y -> ev_eqb A x y = true.
Proof. intros. eapply judge_agree_sound; eauto. Qed.

(* verdict 0 of the split-vs-merged comparison implies event-wise agreement *)
Theorem C13_pair_verdict_sound :
  forall val (A : valg val) a sa b sb c i na nb e1 e2,
    judge2 A a sa b sb = (c, i, na, nb, e1, e2) -> c = 0 ->
    forall k x y, nth_error a k = Some x -> nth_error b k = Some y -> ev_eqb A x y = true.
Proof. intros. eapply judge2_agree_sound; eauto. Qed.

Theorem C13_traces_monotone :
  forall val (A : valg val) O p a b s,
    exists l, trace (run A O p (a + b) s) = trace (run A O p a s) ++ l.
Proof. intros. apply trace_prefix_of_longer_run. Qed.

(* import aliases: the module table after `from library import <file> [as <alias>]` statements is
   Python's own binding - a name refers to the file of the LAST import that bound it, whatever other files
   or aliases are spelled alike - provided the pass reads the ORIGINAL table and writes a fresh one, which
   is re-read from CompilerPassSetModuleNames on every run *)
From Coq Require Import String.
From PV Require Import Model.ModuleNames Model.Skel.
From PVGen Require Import GenSkeletons.
Local Open Scope string_scope.
Theorem C13_aliases_bind_like_python_imports :
  forall Mod files (L : list import) d d', rename Mod files L d = Some d' ->
    forall k, dict_get Mod d' k = py_binding Mod files L (dict_get Mod d k) k.
Proof. exact rename_is_python_binding. Qed.

Theorem C13_module_names_pass_as_modelled :
  gen_modnames_import =
    SSeq [SIf "node.modname != 'library'" (SSeq [SReturn ""]) (SSeq []);
          SFor "(name, alias)" "node.names"
            (SSeq [SAssign "new_name" "alias if alias else name";
                   SAssign "module" "self.data.modules[name]";
                   SAssign "module.name" "new_name";
                   SAssign "self._renamed_modules[new_name]" "module"])] /\
  gen_modnames_run =
    SSeq [SAssign "self._renamed_modules" "{}"; SExpr "self._info('run')";
          SFor "module" "self.data.modules.values()" (SSeq [SExpr "self._visit_node_recursive(module)"]);
          SExpr "self._visit_node_recursive(self.tree)";
          SAssign "self.data.modules" "self._renamed_modules"].
Proof. split; reflexivity. Qed.
