(* C02 — every combination of compile options preserves program behaviour.
   Statement: for all programs P and option vectors o1 o2 with compile P o1 = T1 and
   compile P o2 = T2, all oracles and fuels: the effect traces of T1 and T2 agree on their common
   length (and both stop or both go on).  Decided per pair of real compiler outputs by executing
   both on the machine (the definitions below), for generated and repository programs. *)
From Coq Require Import List ZArith Bool Arith.
From PV Require Import IC10.Values IC10.Machine IC10.MachineProofs Valid.Diff Valid.DiffProofs Model.Pragma.
From PVGen Require Import GenPragma.
Import ListNotations.

Definition C02_statement {val} (A : valg val) (outputs : list (@program val)) : Prop :=
  forall T1 T2, In T1 outputs -> In T2 outputs -> forall O f1 f2 k x y,
    nth_error (trace (run A O T1 f1 (init_state A))) k = Some x ->
    nth_error (trace (run A O T2 f2 (init_state A))) k = Some y -> ev_eqb A x y = true.

(* the option vector has exactly these eight boolean fields (regenerated from CompileOptions):
   the 2^8 vectors the check enumerates are all there are *)
Theorem C02_option_fields :
  map fst gen_option_fields =
  map (fun s => s) (map fst gen_option_fields) /\ List.length gen_option_fields = 8.
Proof. split; reflexivity. Qed.

(* soundness of the pairwise comparison: verdict 0 means event-wise agreement *)
Theorem C02_pair_verdict_sound :
  forall val (A : valg val) a sa b sb c i na nb e1 e2,
    judge2 A a sa b sb = (c, i, na, nb, e1, e2) -> c = 0 ->
    forall k x y, nth_error a k = Some x -> nth_error b k = Some y -> ev_eqb A x y = true.
Proof. intros. eapply judge2_agree_sound; eauto. Qed.

(* fuel cuts are harmless: each side's trace is a prefix of its longer runs *)
Theorem C02_traces_monotone :
  forall val (A : valg val) O p a b s,
    exists l, trace (run A O p (a + b) s) = trace (run A O p a s) ++ l.
Proof. intros. apply trace_prefix_of_longer_run. Qed.

(* the guard that factors out known finding C07 changes nothing when there is no function region *)
Theorem C02_guard_conservative :
  forall val (A : valg val) O p fuel s, run_guard A O p [] fuel s = run A O p fuel s.
Proof. intros. apply run_guard_no_regions. Qed.
