(* RFC 4648 base64 over byte lists (bytes and characters are N code points).
   Model of Python's base64.b64encode and of b64decode on well-formed input. *)
From Coq Require Import List NArith Bool.
Import ListNotations.
Local Open Scope N_scope.

Definition byte_ok (b : N) : bool := b <? 256.

Definition enc_char (s : N) : N :=
  if s <? 26 then 65 + s
  else if s <? 52 then 97 + (s - 26)
  else if s <? 62 then 48 + (s - 52)
  else if s =? 62 then 43 else 47.

Definition dec_char (c : N) : option N :=
  if (65 <=? c) && (c <=? 90) then Some (c - 65)
  else if (97 <=? c) && (c <=? 122) then Some (c - 97 + 26)
  else if (48 <=? c) && (c <=? 57) then Some (c - 48 + 52)
  else if c =? 43 then Some 62
  else if c =? 47 then Some 63 else None.

Definition PAD : N := 61.

Definition quad (a b c : N) : list N :=
  [enc_char (a / 4); enc_char ((a mod 4) * 16 + b / 16);
   enc_char ((b mod 16) * 4 + c / 64); enc_char (c mod 64)].

Fixpoint b64_encode (l : list N) : list N :=
  match l with
  | a :: b :: c :: r => quad a b c ++ b64_encode r
  | [a; b] => [enc_char (a / 4); enc_char ((a mod 4) * 16 + b / 16); enc_char ((b mod 16) * 4); PAD]
  | [a] => [enc_char (a / 4); enc_char ((a mod 4) * 16); PAD; PAD]
  | [] => []
  end.

Definition is_nil {A} (l : list A) : bool := match l with [] => true | _ => false end.

Fixpoint b64_decode (l : list N) : option (list N) :=
  match l with
  | [] => Some []
  | c1 :: c2 :: c3 :: c4 :: r =>
      match dec_char c1, dec_char c2 with
      | Some s1, Some s2 =>
          if c3 =? PAD then
            if (c4 =? PAD) && is_nil r then Some [s1 * 4 + s2 / 16] else None
          else
            match dec_char c3 with
            | Some s3 =>
                if c4 =? PAD then
                  if is_nil r then Some [s1 * 4 + s2 / 16; (s2 mod 16) * 16 + s3 / 4] else None
                else
                  match dec_char c4 with
                  | Some s4 =>
                      match b64_decode r with
                      | Some t => Some (s1 * 4 + s2 / 16 :: (s2 mod 16) * 16 + s3 / 4
                                         :: (s3 mod 4) * 64 + s4 :: t)
                      | None => None
                      end
                  | None => None
                  end
            | None => None
            end
      | _, _ => None
      end
  | _ => None
  end.

(* character replacement and removal, as str.replace with one-character arguments *)
Definition repl (from to_ : N) (l : list N) : list N :=
  map (fun c => if c =? from then to_ else c) l.
Definition strip_ch (ch : N) (l : list N) : list N :=
  filter (fun c => negb (c =? ch)) l.
