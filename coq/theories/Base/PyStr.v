(* Python str operations over lists of code points (N), as far as the modelled code uses them:
   splitlines, strip, startswith, find/in, split(sep, 1), split(sep), replace(one char). *)
From Coq Require Import List NArith Bool.
Import ListNotations.
Local Open Scope N_scope.

Definition pystr := list N.

(* str.splitlines() line boundaries *)
Definition is_lb (c : N) : bool :=
  (c =? 10) || (c =? 13) || (c =? 11) || (c =? 12) || (c =? 28) || (c =? 29) || (c =? 30)
  || (c =? 133) || (c =? 8232) || (c =? 8233).

(* after_cr: the previous character was "\r" (which already ended a line), so a "\n" that
   follows immediately belongs to the same line end *)
Fixpoint splitlines_aux (l : pystr) (cur : pystr) (after_cr : bool) : list pystr :=
  match l with
  | [] => match cur with [] => [] | _ => [rev cur] end
  | c :: r =>
      if after_cr && (c =? 10) then splitlines_aux r cur false
      else if is_lb c then rev cur :: splitlines_aux r [] (c =? 13)
      else splitlines_aux r (c :: cur) false
  end.
Definition splitlines (s : pystr) : list pystr := splitlines_aux s [] false.

(* str.isspace() per character: Unicode White_Space / bidirectional WS,B,S as CPython *)
Definition is_space (c : N) : bool :=
  ((9 <=? c) && (c <=? 13)) || ((28 <=? c) && (c <=? 32)) || (c =? 133) || (c =? 160)
  || (c =? 5760) || ((8192 <=? c) && (c <=? 8202)) || (c =? 8232) || (c =? 8233)
  || (c =? 8239) || (c =? 8287) || (c =? 12288).

Fixpoint lstrip (s : pystr) : pystr :=
  match s with c :: r => if is_space c then lstrip r else s | [] => [] end.
Definition rstrip (s : pystr) : pystr := rev (lstrip (rev s)).
Definition strip (s : pystr) : pystr := rstrip (lstrip s).

Fixpoint starts_with (p s : pystr) : bool :=
  match p, s with
  | [], _ => true
  | a :: p', b :: s' => (a =? b) && starts_with p' s'
  | _ :: _, [] => false
  end.

(* position-independent substring test:  p in s *)
Fixpoint contains (p s : pystr) : bool :=
  starts_with p s || match s with [] => false | _ :: r => contains p r end.

(* s.split(sep, 1) for non-empty sep: (before, Some after) at the first occurrence *)
Fixpoint split_once_aux (sep s acc : pystr) : pystr * option pystr :=
  if starts_with sep s then (rev acc, Some (skipn (length sep) s))
  else match s with
       | [] => (rev acc, None)
       | c :: r => split_once_aux sep r (c :: acc)
       end.
Definition split_once (sep s : pystr) : pystr * option pystr := split_once_aux sep s [].

(* s.split(ch) for a single character separator *)
Fixpoint split_char_aux (ch : N) (s cur : pystr) : list pystr :=
  match s with
  | [] => [rev cur]
  | c :: r => if c =? ch then rev cur :: split_char_aux ch r [] else split_char_aux ch r (c :: cur)
  end.
Definition split_char (ch : N) (s : pystr) : list pystr := split_char_aux ch s [].

Definition replace_char (a b : N) (s : pystr) : pystr := map (fun c => if c =? a then b else c) s.

Definition count_char (ch : N) (s : pystr) : nat := length (filter (fun c => c =? ch) s).

Fixpoint pystr_eqb (a b : pystr) : bool :=
  match a, b with
  | [], [] => true
  | x :: a', y :: b' => (x =? y) && pystr_eqb a' b'
  | _, _ => false
  end.
