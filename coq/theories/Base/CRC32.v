(* CRC-32 (IEEE 802.3, reflected, as zlib.crc32) over byte lists, bitwise definition. *)
From Coq Require Import List NArith ZArith.
Import ListNotations.
Local Open Scope N_scope.

Definition poly : N := 0xEDB88320.
Fixpoint crc_bits (n : nat) (c : N) : N :=
  match n with
  | O => c
  | S k => crc_bits k (if N.odd c then N.lxor (N.shiftr c 1) poly else N.shiftr c 1)
  end.
Definition crc_byte (c b : N) : N := crc_bits 8 (N.lxor c b).
Definition crc32_bytes (l : list N) : N := N.lxor (fold_left crc_byte l 0xFFFFFFFF) 0xFFFFFFFF.

(* two's-complement reading of a 32-bit word *)
Definition signed32 (c : N) : Z :=
  if c <? 0x80000000 then Z.of_N c else (Z.of_N c - 0x100000000)%Z.
