(* Helpers for correspondence case files (evaluated with vm_compute by the harness). *)
From Coq Require Import List NArith ZArith Bool String Ascii.
Import ListNotations.

Fixpoint mismatch_from {A} (f : A -> bool) (l : list A) (i : nat) : list nat :=
  match l with
  | [] => []
  | x :: r => if f x then mismatch_from f r (S i) else i :: mismatch_from f r (S i)
  end.
Definition mismatches {A} (f : A -> bool) (l : list A) : list nat := mismatch_from f l 0.

Fixpoint list_eqb {A} (eq : A -> A -> bool) (a b : list A) : bool :=
  match a, b with
  | [], [] => true
  | x :: a', y :: b' => eq x y && list_eqb eq a' b'
  | _, _ => false
  end.
Definition opt_eqb {A} (eq : A -> A -> bool) (a b : option A) : bool :=
  match a, b with
  | Some x, Some y => eq x y
  | None, None => true
  | _, _ => false
  end.
Definition NL_eqb := list_eqb N.eqb.
Definition ZL_eqb := list_eqb Z.eqb.

Lemma list_eqb_eq {A} (eq : A -> A -> bool) :
  (forall x y, eq x y = true -> x = y) -> forall a b, list_eqb eq a b = true -> a = b.
Proof.
  intros H a. induction a as [|x a IH]; destruct b as [|y b]; cbn; intros E; try discriminate; auto.
  apply andb_prop in E as [E1 E2]. f_equal; auto.
Qed.
