(* The IC10 machine — trusted specification of what emitted text means when it runs.
   State: r0..r15, sp (index 16), ra (17), 512 cells of own stack memory, pc, alias/define
   bindings.  Externally visible effects are `event`s; every read from the outside world is
   answered by an oracle that is a function of the effect history (so reads themselves are not
   observable, and the theorems quantify over every behaviour of the attached devices).
   Instruction timing (128 lines per tick) is not modelled. *)
From Coq Require Import List ZArith Bool Arith.
From PV Require Import IC10.Values.
Import ListNotations.

Inductive ekind := EKs | EKss | EKsb | EKsbn | EKsbs | EKput | EKputd | EKclr | EKclrd
                 | EKyield | EKsleep | EKhcf.
Inductive rkind := RKl | RKls | RKlr | RKlb | RKlbn | RKlbs | RKlbns | RKget | RKgetd
                 | RKsdse | RKrand | RKrmap.

Definition ekind_eqb (a b : ekind) : bool :=
  match a, b with
  | EKs, EKs | EKss, EKss | EKsb, EKsb | EKsbn, EKsbn | EKsbs, EKsbs | EKput, EKput
  | EKputd, EKputd | EKclr, EKclr | EKclrd, EKclrd | EKyield, EKyield | EKsleep, EKsleep
  | EKhcf, EKhcf => true
  | _, _ => false
  end.

Inductive status := Running | Halted | Err (code : nat).
(* error codes: 1 bad operand, 2 stack overflow/underflow or bad address, 3 bad jump target,
   4 unknown instruction, 5 wrong operand count *)

Section Machine.
Context {val : Type}.
Variable A : valg val.

Record event := Ev { ev_kind : ekind; ev_args : list val }.
Definition oracle := list event -> rkind -> list val -> val.

Inductive operand :=
| OReg (n : nat)            (* 0..15 = r0..r15, 16 = sp, 17 = ra *)
| OImm (v : val)
| ODev (d : nat)            (* 0..5 = d0..d5, 6 = db *)
| OLbl (id : nat)           (* reference to a label *)
| OName (id : nat)          (* alias / define name *)
| OBad.                     (* a token that is not an IC10 operand *)

Inductive opcode :=
| IMove | IBin (b : binop) | IUn (u : unop) | ISet (c : cmp) | ISetz (c : cmp) | ISelect
| ISnan | ISnanz
| IBr (c : cmp) (rel al : bool) | IBrz (c : cmp) (rel al : bool) | IBnan (rel : bool)
| IJ | IJal | IJr
| IL | IS | ILs | ISs | ILr | ILb | ILbn | ILbs | ILbns | ISb | ISbn | ISbs
| IGet | IPut | IGetd | IPutd | IPush | IPop | IPeek | IPoke | IClr | IClrd
| ISdse | ISdns | IBdse (rel al : bool) | IBdns (rel al : bool)
| IRand | IRmap | IYield | ISleep | IHcf | IAlias | IDefine
| IUnknown.

Inductive line := LLabel (id : nat) | LInstr (op : opcode) (args : list operand).
Definition program := list line.

Record state := {
  regs : list val; mem : list val; pc : nat; hist : list event (* newest first *);
  names : list (nat * operand); st : status }.

Definition SP := 16. Definition RA := 17. Definition MEMSIZE := 512. Definition DB := 6.

Definition zero : val := v_of_Z A 0. Definition one : val := v_of_Z A 1.
Definition of_nat (n : nat) : val := v_of_Z A (Z.of_nat n).
Definition of_bool (b : bool) : val := if b then one else zero.
Definition truthy (v : val) : bool := negb (v_cmp A Ceq v zero).

Definition init_state : state :=
  {| regs := repeat zero 18; mem := repeat zero MEMSIZE; pc := 0; hist := []; names := []; st := Running |}.

Fixpoint upd {X} (l : list X) (n : nat) (x : X) : list X :=
  match l, n with
  | [], _ => []
  | _ :: r, O => x :: r
  | y :: r, S k => y :: upd r k x
  end.

Fixpoint find_label (p : program) (id : nat) (i : nat) : option nat :=
  match p with
  | [] => None
  | LLabel id' :: r => if Nat.eqb id id' then Some i else find_label r id (S i)
  | _ :: r => find_label r id (S i)
  end.

Fixpoint lookup_name (l : list (nat * operand)) (id : nat) : option operand :=
  match l with [] => None | (k, o) :: r => if Nat.eqb k id then Some o else lookup_name r id end.

Definition resolve (s : state) (o : operand) : operand :=
  match o with
  | OName id => match lookup_name (names s) id with Some o' => o' | None => OBad end
  | _ => o
  end.

(* value of an input operand *)
Definition oval (p : program) (s : state) (o : operand) : option val :=
  match resolve s o with
  | OReg n => nth_error (regs s) n
  | OImm v => Some v
  | OLbl id => match find_label p id 0 with Some i => Some (of_nat i) | None => None end
  | _ => None
  end.

Definition oreg (s : state) (o : operand) : option nat :=
  match resolve s o with OReg n => if Nat.ltb n 18 then Some n else None | _ => None end.

(* device operand: [0; pin] for d0..d5/db, [1; id] for a reference id held in a register or literal *)
Definition odev (s : state) (o : operand) : option (list val) :=
  match resolve s o with
  | ODev d => Some [zero; of_nat d]
  | OReg n => match nth_error (regs s) n with Some v => Some [one; v] | None => None end
  | OImm v => Some [one; v]
  | _ => None
  end.
Definition is_db (s : state) (o : operand) : bool :=
  match resolve s o with ODev d => Nat.eqb d DB | _ => false end.

Fixpoint ovals (p : program) (s : state) (os : list operand) : option (list val) :=
  match os with
  | [] => Some []
  | o :: r => match oval p s o, ovals p s r with Some v, Some vs => Some (v :: vs) | _, _ => None end
  end.

Definition fail (s : state) (c : nat) : state :=
  {| regs := regs s; mem := mem s; pc := pc s; hist := hist s; names := names s; st := Err c |}.
Definition set_pc (s : state) (n : nat) : state :=
  {| regs := regs s; mem := mem s; pc := n; hist := hist s; names := names s; st := st s |}.
Definition next (s : state) : state := set_pc s (S (pc s)).
Definition set_reg (s : state) (n : nat) (v : val) : state :=
  {| regs := upd (regs s) n v; mem := mem s; pc := pc s; hist := hist s; names := names s; st := st s |}.
Definition set_mem (s : state) (a : nat) (v : val) : state :=
  {| regs := regs s; mem := upd (mem s) a v; pc := pc s; hist := hist s; names := names s; st := st s |}.
Definition emit (s : state) (e : event) : state :=
  {| regs := regs s; mem := mem s; pc := pc s; hist := e :: hist s; names := names s; st := st s |}.
Definition bind_name (s : state) (id : nat) (o : operand) : state :=
  {| regs := regs s; mem := mem s; pc := pc s; hist := hist s; names := (id, o) :: names s; st := st s |}.
Definition halt (s : state) : state :=
  {| regs := regs s; mem := mem s; pc := pc s; hist := hist s; names := names s; st := Halted |}.

Definition addr_of (v : val) : option nat :=
  match v_to_Z A v with
  | Some z => if (0 <=? z)%Z && (z <? Z.of_nat MEMSIZE)%Z then Some (Z.to_nat z) else None
  | None => None
  end.

(* write result into an output register and go to the next line *)
Definition wr (s : state) (o : operand) (v : option val) : state :=
  match oreg s o, v with
  | Some n, Some x => next (set_reg s n x)
  | _, _ => fail s 1
  end.

Definition jump_abs (s : state) (v : val) (link : bool) : state :=
  match v_to_Z A v with
  | Some z => if (0 <=? z)%Z then
                let s' := if link then set_reg s RA (of_nat (S (pc s))) else s in
                set_pc s' (Z.to_nat z)
              else fail s 3
  | None => fail s 3
  end.
Definition jump_rel (s : state) (v : val) (link : bool) : state :=
  match v_to_Z A v with
  | Some z => let t := (Z.of_nat (pc s) + z)%Z in
              if (0 <=? t)%Z then
                let s' := if link then set_reg s RA (of_nat (S (pc s))) else s in
                set_pc s' (Z.to_nat t)
              else fail s 3
  | None => fail s 3
  end.
Definition branch (s : state) (cond : bool) (tgt : option val) (rel al : bool) : state :=
  match tgt with
  | Some t => if cond then (if rel then jump_rel s t al else jump_abs s t al) else next s
  | None => fail s 1
  end.

Definition read (O : oracle) (s : state) (k : rkind) (args : option (list val)) : option val :=
  match args with Some a => Some (O (hist s) k a) | None => None end.
Definition effect (s : state) (k : ekind) (args : option (list val)) : state :=
  match args with Some a => next (emit s (Ev k a)) | None => fail s 1 end.

Definition app_opt {X} (a b : option (list X)) : option (list X) :=
  match a, b with Some x, Some y => Some (x ++ y) | _, _ => None end.

Definition sp_val (s : state) : option Z :=
  match nth_error (regs s) SP with Some v => v_to_Z A v | None => None end.

Definition exec (O : oracle) (p : program) (s : state) (op : opcode) (args : list operand) : state :=
  match op, args with
  | IMove, [d; a] => wr s d (oval p s a)
  | IBin b, [d; x; y] =>
      wr s d (match oval p s x, oval p s y with Some u, Some v => Some (v_bin A b u v) | _, _ => None end)
  | IUn u, [d; x] => wr s d (match oval p s x with Some v => Some (v_un A u v) | None => None end)
  | ISet c, [d; x; y] =>
      wr s d (match oval p s x, oval p s y with Some u, Some v => Some (of_bool (v_cmp A c u v)) | _, _ => None end)
  | ISetz c, [d; x] =>
      wr s d (match oval p s x with Some u => Some (of_bool (v_cmp A c u zero)) | None => None end)
  | ISelect, [d; c; x; y] =>
      wr s d (match oval p s c, oval p s x, oval p s y with
              | Some cv, Some u, Some v => Some (if truthy cv then u else v) | _, _, _ => None end)
  | ISnan, [d; x] => wr s d (match oval p s x with Some u => Some (of_bool (v_isnan A u)) | None => None end)
  | ISnanz, [d; x] => wr s d (match oval p s x with Some u => Some (of_bool (negb (v_isnan A u))) | None => None end)
  | IBr c rel al, [x; y; t] =>
      match oval p s x, oval p s y with
      | Some u, Some v => branch s (v_cmp A c u v) (oval p s t) rel al
      | _, _ => fail s 1
      end
  | IBrz c rel al, [x; t] =>
      match oval p s x with
      | Some u => branch s (v_cmp A c u zero) (oval p s t) rel al
      | None => fail s 1
      end
  | IBnan rel, [x; t] =>
      match oval p s x with
      | Some u => branch s (v_isnan A u) (oval p s t) rel false
      | None => fail s 1
      end
  | IJ, [t] => branch s true (oval p s t) false false
  | IJal, [t] => branch s true (oval p s t) false true
  | IJr, [t] => branch s true (oval p s t) true false
  (* device reads *)
  | IL, [d; dev; lt] => wr s d (read O s RKl (app_opt (odev s dev) (ovals p s [lt])))
  | ILs, [d; dev; sl; slt] => wr s d (read O s RKls (app_opt (odev s dev) (ovals p s [sl; slt])))
  | ILr, [d; dev; rm; h] => wr s d (read O s RKlr (app_opt (odev s dev) (ovals p s [rm; h])))
  | ILb, [d; h; lt; bm] => wr s d (read O s RKlb (ovals p s [h; lt; bm]))
  | ILbn, [d; h; n; lt; bm] => wr s d (read O s RKlbn (ovals p s [h; n; lt; bm]))
  | ILbs, [d; h; sl; slt; bm] => wr s d (read O s RKlbs (ovals p s [h; sl; slt; bm]))
  | ILbns, [d; h; n; sl; slt; bm] => wr s d (read O s RKlbns (ovals p s [h; n; sl; slt; bm]))
  | IRmap, [d; dev; h] => wr s d (read O s RKrmap (app_opt (odev s dev) (ovals p s [h])))
  | IRand, [d] => wr s d (read O s RKrand (Some []))
  | ISdse, [d; dev] => wr s d (match read O s RKsdse (odev s dev) with
                               | Some v => Some (of_bool (truthy v)) | None => None end)
  | ISdns, [d; dev] => wr s d (match read O s RKsdse (odev s dev) with
                               | Some v => Some (of_bool (negb (truthy v))) | None => None end)
  | IBdse rel al, [dev; t] =>
      match read O s RKsdse (odev s dev) with
      | Some v => branch s (truthy v) (oval p s t) rel al
      | None => fail s 1
      end
  | IBdns rel al, [dev; t] =>
      match read O s RKsdse (odev s dev) with
      | Some v => branch s (negb (truthy v)) (oval p s t) rel al
      | None => fail s 1
      end
  (* device writes *)
  | IS, [dev; lt; v] => effect s EKs (app_opt (odev s dev) (ovals p s [lt; v]))
  | ISs, [dev; sl; slt; v] => effect s EKss (app_opt (odev s dev) (ovals p s [sl; slt; v]))
  | ISb, [h; lt; v] => effect s EKsb (ovals p s [h; lt; v])
  | ISbn, [h; n; lt; v] => effect s EKsbn (ovals p s [h; n; lt; v])
  | ISbs, [h; sl; slt; v] => effect s EKsbs (ovals p s [h; sl; slt; v])
  | IClr, [dev] => effect s EKclr (odev s dev)
  | IClrd, [i] => effect s EKclrd (ovals p s [i])
  (* stack memory: own (db) is internal state, other devices are the outside world *)
  | IGet, [d; dev; a] =>
      if is_db s dev then
        wr s d (match oval p s a with
                | Some av => match addr_of av with Some n => nth_error (mem s) n | None => None end
                | None => None end)
      else wr s d (read O s RKget (app_opt (odev s dev) (ovals p s [a])))
  | IGetd, [d; i; a] => wr s d (read O s RKgetd (ovals p s [i; a]))
  | IPut, [dev; a; v] =>
      if is_db s dev then
        match oval p s a, oval p s v with
        | Some av, Some x => match addr_of av with Some n => next (set_mem s n x) | None => fail s 2 end
        | _, _ => fail s 1
        end
      else effect s EKput (app_opt (odev s dev) (ovals p s [a; v]))
  | IPutd, [i; a; v] => effect s EKputd (ovals p s [i; a; v])
  | IPoke, [a; v] =>
      match oval p s a, oval p s v with
      | Some av, Some x => match addr_of av with Some n => next (set_mem s n x) | None => fail s 2 end
      | _, _ => fail s 1
      end
  | IPush, [v] =>
      match oval p s v, sp_val s with
      | Some x, Some z =>
          match addr_of (v_of_Z A z) with
          | Some n => next (set_reg (set_mem s n x) SP (v_of_Z A (z + 1)))
          | None => fail s 2
          end
      | _, _ => fail s 1
      end
  | IPop, [d] =>
      match sp_val s with
      | Some z =>
          match addr_of (v_of_Z A (z - 1)) with
          | Some n => wr (set_reg s SP (v_of_Z A (z - 1))) d (nth_error (mem s) n)
          | None => fail s 2
          end
      | None => fail s 1
      end
  | IPeek, [d] =>
      match sp_val s with
      | Some z => match addr_of (v_of_Z A (z - 1)) with
                  | Some n => wr s d (nth_error (mem s) n) | None => fail s 2 end
      | None => fail s 1
      end
  | IYield, [] => effect s EKyield (Some [])
  | ISleep, [v] => effect s EKsleep (ovals p s [v])
  | IHcf, [] => halt (emit s (Ev EKhcf []))
  | IAlias, [OName id; tgt] =>
      match resolve s tgt with
      | OReg n => next (bind_name s id (OReg n))
      | ODev d => next (bind_name s id (ODev d))
      | _ => fail s 1
      end
  | IDefine, [OName id; v] =>
      match oval p s v with Some x => next (bind_name s id (OImm x)) | None => fail s 1 end
  | IUnknown, _ => fail s 4
  | _, _ => fail s 5
  end.

Definition step (O : oracle) (p : program) (s : state) : state :=
  match st s with
  | Running =>
      match nth_error p (pc s) with
      | None => halt s                               (* ran past the last line *)
      | Some (LLabel _) => next s
      | Some (LInstr op args) => exec O p s op args
      end
  | _ => s
  end.

Fixpoint run (O : oracle) (p : program) (fuel : nat) (s : state) : state :=
  match fuel with
  | O => s
  | S k => match st s with Running => run O p k (step O p s) | _ => s end
  end.

Definition trace (s : state) : list event := rev (hist s).

End Machine.

Arguments Ev {val}. Arguments OReg {val}. Arguments OImm {val}. Arguments ODev {val}.
Arguments OLbl {val}. Arguments OName {val}. Arguments OBad {val}.
Arguments LLabel {val}. Arguments LInstr {val}.
