(* Concrete value algebra: IEEE-754 binary64 via Coq's primitive floats.
   Arithmetic + - * / sqrt and comparisons are the processor's; floor/ceil/trunc/round,
   mod and the integer views are computed exactly through the (mantissa, exponent)
   decomposition.  Transcendental functions and pow are NOT interpreted: they are fixed
   injective-looking placeholder functions, shared by source and target, so programs applying
   them to non-constant operands compare equal exactly when the operands do (see DESIGN 3.1). *)
From Coq Require Import ZArith List Bool PrimFloat Uint63 SpecFloat FloatOps.
From PV Require Import IC10.Values.
Import ListNotations.
Local Open Scope Z_scope.

Definition prec := 53%Z.
Definition emax := 1024%Z.

(* exact m * 2^e (None for nan / infinities) *)
Definition to_ZE (f : float) : option (Z * Z) :=
  match Prim2SF f with
  | S754_zero _ => Some (0, 0)
  | S754_finite s m e => Some ((if s then Z.neg m else Z.pos m), e)
  | _ => None
  end.
(* correctly rounded m * 2^e *)
Definition of_ZE (m e : Z) : float := SF2Prim (binary_normalize prec emax m e false).
Definition of_Z (z : Z) : float := of_ZE z 0.

(* integral part toward zero as an exact Z, for finite values *)
Definition trunc_Z (f : float) : option Z :=
  match to_ZE f with
  | Some (m, e) => if 0 <=? e then Some (m * 2 ^ e) else Some (Z.quot m (2 ^ (- e)))
  | None => None
  end.
Definition floor_Z (f : float) : option Z :=
  match to_ZE f with
  | Some (m, e) => if 0 <=? e then Some (m * 2 ^ e) else Some (Z.div m (2 ^ (- e)))
  | None => None
  end.
Definition is_integral (f : float) : bool :=
  match to_ZE f with
  | Some (m, e) => if 0 <=? e then true else Z.eqb (Z.rem m (2 ^ (- e))) 0
  | None => false
  end.
Definition to_Z_exact (f : float) : option Z := if is_integral f then trunc_Z f else None.

Definition lift_Z (g : float -> option Z) (f : float) : float :=
  match g f with Some z => of_Z z | None => f end.     (* nan / inf are returned unchanged *)

Definition ceil_Z (f : float) : option Z :=
  match floor_Z f with Some z => if is_integral f then Some z else Some (z + 1) | None => None end.
(* Math.Round: to nearest, ties to even *)
Definition round_Z (f : float) : option Z :=
  match to_ZE f with
  | Some (m, e) =>
      if 0 <=? e then Some (m * 2 ^ e)
      else let d := 2 ^ (- e) in
           let q := Z.div m d in let r := Z.modulo m d in
           if 2 * r <? d then Some q
           else if d <? 2 * r then Some (q + 1)
           else Some (if Z.even q then q else q + 1)
  | None => None
  end.

(* exact remainder with the sign of the dividend (C fmod), then IC10's adjustment:
   "if the result is negative add the divisor" *)
Definition fmod (a b : float) : float :=
  match to_ZE a, to_ZE b with
  | Some (ma, ea), Some (mb, eb) =>
      if mb =? 0 then nan
      else let e := Z.min ea eb in
           let A := ma * 2 ^ (ea - e) in let B := mb * 2 ^ (eb - e) in
           of_ZE (Z.rem A B) e
  | None, _ => nan
  | Some _, None => if is_nan b then nan else a       (* finite mod infinity = a *)
  end.
Definition ic10_mod (a b : float) : float :=
  let r := fmod a b in if PrimFloat.ltb r zero then PrimFloat.add r b else r.

(* 64-bit two's complement view used by the bitwise instructions: (long)a *)
Definition wrap64 (z : Z) : Z :=
  let m := z mod 2 ^ 64 in if m <? 2 ^ 63 then m else m - 2 ^ 64.
Definition long_of (f : float) : Z := match trunc_Z f with Some z => wrap64 z | None => 0 end.
Definition bitop (g : Z -> Z -> Z) (a b : float) : float := of_Z (wrap64 (g (long_of a) (long_of b))).

(* uninterpreted functions: fixed placeholders (affine maps with distinct coefficients) *)
Definition fake1 (k : Z) (x : float) : float :=
  PrimFloat.add (PrimFloat.mul x (of_ZE (2 * k + 3) (-2))) (of_ZE (1000 * k + 17) (-3)).
Definition fake2 (k : Z) (x y : float) : float :=
  PrimFloat.add (fake1 k x) (PrimFloat.mul y (of_ZE (2 * k + 5) (-3))).

Definition fbin (b : binop) (x y : float) : float :=
  match b with
  | Badd => PrimFloat.add x y | Bsub => PrimFloat.sub x y
  | Bmul => PrimFloat.mul x y | Bdiv => PrimFloat.div x y
  | Bmod => ic10_mod x y
  | Bpow => fake2 1 x y
  | Bmax => if is_nan x || is_nan y then nan else if PrimFloat.ltb x y then y else x
  | Bmin => if is_nan x || is_nan y then nan else if PrimFloat.ltb y x then y else x
  | Batan2 => fake2 2 x y
  | Band => bitop Z.land x y | Bor => bitop Z.lor x y | Bxor => bitop Z.lxor x y
  | Bnor => bitop (fun a b => Z.lnot (Z.lor a b)) x y
  | Bsll | Bsla => bitop (fun a b => Z.shiftl a b) x y
  | Bsra => bitop (fun a b => Z.shiftr a b) x y
  | Bsrl => bitop (fun a b => Z.shiftr (a mod 2 ^ 64) b) x y
  end.

Definition fun_ (u : unop) (x : float) : float :=
  match u with
  | Uabs => PrimFloat.abs x
  | Uceil => lift_Z ceil_Z x | Ufloor => lift_Z floor_Z x
  | Uround => lift_Z round_Z x | Utrunc => lift_Z trunc_Z x
  | Usqrt => PrimFloat.sqrt x
  | Uexp => fake1 3 x | Ulog => fake1 4 x | Usin => fake1 5 x | Ucos => fake1 6 x
  | Utan => fake1 7 x | Uasin => fake1 8 x | Uacos => fake1 9 x | Uatan => fake1 10 x
  | Unot => of_Z (wrap64 (Z.lnot (long_of x)))
  end.

Definition fcmp (c : cmp) (x y : float) : bool :=
  match c with
  | Ceq => PrimFloat.eqb x y | Cne => negb (PrimFloat.eqb x y)
  | Clt => PrimFloat.ltb x y | Cle => PrimFloat.leb x y
  | Cgt => PrimFloat.ltb y x | Cge => PrimFloat.leb y x
  end.

(* equality of two OBSERVED values: exact, or within the tolerance that 16-significant-digit
   literal printing (property C09) introduces: relative 2^-30, absolute 2^-40 *)
Definition feqb (x y : float) : bool :=
  (is_nan x && is_nan y) || PrimFloat.eqb x y
  || PrimFloat.leb (PrimFloat.abs (PrimFloat.sub x y))
       (PrimFloat.add (PrimFloat.mul (PrimFloat.add (PrimFloat.abs x) (PrimFloat.abs y)) (of_ZE 1 (-30)))
                      (of_ZE 1 (-40))).

Definition FloatAlg : valg float := {|
  v_of_Z := of_Z; v_to_Z := to_Z_exact; v_bin := fbin; v_un := fun_; v_cmp := fcmp;
  v_isnan := is_nan; v_eqb := feqb |}.
