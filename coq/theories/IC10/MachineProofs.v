(* Basic facts about the machine, for every program, oracle and state:
   effects are never retracted (the history only grows), a halted/failed machine stays put. *)
From Coq Require Import List ZArith Bool Arith Lia.
From PV Require Import IC10.Values IC10.Machine.
Import ListNotations.

Section Facts.
Context {val : Type}.
Variable A : valg val.
Notation state := (@state val).

Definition extends (s' s : state) : Prop := exists l, hist s' = l ++ hist s.

Lemma extends_refl s : extends s s. Proof. exists []; reflexivity. Qed.
Lemma extends_trans a b c : extends a b -> extends b c -> extends a c.
Proof. intros [l1 H1] [l2 H2]. exists (l1 ++ l2). rewrite H1, H2, app_assoc. reflexivity. Qed.

Lemma ext_fail s c : extends (fail s c) s. Proof. exists []; reflexivity. Qed.
Lemma ext_next s : extends (next s) s. Proof. exists []; reflexivity. Qed.
Lemma ext_set_pc s n : extends (set_pc s n) s. Proof. exists []; reflexivity. Qed.
Lemma ext_set_reg s n v : extends (set_reg s n v) s. Proof. exists []; reflexivity. Qed.
Lemma ext_set_mem s n v : extends (set_mem s n v) s. Proof. exists []; reflexivity. Qed.
Lemma ext_halt s : extends (halt s) s. Proof. exists []; reflexivity. Qed.
Lemma ext_bind s i o : extends (bind_name s i o) s. Proof. exists []; reflexivity. Qed.
Lemma ext_emit s e : extends (emit s e) s. Proof. exists [e]; reflexivity. Qed.

Lemma ext_wr s o v : extends (wr s o v) s.
Proof. unfold wr. destruct (oreg s o), v; exists []; reflexivity. Qed.

Lemma ext_jump_abs s v l : extends (jump_abs A s v l) s.
Proof. unfold jump_abs. destruct (v_to_Z A v); [|exists []; reflexivity]. destruct (0 <=? z)%Z; [|exists []; reflexivity]. destruct l; exists []; reflexivity. Qed.
Lemma ext_jump_rel s v l : extends (jump_rel A s v l) s.
Proof. unfold jump_rel. destruct (v_to_Z A v); [|exists []; reflexivity]. destruct (0 <=? _)%Z; [|exists []; reflexivity]. destruct l; exists []; reflexivity. Qed.
Lemma ext_branch s c t r a : extends (branch A s c t r a) s.
Proof.
  unfold branch. destruct t; [|exists []; reflexivity]. destruct c; [|exists []; reflexivity].
  destruct r; [apply ext_jump_rel|apply ext_jump_abs].
Qed.
Lemma ext_effect s k a : extends (effect s k a) s.
Proof. unfold effect. destruct a; [|exists []; reflexivity]. exists [Ev k l]. reflexivity. Qed.

Hint Resolve extends_refl ext_fail ext_next ext_set_pc ext_set_reg ext_set_mem ext_halt ext_bind ext_emit
  ext_wr ext_jump_abs ext_jump_rel ext_branch ext_effect : ext.

Lemma ext_wr_after s s0 o v : extends s0 s -> extends (wr s0 o v) s.
Proof. intros H. eapply extends_trans; [apply ext_wr|exact H]. Qed.

Ltac brk :=
  repeat match goal with
  | |- extends (match ?x with _ => _ end) _ => destruct x
  | |- extends (if ?x then _ else _) _ => destruct x
  end.

Lemma exec_extends O p s op args : extends (exec A O p s op args) s.
Proof.
  unfold exec.
  destruct op; destruct args as [|a1 [|a2 [|a3 [|a4 [|a5 [|a6 [|a7 r]]]]]]];
    try (apply extends_refl); brk; auto with ext;
    try (apply ext_wr_after; auto with ext).
  all: try (eapply extends_trans; [apply ext_next|]; auto with ext).
  all: try (eapply extends_trans; [apply ext_halt|]; auto with ext).
Qed.

Theorem step_extends O p s : extends (step A O p s) s.
Proof.
  unfold step. destruct (st s); auto with ext.
  destruct (nth_error p (pc s)) as [[id|op args]|]; auto with ext. apply exec_extends.
Qed.

Theorem run_extends O p fuel : forall s, extends (run A O p fuel s) s.
Proof.
  induction fuel as [|k IH]; intros s; cbn [run]; auto with ext.
  destruct (st s); auto with ext.
  eapply extends_trans; [apply IH|apply step_extends].
Qed.

(* more fuel only appends effects: a fuel-cut trace is a prefix of every longer run *)
Lemma run_add O p a : forall b s, run A O p (a + b) s = run A O p b (run A O p a s).
Proof.
  induction a as [|a IH]; intros b s; cbn [run Nat.add]; [reflexivity|].
  destruct (st s) eqn:E; [apply IH| |].
  - destruct b; cbn [run]; [reflexivity|rewrite E; reflexivity].
  - destruct b; cbn [run]; [reflexivity|rewrite E; reflexivity].
Qed.

Theorem trace_prefix_of_longer_run O p a b s :
  exists l, trace (run A O p (a + b) s) = trace (run A O p a s) ++ l.
Proof.
  rewrite run_add. destruct (run_extends O p b (run A O p a s)) as [l H].
  exists (rev l). unfold trace. rewrite H, rev_app_distr. reflexivity.
Qed.

Theorem stopped_stays O p s : st s <> Running -> step A O p s = s.
Proof. unfold step. destruct (st s); congruence. Qed.

End Facts.
