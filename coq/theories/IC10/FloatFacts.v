(* IEEE-754 facts about primitive floats needed by the folding theorems, derived from the
   axioms of Coq's standard library (Floats.FloatAxioms: *_spec relate each primitive operation to
   its SpecFloat definition).  These standard-library axioms are part of the trusted base. *)
From Coq Require Import ZArith Bool PrimFloat SpecFloat FloatOps FloatAxioms.
From PV Require Import IC10.FloatAlg.

Lemma zero_not_neg f :
  PrimFloat.eqb f PrimFloat.zero = true -> PrimFloat.ltb f PrimFloat.zero = false.
Proof.
  rewrite eqb_spec, ltb_spec. change (Prim2SF zero) with (S754_zero false).
  destruct (Prim2SF f) as [s|s| |s m e]; try destruct s; cbn; congruence.
Qed.

Lemma of_Z_0 : of_Z 0 = PrimFloat.zero. Proof. reflexivity. Qed.

(* -x and 0 - x are the same number: identical except for the sign of a zero result *)
Lemma neg_is_zero_minus x :
  PrimFloat.opp x = PrimFloat.sub (of_Z 0) x \/
  (PrimFloat.eqb (PrimFloat.opp x) PrimFloat.zero = true /\
   PrimFloat.eqb (PrimFloat.sub (of_Z 0) x) PrimFloat.zero = true).
Proof.
  rewrite of_Z_0.
  destruct (Prim2SF x) as [s|s| |s m e] eqn:E.
  - right. rewrite !eqb_spec, opp_spec, sub_spec, E. change (Prim2SF zero) with (S754_zero false).
    destruct s; cbn; auto.
  - left. apply Prim2SF_inj. rewrite opp_spec, sub_spec, E. change (Prim2SF zero) with (S754_zero false).
    reflexivity.
  - left. apply Prim2SF_inj. rewrite opp_spec, sub_spec, E. reflexivity.
  - left. apply Prim2SF_inj. rewrite opp_spec, sub_spec, E. change (Prim2SF zero) with (S754_zero false).
    reflexivity.
Qed.

(* ---------- comparisons: on ordered (non-NaN) operands the six relations are the usual ones *)
From PV Require Import IC10.Values.

Lemma SFcompare_ordered a b : a <> S754_nan -> b <> S754_nan -> SFcompare a b <> None.
Proof.
  intros Ha Hb. destruct a as [sa|sa| |sa ma ea], b as [sb|sb| |sb mb eb]; try congruence;
    cbn; repeat match goal with
         | |- context [match ?x with _ => _ end] => destruct x
         | |- context [if ?x then _ else _] => destruct x
         end; congruence.
Qed.

Theorem cmp_neg_correct c x y : PrimFloat.is_nan x = false -> PrimFloat.is_nan y = false ->
  fcmp (cmp_neg c) x y = negb (fcmp c x y).
Proof.
  intros Hx Hy.
  assert (Prim2SF x <> S754_nan) as Nx.
  { intros E. unfold PrimFloat.is_nan in Hx. rewrite eqb_spec, E in Hx. discriminate. }
  assert (Prim2SF y <> S754_nan) as Ny.
  { intros E. unfold PrimFloat.is_nan in Hy. rewrite eqb_spec, E in Hy. discriminate. }
  pose proof (SFcompare_ordered _ _ Nx Ny) as Hc.
  pose proof (SFcompare_ordered _ _ Ny Nx) as Hc'.
  assert (SFcompare (Prim2SF y) (Prim2SF x) =
          match SFcompare (Prim2SF x) (Prim2SF y) with
          | Some Lt => Some Gt | Some Gt => Some Lt | Some Eq => Some Eq | None => None end) as Sym.
  { clear Hc Hc'. destruct (Prim2SF x) as [sa|sa| |sa ma ea], (Prim2SF y) as [sb|sb| |sb mb eb]; try congruence;
      cbn; try (destruct sa, sb; reflexivity).
    destruct sa, sb; try reflexivity;
      rewrite (Z.compare_antisym ea eb); destruct (ea ?= eb)%Z; cbn; try reflexivity;
      change (Pos.compare_cont Eq mb ma) with (Pos.compare mb ma);
      change (Pos.compare_cont Eq ma mb) with (Pos.compare ma mb);
      rewrite (Pos.compare_antisym ma mb); destruct (ma ?= mb)%positive; reflexivity. }
  destruct c; cbn [fcmp cmp_neg]; rewrite ?eqb_spec, ?ltb_spec, ?leb_spec;
    unfold SFeqb, SFltb, SFleb; rewrite ?Sym;
    destruct (SFcompare (Prim2SF x) (Prim2SF y)) as [[| |]|]; try reflexivity; congruence.
Qed.

(* with a NaN operand the law fails: both a comparison and its negation are false *)
Lemma cmp_neg_nan_refuted : exists x y, fcmp (cmp_neg Clt) x y = false /\ fcmp Clt x y = false.
Proof. exists PrimFloat.nan, PrimFloat.zero. split; reflexivity. Qed.
