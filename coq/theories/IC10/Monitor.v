(* The machine with a shadow call stack (property C06): every jal / b..al records where the
   call has to return to and the stack pointer at the call; every `j ra` is checked against the
   innermost record.  The monitor only observes; it never changes the run.

   `entries` are the lines at which functions begin.  A linking jump to any other line is a subroutine
   inside a function (the body of a loop over a constant list); a `return` statement inside such a body
   leaves it without coming back, so records of inner subroutines that the return does not serve are
   dropped before the function's own record is checked. *)
From Coq Require Import List ZArith Bool Arith.
From PV Require Import IC10.Values IC10.Machine.
Import ListNotations.

Section Mon.
Context {val : Type}.
Variable A : valg val.
Notation state := (@state val).

Record frame := { fr_ret : nat; fr_sp : Z; fr_callee : nat }.
(* one record per executed return: callee entry, did it return to the call site, sp(return) - sp(call) *)
Record retrec := { rr_callee : nat; rr_ok : bool; rr_dsp : Z; rr_orphan : bool }.

Definition links (op : opcode) : bool :=
  match op with IJal => true | IBr _ _ al | IBrz _ _ al => al | IBdse _ al | IBdns _ al => al | _ => false end.

Definition is_ret (s : state) (op : opcode) (args : list (@operand val)) : bool :=
  match op, args with
  | IJ, [o] => match resolve s o with OReg n => Nat.eqb n RA | _ => false end
  | _, _ => false
  end.

Definition sp_of (s : state) : Z := match sp_val A s with Some z => z | None => (-1)%Z end.

Definition is_inner (entries : list nat) (f : frame) : bool := negb (existsb (Nat.eqb (fr_callee f)) entries).
Fixpoint unwind (entries : list nat) (tgt : nat) (stk : list frame) : list frame :=
  match stk with
  | f :: rest => if is_inner entries f && negb (Nat.eqb tgt (fr_ret f)) then unwind entries tgt rest else stk
  | [] => []
  end.

Fixpoint mrun (entries : list nat) (O : @oracle val) (p : @program val) (fuel : nat) (s : state) (stk : list frame) (log : list retrec)
  : state * list frame * list retrec :=
  match fuel with
  | O => (s, stk, log)
  | S k =>
      match st s with
      | Running =>
          let s' := step A O p s in
          match nth_error p (pc s) with
          | Some (LInstr op args) =>
              if links op && ((match op with IJal => true | _ => false end) || negb (Nat.eqb (pc s') (S (pc s)))) && (match st s' with Running => true | _ => false end)
              then mrun entries O p k s' ({| fr_ret := S (pc s); fr_sp := sp_of s; fr_callee := pc s' |} :: stk) log
              else if is_ret s op args then
                match unwind entries (pc s') stk with
                | f :: rest =>
                    mrun entries O p k s' rest
                      ({| rr_callee := fr_callee f; rr_ok := Nat.eqb (pc s') (fr_ret f);
                          rr_dsp := (sp_of s - fr_sp f)%Z; rr_orphan := false |} :: log)
                | [] => mrun entries O p k s' []
                          ({| rr_callee := 0; rr_ok := false; rr_dsp := 0%Z; rr_orphan := true |} :: log)
                end
              else mrun entries O p k s' stk log
          | _ => mrun entries O p k s' stk log
          end
      | _ => (s, stk, log)
      end
  end.

Definition monitor (entries : list nat) (O : @oracle val) (p : @program val) (fuel : nat) : list (nat * bool * Z * bool) * nat :=
  let '(s, stk, log) := mrun entries O p fuel (init_state A) [] [] in
  (map (fun r => (rr_callee r, rr_ok r, rr_dsp r, rr_orphan r)) (rev log), length stk).

(* the monitor does not disturb the run *)
Lemma mrun_state entries O p fuel : forall s stk log, fst (fst (mrun entries O p fuel s stk log)) = run A O p fuel s.
Proof.
  induction fuel as [|k IH]; intros s stk log; cbn [mrun run]; [reflexivity|].
  destruct (st s); try reflexivity.
  destruct (nth_error p (pc s)) as [[id|op args]|]; try apply IH.
  destruct (links op && _ && _); [apply IH|].
  destruct (is_ret s op args); [destruct (unwind entries (pc (step A O p s)) stk); apply IH|apply IH].
Qed.
End Mon.
