(* Value algebra shared by the IC10 machine and the source-dialect interpreter.
   The semantic theorems (Resolve, AllocCheck, ...) are stated for an ARBITRARY algebra: both
   sides use the same operations, so no law about them is needed.  `FloatAlg` is the concrete
   IEEE-754 binary64 instance used when the machine is executed. *)
From Coq Require Import ZArith List Bool.
Import ListNotations.

Inductive binop := Badd | Bsub | Bmul | Bdiv | Bmod | Bpow | Bmax | Bmin | Batan2
                 | Band | Bor | Bxor | Bnor | Bsll | Bsrl | Bsla | Bsra.
Inductive unop := Uabs | Uceil | Ufloor | Uround | Utrunc | Usqrt | Uexp | Ulog
                | Usin | Ucos | Utan | Uasin | Uacos | Uatan | Unot.
Inductive cmp := Ceq | Cne | Clt | Cle | Cgt | Cge.

Record valg (val : Type) := {
  v_of_Z : Z -> val;                    (* integer constants: 0, 1, line numbers, addresses *)
  v_to_Z : val -> option Z;             (* integral view: addresses, jump targets, pins *)
  v_bin : binop -> val -> val -> val;
  v_un : unop -> val -> val;
  v_cmp : cmp -> val -> val -> bool;
  v_isnan : val -> bool;
  v_eqb : val -> val -> bool            (* structural equality of two observed values *)
}.
Arguments v_of_Z {val}. Arguments v_to_Z {val}. Arguments v_bin {val}. Arguments v_un {val}.
Arguments v_cmp {val}. Arguments v_isnan {val}. Arguments v_eqb {val}.

Definition binop_eqb (a b : binop) : bool :=
  match a, b with
  | Badd, Badd | Bsub, Bsub | Bmul, Bmul | Bdiv, Bdiv | Bmod, Bmod | Bpow, Bpow | Bmax, Bmax
  | Bmin, Bmin | Batan2, Batan2 | Band, Band | Bor, Bor | Bxor, Bxor | Bnor, Bnor | Bsll, Bsll
  | Bsrl, Bsrl | Bsla, Bsla | Bsra, Bsra => true
  | _, _ => false
  end.

Definition cmp_neg (c : cmp) : cmp :=
  match c with Ceq => Cne | Cne => Ceq | Clt => Cge | Cle => Cgt | Cgt => Cle | Cge => Clt end.
