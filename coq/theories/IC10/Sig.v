(* IC10 instruction signatures — trusted specification, written from the IC10 reference.
   Expanded by tools/oneoff/mksig.py from its compact spec; edit the spec, not this file. *)
From Coq Require Import List String Bool.
Import ListNotations.
Local Open Scope string_scope.

Inductive okind := KOut | KDev | KVal | KTgt | KName | KRegOrDev.
Record sig := { s_name : string; s_ops : list okind }.

Definition okind_eqb (a b : okind) : bool :=
  match a, b with KOut, KOut | KDev, KDev | KVal, KVal | KTgt, KTgt | KName, KName | KRegOrDev, KRegOrDev => true | _, _ => false end.
Definition has_out (s : sig) : bool := match s_ops s with KOut :: _ => true | _ => false end.
Definition n_ops (s : sig) : nat := List.length (s_ops s).

Definition sigs : list sig := [
  {| s_name := "alias"; s_ops := [KName; KRegOrDev] |};
  {| s_name := "define"; s_ops := [KName; KVal] |};
  {| s_name := "hcf"; s_ops := [] |};
  {| s_name := "sleep"; s_ops := [KVal] |};
  {| s_name := "yield"; s_ops := [] |};
  {| s_name := "label"; s_ops := [KDev; KName] |};
  {| s_name := "abs"; s_ops := [KOut; KVal] |};
  {| s_name := "add"; s_ops := [KOut; KVal; KVal] |};
  {| s_name := "ceil"; s_ops := [KOut; KVal] |};
  {| s_name := "div"; s_ops := [KOut; KVal; KVal] |};
  {| s_name := "pow"; s_ops := [KOut; KVal; KVal] |};
  {| s_name := "exp"; s_ops := [KOut; KVal] |};
  {| s_name := "floor"; s_ops := [KOut; KVal] |};
  {| s_name := "log"; s_ops := [KOut; KVal] |};
  {| s_name := "max"; s_ops := [KOut; KVal; KVal] |};
  {| s_name := "min"; s_ops := [KOut; KVal; KVal] |};
  {| s_name := "mod"; s_ops := [KOut; KVal; KVal] |};
  {| s_name := "move"; s_ops := [KOut; KVal] |};
  {| s_name := "mul"; s_ops := [KOut; KVal; KVal] |};
  {| s_name := "rand"; s_ops := [KOut] |};
  {| s_name := "round"; s_ops := [KOut; KVal] |};
  {| s_name := "sqrt"; s_ops := [KOut; KVal] |};
  {| s_name := "sub"; s_ops := [KOut; KVal; KVal] |};
  {| s_name := "trunc"; s_ops := [KOut; KVal] |};
  {| s_name := "lerp"; s_ops := [KOut; KVal; KVal; KVal] |};
  {| s_name := "acos"; s_ops := [KOut; KVal] |};
  {| s_name := "asin"; s_ops := [KOut; KVal] |};
  {| s_name := "atan"; s_ops := [KOut; KVal] |};
  {| s_name := "atan2"; s_ops := [KOut; KVal; KVal] |};
  {| s_name := "cos"; s_ops := [KOut; KVal] |};
  {| s_name := "sin"; s_ops := [KOut; KVal] |};
  {| s_name := "tan"; s_ops := [KOut; KVal] |};
  {| s_name := "clr"; s_ops := [KDev] |};
  {| s_name := "clrd"; s_ops := [KVal] |};
  {| s_name := "get"; s_ops := [KOut; KDev; KVal] |};
  {| s_name := "getd"; s_ops := [KOut; KVal; KVal] |};
  {| s_name := "peek"; s_ops := [KOut] |};
  {| s_name := "poke"; s_ops := [KVal; KVal] |};
  {| s_name := "pop"; s_ops := [KOut] |};
  {| s_name := "push"; s_ops := [KVal] |};
  {| s_name := "put"; s_ops := [KDev; KVal; KVal] |};
  {| s_name := "putd"; s_ops := [KVal; KVal; KVal] |};
  {| s_name := "l"; s_ops := [KOut; KDev; KVal] |};
  {| s_name := "lr"; s_ops := [KOut; KDev; KVal; KVal] |};
  {| s_name := "ls"; s_ops := [KOut; KDev; KVal; KVal] |};
  {| s_name := "s"; s_ops := [KDev; KVal; KVal] |};
  {| s_name := "ss"; s_ops := [KDev; KVal; KVal; KVal] |};
  {| s_name := "rmap"; s_ops := [KOut; KDev; KVal] |};
  {| s_name := "lb"; s_ops := [KOut; KVal; KVal; KVal] |};
  {| s_name := "lbn"; s_ops := [KOut; KVal; KVal; KVal; KVal] |};
  {| s_name := "lbns"; s_ops := [KOut; KVal; KVal; KVal; KVal; KVal] |};
  {| s_name := "lbs"; s_ops := [KOut; KVal; KVal; KVal; KVal] |};
  {| s_name := "sb"; s_ops := [KVal; KVal; KVal] |};
  {| s_name := "sbn"; s_ops := [KVal; KVal; KVal; KVal] |};
  {| s_name := "sbs"; s_ops := [KVal; KVal; KVal; KVal] |};
  {| s_name := "and"; s_ops := [KOut; KVal; KVal] |};
  {| s_name := "nor"; s_ops := [KOut; KVal; KVal] |};
  {| s_name := "not"; s_ops := [KOut; KVal] |};
  {| s_name := "or"; s_ops := [KOut; KVal; KVal] |};
  {| s_name := "sla"; s_ops := [KOut; KVal; KVal] |};
  {| s_name := "sll"; s_ops := [KOut; KVal; KVal] |};
  {| s_name := "sra"; s_ops := [KOut; KVal; KVal] |};
  {| s_name := "srl"; s_ops := [KOut; KVal; KVal] |};
  {| s_name := "xor"; s_ops := [KOut; KVal; KVal] |};
  {| s_name := "ext"; s_ops := [KOut; KVal; KVal; KVal] |};
  {| s_name := "ins"; s_ops := [KOut; KVal; KVal; KVal] |};
  {| s_name := "select"; s_ops := [KOut; KVal; KVal; KVal] |};
  {| s_name := "sdns"; s_ops := [KOut; KDev] |};
  {| s_name := "sdse"; s_ops := [KOut; KDev] |};
  {| s_name := "sap"; s_ops := [KOut; KVal; KVal; KVal] |};
  {| s_name := "sapz"; s_ops := [KOut; KVal; KVal] |};
  {| s_name := "seq"; s_ops := [KOut; KVal; KVal] |};
  {| s_name := "seqz"; s_ops := [KOut; KVal] |};
  {| s_name := "sge"; s_ops := [KOut; KVal; KVal] |};
  {| s_name := "sgez"; s_ops := [KOut; KVal] |};
  {| s_name := "sgt"; s_ops := [KOut; KVal; KVal] |};
  {| s_name := "sgtz"; s_ops := [KOut; KVal] |};
  {| s_name := "sle"; s_ops := [KOut; KVal; KVal] |};
  {| s_name := "slez"; s_ops := [KOut; KVal] |};
  {| s_name := "slt"; s_ops := [KOut; KVal; KVal] |};
  {| s_name := "sltz"; s_ops := [KOut; KVal] |};
  {| s_name := "sna"; s_ops := [KOut; KVal; KVal; KVal] |};
  {| s_name := "snan"; s_ops := [KOut; KVal] |};
  {| s_name := "snanz"; s_ops := [KOut; KVal] |};
  {| s_name := "snaz"; s_ops := [KOut; KVal; KVal] |};
  {| s_name := "sne"; s_ops := [KOut; KVal; KVal] |};
  {| s_name := "snez"; s_ops := [KOut; KVal] |};
  {| s_name := "j"; s_ops := [KTgt] |};
  {| s_name := "jal"; s_ops := [KTgt] |};
  {| s_name := "jr"; s_ops := [KTgt] |};
  {| s_name := "bdnvl"; s_ops := [KDev; KVal; KTgt] |};
  {| s_name := "bdnvs"; s_ops := [KDev; KVal; KTgt] |};
  {| s_name := "bdns"; s_ops := [KDev; KTgt] |};
  {| s_name := "bdnsal"; s_ops := [KDev; KTgt] |};
  {| s_name := "bdse"; s_ops := [KDev; KTgt] |};
  {| s_name := "bdseal"; s_ops := [KDev; KTgt] |};
  {| s_name := "brdns"; s_ops := [KDev; KTgt] |};
  {| s_name := "brdse"; s_ops := [KDev; KTgt] |};
  {| s_name := "bap"; s_ops := [KVal; KVal; KVal; KTgt] |};
  {| s_name := "brap"; s_ops := [KVal; KVal; KVal; KTgt] |};
  {| s_name := "bapal"; s_ops := [KVal; KVal; KVal; KTgt] |};
  {| s_name := "bapz"; s_ops := [KVal; KVal; KTgt] |};
  {| s_name := "brapz"; s_ops := [KVal; KVal; KTgt] |};
  {| s_name := "bapzal"; s_ops := [KVal; KVal; KTgt] |};
  {| s_name := "beq"; s_ops := [KVal; KVal; KTgt] |};
  {| s_name := "breq"; s_ops := [KVal; KVal; KTgt] |};
  {| s_name := "beqal"; s_ops := [KVal; KVal; KTgt] |};
  {| s_name := "beqz"; s_ops := [KVal; KTgt] |};
  {| s_name := "breqz"; s_ops := [KVal; KTgt] |};
  {| s_name := "beqzal"; s_ops := [KVal; KTgt] |};
  {| s_name := "bge"; s_ops := [KVal; KVal; KTgt] |};
  {| s_name := "brge"; s_ops := [KVal; KVal; KTgt] |};
  {| s_name := "bgeal"; s_ops := [KVal; KVal; KTgt] |};
  {| s_name := "bgez"; s_ops := [KVal; KTgt] |};
  {| s_name := "brgez"; s_ops := [KVal; KTgt] |};
  {| s_name := "bgezal"; s_ops := [KVal; KTgt] |};
  {| s_name := "bgt"; s_ops := [KVal; KVal; KTgt] |};
  {| s_name := "brgt"; s_ops := [KVal; KVal; KTgt] |};
  {| s_name := "bgtal"; s_ops := [KVal; KVal; KTgt] |};
  {| s_name := "bgtz"; s_ops := [KVal; KTgt] |};
  {| s_name := "brgtz"; s_ops := [KVal; KTgt] |};
  {| s_name := "bgtzal"; s_ops := [KVal; KTgt] |};
  {| s_name := "ble"; s_ops := [KVal; KVal; KTgt] |};
  {| s_name := "brle"; s_ops := [KVal; KVal; KTgt] |};
  {| s_name := "bleal"; s_ops := [KVal; KVal; KTgt] |};
  {| s_name := "blez"; s_ops := [KVal; KTgt] |};
  {| s_name := "brlez"; s_ops := [KVal; KTgt] |};
  {| s_name := "blezal"; s_ops := [KVal; KTgt] |};
  {| s_name := "blt"; s_ops := [KVal; KVal; KTgt] |};
  {| s_name := "brlt"; s_ops := [KVal; KVal; KTgt] |};
  {| s_name := "bltal"; s_ops := [KVal; KVal; KTgt] |};
  {| s_name := "bltz"; s_ops := [KVal; KTgt] |};
  {| s_name := "brltz"; s_ops := [KVal; KTgt] |};
  {| s_name := "bltzal"; s_ops := [KVal; KTgt] |};
  {| s_name := "bna"; s_ops := [KVal; KVal; KVal; KTgt] |};
  {| s_name := "brna"; s_ops := [KVal; KVal; KVal; KTgt] |};
  {| s_name := "bnaal"; s_ops := [KVal; KVal; KVal; KTgt] |};
  {| s_name := "bnan"; s_ops := [KVal; KTgt] |};
  {| s_name := "brnan"; s_ops := [KVal; KTgt] |};
  {| s_name := "bnaz"; s_ops := [KVal; KVal; KTgt] |};
  {| s_name := "brnaz"; s_ops := [KVal; KVal; KTgt] |};
  {| s_name := "bnazal"; s_ops := [KVal; KVal; KTgt] |};
  {| s_name := "bne"; s_ops := [KVal; KVal; KTgt] |};
  {| s_name := "brne"; s_ops := [KVal; KVal; KTgt] |};
  {| s_name := "bneal"; s_ops := [KVal; KVal; KTgt] |};
  {| s_name := "bnez"; s_ops := [KVal; KTgt] |};
  {| s_name := "brnez"; s_ops := [KVal; KTgt] |};
  {| s_name := "bnezal"; s_ops := [KVal; KTgt] |}
].

Fixpoint find_sig (l : list sig) (n : string) : option sig :=
  match l with [] => None | s :: r => if String.eqb (s_name s) n then Some s else find_sig r n end.
Definition sig_of (n : string) : option sig := find_sig sigs n.
