From Coq Require Import List NArith ZArith Bool String Lia.
From PV Require Import Base.PyStr Model.FormatNum Model.Constexpr.
Import ListNotations.
Local Open Scope N_scope.

Lemma at_start_app w : forall rest, (match rest with [] => True | c :: _ => is_word c = false end) ->
  at_start w (w ++ rest) = true.
Proof.
  induction w as [|a w IH]; intros rest H; cbn.
  - destruct rest as [|c r]; [reflexivity|]. rewrite H. reflexivity.
  - rewrite N.eqb_refl. apply IH. exact H.
Qed.

(* an occurrence of the word delimited by non-word characters (or the ends) is found, wherever
   it stands in the text *)
Theorem find_word_complete w : forall pre rest pw,
  (match rev pre with [] => pw = false | c :: _ => is_word c = false end) ->
  (match rest with [] => True | c :: _ => is_word c = false end) ->
  find_word w (pre ++ w ++ rest) pw = true.
Proof.
  induction pre as [|p pre IH]; intros rest pw Hpre Hrest.
  - cbn [app rev] in *. subst pw. destruct (w ++ rest) eqn:E; cbn [find_word negb andb].
    + rewrite <- E. rewrite at_start_app by exact Hrest. reflexivity.
    + rewrite <- E at 1. rewrite at_start_app by exact Hrest. reflexivity.
  - cbn [app]. cbn [find_word]. apply orb_true_iff. right.
    apply IH; [|exact Hrest].
    cbn [rev] in Hpre. destruct (rev pre) as [|c r] eqn:E.
    + cbn in Hpre. exact Hpre.
    + cbn in Hpre. exact Hpre.
Qed.

Theorem forbidden_rejected pre rest w :
  w = W_OPEN \/ w = W_EVAL \/ w = W_EXEC ->
  (match rev pre with [] => True | c :: _ => is_word c = false end) ->
  (match rest with [] => True | c :: _ => is_word c = false end) ->
  forbidden (pre ++ w ++ rest) = true.
Proof.
  intros Hw Hpre Hrest. unfold forbidden.
  assert (find_word w (pre ++ w ++ rest) false = true) as K.
  { apply find_word_complete; [|exact Hrest]. destruct (rev pre); [reflexivity|exact Hpre]. }
  destruct Hw as [-> | [-> | ->]]; rewrite K; rewrite ?orb_true_r; reflexivity.
Qed.

(* every integer a constexpr function returns arrives in the emitted literal unchanged *)
Theorem transport_int_identity hashes z : transport_int hashes z = Some z.
Proof.
  unfold transport_int, json_load_int, json_int. rewrite read_dec_str. apply format_int_roundtrip.
Qed.
