(* The lowering of `for v in range(start, stop, step)` (generate_code.py handle_for):

       move i start
     head:
       bge i stop end        (ble when the constant step is negative)
       <body>
     cont:
       add i i step
       j head
     end:

   against Python's range: the values start + k*step for k = 0 .. len-1 with CPython's length formula.
   The loop variable is not assigned by the body (the dialect's generator and the compiler's alias
   rules keep it frozen), so the iteration sequence is a function of (start, stop, step). *)
From Coq Require Import ZArith List Bool Lia String.
Import ListNotations.
Local Open Scope Z_scope.

(* CPython: len(range(a, b, s)) *)
Definition range_len (a b s : Z) : Z :=
  if 0 <? s then (if a <? b then (b - a - 1) / s + 1 else 0)
  else if s <? 0 then (if b <? a then (a - b - 1) / (- s) + 1 else 0)
  else 0.

Fixpoint range_from (i s : Z) (n : nat) : list Z :=
  match n with O => [] | S k => i :: range_from (i + s) s k end.
Definition py_range (a b s : Z) : list Z := range_from a s (Z.to_nat (range_len a b s)).

(* the emitted loop: `exit_test` is the branch in front of the body *)
Inductive exit_test := TGe | TLe | TGt | TLt.
Definition exits (t : exit_test) (i b : Z) : bool :=
  match t with TGe => b <=? i | TLe => i <=? b | TGt => b <? i | TLt => i <? b end.
Fixpoint loop (t : exit_test) (i b s : Z) (fuel : nat) : list Z :=
  match fuel with
  | O => []
  | S k => if exits t i b then [] else i :: loop t (i + s) b s k
  end.

(* which test the compiler emits: by the sign of the constant step *)
Definition test_of_opcode (op : String.string) : option exit_test :=
  (if String.eqb op "bge" then Some TGe else if String.eqb op "ble" then Some TLe
   else if String.eqb op "bgt" then Some TGt else if String.eqb op "blt" then Some TLt else None)%string.

Lemma len_up_done a b s : 0 < s -> b <= a -> range_len a b s = 0.
Proof.
  intros Hs H. unfold range_len. destruct (0 <? s) eqn:E; [|apply Z.ltb_ge in E; lia].
  destruct (a <? b) eqn:E2; [apply Z.ltb_lt in E2; lia|reflexivity].
Qed.
Lemma len_up_step a b s : 0 < s -> a < b -> range_len a b s = 1 + range_len (a + s) b s.
Proof.
  intros Hs H. unfold range_len. destruct (0 <? s) eqn:E; [|apply Z.ltb_ge in E; lia].
  destruct (a <? b) eqn:E2; [|apply Z.ltb_ge in E2; lia].
  destruct (a + s <? b) eqn:E3.
  - apply Z.ltb_lt in E3.
    replace (b - a - 1) with ((b - (a + s) - 1) + 1 * s) by lia.
    rewrite Z.div_add by lia. lia.
  - apply Z.ltb_ge in E3. rewrite Z.div_small by lia. lia.
Qed.
Lemma len_down_done a b s : s < 0 -> a <= b -> range_len a b s = 0.
Proof.
  intros Hs H. unfold range_len. destruct (0 <? s) eqn:E; [apply Z.ltb_lt in E; lia|].
  destruct (s <? 0) eqn:E1; [|apply Z.ltb_ge in E1; lia].
  destruct (b <? a) eqn:E2; [apply Z.ltb_lt in E2; lia|reflexivity].
Qed.
Lemma len_down_step a b s : s < 0 -> b < a -> range_len a b s = 1 + range_len (a + s) b s.
Proof.
  intros Hs H. unfold range_len. destruct (0 <? s) eqn:E; [apply Z.ltb_lt in E; lia|].
  destruct (s <? 0) eqn:E1; [|apply Z.ltb_ge in E1; lia].
  destruct (b <? a) eqn:E2; [|apply Z.ltb_ge in E2; lia].
  destruct (b <? a + s) eqn:E3.
  - apply Z.ltb_lt in E3.
    replace (a - b - 1) with ((a + s - b - 1) + 1 * (- s)) by lia.
    rewrite Z.div_add by lia. lia.
  - apply Z.ltb_ge in E3. rewrite Z.div_small by lia. lia.
Qed.
Lemma len_nonneg a b s : 0 <= range_len a b s.
Proof.
  unfold range_len. destruct (0 <? s) eqn:E.
  - apply Z.ltb_lt in E. destruct (a <? b) eqn:E2; [|lia]. apply Z.ltb_lt in E2.
    assert (0 <= (b - a - 1) / s) by (apply Z.div_pos; lia). lia.
  - destruct (s <? 0) eqn:E1; [|lia]. apply Z.ltb_lt in E1. destruct (b <? a) eqn:E2; [|lia]. apply Z.ltb_lt in E2.
    assert (0 <= (a - b - 1) / (- s)) by (apply Z.div_pos; lia). lia.
Qed.

(* increasing ranges: the loop with `bge` visits exactly range(a, b, s), for every a, b and s > 0 *)
Theorem loop_up_is_range : forall n a b s, 0 < s -> Z.to_nat (range_len a b s) = n ->
  forall fuel, (n < fuel)%nat -> loop TGe a b s fuel = py_range a b s.
Proof.
  induction n as [|n IH]; intros a b s Hs Hn fuel Hf; unfold py_range; rewrite Hn.
  - destruct fuel as [|k]; [lia|]. cbn [loop exits range_from].
    destruct (b <=? a) eqn:E; [reflexivity|]. apply Z.leb_gt in E.
    rewrite (len_up_step a b s Hs E) in Hn. pose proof (len_nonneg (a + s) b s). lia.
  - destruct fuel as [|k]; [lia|]. cbn [loop exits range_from].
    destruct (b <=? a) eqn:E.
    + apply Z.leb_le in E. rewrite (len_up_done a b s Hs E) in Hn. discriminate.
    + apply Z.leb_gt in E. f_equal.
      assert (Z.to_nat (range_len (a + s) b s) = n) as Hn'.
      { rewrite (len_up_step a b s Hs E) in Hn. pose proof (len_nonneg (a + s) b s). lia. }
      rewrite (IH (a + s) b s Hs Hn' k) by lia. unfold py_range. rewrite Hn'. reflexivity.
Qed.

(* decreasing ranges: the loop with `ble` visits exactly range(a, b, s), for every a, b and s < 0 *)
Theorem loop_down_is_range : forall n a b s, s < 0 -> Z.to_nat (range_len a b s) = n ->
  forall fuel, (n < fuel)%nat -> loop TLe a b s fuel = py_range a b s.
Proof.
  induction n as [|n IH]; intros a b s Hs Hn fuel Hf; unfold py_range; rewrite Hn.
  - destruct fuel as [|k]; [lia|]. cbn [loop exits range_from].
    destruct (a <=? b) eqn:E; [reflexivity|]. apply Z.leb_gt in E.
    rewrite (len_down_step a b s Hs E) in Hn. pose proof (len_nonneg (a + s) b s). lia.
  - destruct fuel as [|k]; [lia|]. cbn [loop exits range_from].
    destruct (a <=? b) eqn:E.
    + apply Z.leb_le in E. rewrite (len_down_done a b s Hs E) in Hn. discriminate.
    + apply Z.leb_gt in E. f_equal.
      assert (Z.to_nat (range_len (a + s) b s) = n) as Hn'.
      { rewrite (len_down_step a b s Hs E) in Hn. pose proof (len_nonneg (a + s) b s). lia. }
      rewrite (IH (a + s) b s Hs Hn' k) by lia. unfold py_range. rewrite Hn'. reflexivity.
Qed.

(* the strict tests are wrong exactly on the ranges that land on `stop` *)
Example strict_test_refuted : loop TLt 3 0 (-1) 10 <> py_range 3 0 (-1) /\ loop TGt 0 3 1 10 <> py_range 0 3 1.
Proof. split; vm_compute; discriminate. Qed.

Example range_examples :
  py_range 0 3 1 = [0; 1; 2] /\ py_range 6 0 (-2) = [6; 4; 2] /\ py_range 5 0 (-2) = [5; 3; 1] /\ py_range 3 3 1 = [] /\
  loop TGe 0 3 1 9 = [0; 1; 2] /\ loop TLe 6 0 (-2) 9 = [6; 4; 2].
Proof. repeat split; reflexivity. Qed.
