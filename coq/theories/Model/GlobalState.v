(* Process-wide state touched by compile_code and why it cannot influence a result:
   - the output mode is overwritten from the request's options before it is used;
   - the constexpr cache only ever holds pairs (generated script, value of that script), so a
     lookup gives what a fresh evaluation gives;
   - the hash set of format_int is filled from constant tables before its first use.
   The compiler proper is an oracle `comp` that uses the evaluator only by calling it. *)
From Coq Require Import List Bool.
Import ListNotations.

Section GS.
Variables Src Opt Res Key Val : Type.
Variable key_eqb : Key -> Key -> bool.
Hypothesis key_eqb_eq : forall a b, key_eqb a b = true -> a = b.
Variable ev : Key -> Val.                                  (* deterministic child evaluation *)
Variable pragmas : Src -> Opt -> Opt.                      (* directive scanner, on a COPY of the options *)
Variable compact : Opt -> bool.
(* result and the scripts evaluated on the way *)
Variable comp : bool -> Src -> Opt -> (Key -> Val) -> Res * list Key.
Hypothesis comp_ext : forall m s o f g, (forall k, f k = g k) -> comp m s o f = comp m s o g.

Record gstate := { mode : bool; cache : list (Key * Val); hashes_filled : bool }.
Definition ginit : gstate := {| mode := false; cache := []; hashes_filled := false |}.

Fixpoint assoc (k : Key) (c : list (Key * Val)) : option Val :=
  match c with [] => None | (k', v) :: r => if key_eqb k k' then Some v else assoc k r end.
Definition look (c : list (Key * Val)) (k : Key) : Val :=
  match assoc k c with Some v => v | None => ev k end.

Definition serve (g : gstate) (r : Src * Opt) : gstate * Res :=
  let o := pragmas (fst r) (snd r) in
  let m := compact o in
  let '(res, used) := comp m (fst r) o (look (cache g)) in
  ({| mode := m; cache := map (fun k => (k, look (cache g) k)) used ++ cache g; hashes_filled := true |}, res).

Definition run_history (h : list (Src * Opt)) : gstate := fold_left (fun g r => fst (serve g r)) h ginit.

(* invariant: the cache is a subset of the graph of the evaluator *)
Definition Inv (g : gstate) : Prop := forall k v, In (k, v) (cache g) -> v = ev k.

Lemma assoc_in k c v : assoc k c = Some v -> exists k', In (k', v) c /\ k = k'.
Proof.
  induction c as [|[k' v'] c IH]; cbn; [discriminate|].
  destruct (key_eqb k k') eqn:E; [intros [= <-]; exists k'; split; [left; reflexivity|apply key_eqb_eq; exact E]|].
  intros H. destruct (IH H) as (k2 & H1 & H2). exists k2. split; [right; exact H1|exact H2].
Qed.

Lemma look_is_ev g : Inv g -> forall k, look (cache g) k = ev k.
Proof.
  intros HI k. unfold look. destruct (assoc k (cache g)) as [v|] eqn:E; [|reflexivity].
  destruct (assoc_in _ _ _ E) as (k' & Hin & ->). exact (HI _ _ Hin).
Qed.

Lemma inv_init : Inv ginit. Proof. intros k v []. Qed.

Lemma inv_serve g r : Inv g -> Inv (fst (serve g r)).
Proof.
  intros HI. unfold serve. destruct (comp _ _ _ _) as [res used]. cbn [fst cache].
  intros k v Hin. apply in_app_or in Hin as [Hin|Hin]; [|exact (HI _ _ Hin)].
  apply in_map_iff in Hin as (k0 & Hk & _). injection Hk as <- <-. apply look_is_ev. exact HI.
Qed.

Lemma inv_history h : Inv (run_history h).
Proof.
  unfold run_history. assert (forall g, Inv g -> Inv (fold_left (fun g r => fst (serve g r)) h g)) as K.
  { induction h as [|r h IH]; intros g Hg; [exact Hg|]. cbn. apply IH. apply inv_serve. exact Hg. }
  apply K. exact inv_init.
Qed.

(* the result of a request does not depend on the state it is served in, as long as the
   invariant holds ... *)
Lemma serve_result_indep g r : Inv g ->
  snd (serve g r) = fst (comp (compact (pragmas (fst r) (snd r))) (fst r) (pragmas (fst r) (snd r)) ev).
Proof.
  intros HI. unfold serve.
  rewrite (comp_ext _ _ _ (look (cache g)) ev (look_is_ev g HI)).
  destruct (comp _ _ _ ev) as [res used]. reflexivity.
Qed.

(* ... hence, for EVERY history and request: the result after the history equals the result in
   a fresh process *)
Theorem history_independent h r : snd (serve (run_history h) r) = snd (serve ginit r).
Proof. rewrite (serve_result_indep _ r (inv_history h)), (serve_result_indep _ r inv_init). reflexivity. Qed.
End GS.
