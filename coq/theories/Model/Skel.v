(* Control skeletons: statement structure of a Python function, expressions kept as text. *)
From Coq Require Import List String.
Import ListNotations.

Inductive skel :=
| SSeq (l : list skel)
| SIf (cond : string) (a b : skel)
| SReturn (e : string)
| SRaise (e : string)
| SAssign (target e : string)
| SExpr (e : string)
| STry (body : skel) (handlers : list (string * skel)) (fin : skel)
| SWhile (cond : string) (body : skel)
| SFor (target iter : string) (body : skel)
| SBreak | SContinue | SPass | SImport.
