(* Interval colouring: symbols whose lifetimes overlap never get the same colour — for every
   list of symbols (any order, any lifetimes). *)
From Coq Require Import List ZArith Bool Arith Lia Permutation.
From PV Require Import Model.RegAlloc.
Import ListNotations.
Local Open Scope Z_scope.

(* ---------- expire / pop ---------- *)
Lemma expire_spec start act : forall fr still fr',
  expire start act fr = (still, fr') ->
  (forall e c, In (e, c) still <-> In (e, c) act /\ start < e) /\
  exists gone, fr' = fr ++ gone /\ Permutation (map snd act) (map snd still ++ gone).
Proof.
  induction act as [|[e c] act IH]; cbn; intros fr still fr' H.
  - injection H as <- <-. split; [intros; cbn; tauto|]. exists []. rewrite app_nil_r. auto.
  - destruct (e <=? start) eqn:He.
    + apply IH in H as [H1 (gone & -> & HP)]. split.
      * intros e' c'. rewrite H1. split; [tauto|]. intros [[Heq|Hin] Hlt]; [|tauto].
        injection Heq as <- <-. apply Z.leb_le in He. lia.
      * exists (c :: gone). rewrite <- app_assoc. split; [reflexivity|].
        cbn. apply Permutation_cons_app. exact HP.
    + destruct (expire start act fr) as [still0 fr0] eqn:Hx. injection H as <- <-.
      destruct (IH _ _ _ Hx) as [H1 (gone & -> & HP)]. split.
      * intros e' c'. cbn. rewrite H1. apply Z.leb_gt in He. split.
        -- intros [Heq|[Hin Hlt]]; [injection Heq as <- <-; split; [auto|lia]|tauto].
        -- intros [[Heq|Hin] Hlt]; [auto|tauto].
      * exists gone. split; [reflexivity|]. cbn. constructor. exact HP.
Qed.

Lemma pop_last_spec l : match pop_last l with
  | Some (c, r) => l = r ++ [c]
  | None => l = [] end.
Proof.
  unfold pop_last. destruct (rev l) as [|c r] eqn:H.
  - apply (f_equal (@rev nat)) in H. rewrite rev_involutive in H. exact H.
  - apply (f_equal (@rev nat)) in H. rewrite rev_involutive in H. cbn in H. exact H.
Qed.

Definition cols (s : cst) : list nat := map snd (active s) ++ free s.

Lemma step_facts s x s' c : cstep s x = (s', c) ->
  ((Permutation (cols s') (cols s) /\ next s' = next s)
   \/ (Permutation (cols s') (next s :: cols s) /\ next s' = S (next s) /\ c = next s)) /\
  In (s_stop x, c) (active s') /\
  (forall e c0, In (e, c0) (active s) -> s_start x < e -> In (e, c0) (active s')) /\
  (NoDup (cols s) -> (forall c0, In c0 (cols s) -> (c0 < next s)%nat) ->
   forall e c0, In (e, c0) (active s) -> s_start x < e -> c0 <> c).
Proof.
  intros H. unfold cstep in H.
  destruct (expire (s_start x) (active s) (free s)) as [still fr] eqn:Hx.
  destruct (expire_spec _ _ _ _ _ Hx) as [Hs (gone & -> & HP)].
  assert (Permutation (cols s) (map snd still ++ (free s ++ gone))) as HP2.
  { unfold cols. rewrite HP. rewrite <- !app_assoc. apply Permutation_app_head. apply Permutation_app_comm. }
  pose proof (pop_last_spec (free s ++ gone)) as Hp.
  destruct (pop_last (free s ++ gone)) as [[c1 fr']|]; injection H as <- <-; cbn [active free next].
  - rewrite Hp in HP2.
    assert (Permutation (cols s) (map snd (still ++ [(s_stop x, c1)]) ++ fr')) as HP3.
    { rewrite HP2, map_app; cbn. rewrite <- !app_assoc. apply Permutation_app_head.
      apply Permutation_app_comm. }
    split; [left; split; [symmetry; exact HP3|reflexivity]|split; [|split]].
    + apply in_or_app; right; left; reflexivity.
    + intros e c0 Hin Hse. apply in_or_app; left; apply Hs; auto.
    + intros Hnd _ e c0 Hin Hse ->. assert (In (e, c1) still) as Hst by (apply Hs; auto).
      eapply Permutation_NoDup in Hnd; [|exact HP2].
      rewrite app_assoc in Hnd. apply NoDup_remove_2 in Hnd. apply Hnd. rewrite app_nil_r.
      apply in_or_app; left. apply in_map_iff. exists (e, c1); auto.
  - rewrite Hp, app_nil_r in HP2.
    split; [right; split; [|split; reflexivity]|split; [|split]].
    + unfold cols; cbn [active free]. rewrite Hp, app_nil_r, map_app; cbn.
      rewrite HP2. symmetry. apply Permutation_cons_append.
    + apply in_or_app; right; left; reflexivity.
    + intros e c0 Hin Hse. apply in_or_app; left; apply Hs; auto.
    + intros _ Hlt e c0 Hin Hse ->.
      assert (In (next s) (cols s)) as Hc.
      { unfold cols. apply in_or_app; left. apply in_map_iff. exists (e, next s); auto. }
      apply Hlt in Hc. lia.
Qed.

Definition CInv (s : cst) : Prop := NoDup (cols s) /\ forall c, In c (cols s) -> (c < next s)%nat.

Lemma step_CInv s x s' c : CInv s -> cstep s x = (s', c) -> CInv s'.
Proof.
  intros [Hnd Hlt] H. destruct (step_facts _ _ _ _ H) as [[(HP & Hn)|(HP & Hn & Hc)] _]; split.
  - eapply Permutation_NoDup; [symmetry; exact HP|exact Hnd].
  - intros c0 Hc0. rewrite Hn. apply Hlt. eapply Permutation_in; [exact HP|exact Hc0].
  - eapply Permutation_NoDup; [symmetry; exact HP|]. constructor; [|exact Hnd].
    intros Hin. apply Hlt in Hin. lia.
  - intros c0 Hc0. rewrite Hn. eapply Permutation_in in Hc0; [|exact HP].
    destruct Hc0 as [<-|Hin]; [lia|]. apply Hlt in Hin. lia.
Qed.

(* starts are non-decreasing and all at least lb *)
Fixpoint sorted_from (lb : Z) (l : list sym) : Prop :=
  match l with [] => True | x :: l' => lb <= s_start x /\ sorted_from (s_start x) l' end.

Lemma sorted_from_ge lb l : sorted_from lb l -> forall j x, nth_error l j = Some x -> lb <= s_start x.
Proof.
  revert lb; induction l as [|a l IH]; intros lb H [|j] x Hn; cbn in *; try discriminate.
  - injection Hn as <-. tauto.
  - destruct H as [H1 H2]. specialize (IH _ H2 _ _ Hn). lia.
Qed.

(* colour given to the j-th symbol of the (sorted) list *)
Definition col_at (cs : list (nat * nat)) (j : nat) : option nat := option_map snd (nth_error cs j).

Theorem crun_disjoint : forall l s lb, CInv s -> sorted_from lb l ->
  let cs := crun s l in
  map fst cs = map s_id l /\
  (forall e c j x cj, In (e, c) (active s) -> nth_error l j = Some x -> s_start x < e ->
       col_at cs j = Some cj -> cj <> c) /\
  (forall i j x y ci cj, (i < j)%nat ->
       nth_error l i = Some x -> nth_error l j = Some y -> s_start y < s_stop x ->
       col_at cs i = Some ci -> col_at cs j = Some cj -> ci <> cj).
Proof.
  induction l as [|x0 l IH]; intros s lb HI Hs; cbn [crun].
  - cbn. split; [reflexivity|]. split; intros; destruct j; discriminate.
  - destruct (cstep s x0) as [s' c0] eqn:Hst. cbn in Hs. destruct Hs as [Hlb Hs].
    pose proof (step_CInv _ _ _ _ HI Hst) as HI'.
    destruct (step_facts _ _ _ _ Hst) as (_ & Hnew & Hsurv & Hne).
    destruct HI as [Hnd Hlt]. specialize (Hne Hnd Hlt).
    destruct (IH s' (s_start x0) HI' Hs) as (Hids & Ha & Hb). cbn zeta in *.
    split; [cbn; f_equal; exact Hids|]. split.
    + intros e c [|j] x cj Hin Hn Hae Hc; cbn in *.
      * injection Hn as <-. injection Hc as <-. intros ->. eapply Hne; eauto.
      * pose proof (sorted_from_ge _ _ Hs _ _ Hn) as Hge.
        eapply Ha; eauto. apply Hsurv; auto. lia.
    + intros [|i] [|j] x y ci cj Hij Hi Hj Hov Hci Hcj; cbn in *; try lia.
      * injection Hi as <-. injection Hci as <-. intros ->.
        eapply Ha; eauto.
      * eapply Hb with (i := i) (j := j); eauto. lia.
Qed.

(* ---------- the sort ---------- *)
Lemma insert_perm x l : Permutation (insert_by_start x l) (x :: l).
Proof.
  induction l as [|y r IH]; cbn; [reflexivity|].
  destruct (s_start y <? s_start x); [|reflexivity].
  rewrite IH. apply perm_swap.
Qed.
Lemma sort_perm l : Permutation (sort_by_start l) l.
Proof. induction l as [|x l IH]; cbn; [constructor|]. rewrite insert_perm. constructor. exact IH. Qed.

Fixpoint sorted (l : list sym) : Prop :=
  match l with
  | [] => True
  | x :: r => (forall y, In y r -> s_start x <= s_start y) /\ sorted r
  end.
Lemma insert_sorted x l : sorted l -> sorted (insert_by_start x l).
Proof.
  induction l as [|y r IH]; cbn; intros H; [split; [intros ? []|exact I]|].
  destruct H as [Hy Hr]. destruct (s_start y <? s_start x) eqn:E.
  - apply Z.ltb_lt in E. cbn. split; [|apply IH; exact Hr].
    intros z Hz. eapply Permutation_in in Hz; [|apply insert_perm]. destruct Hz as [<-|Hz]; [lia|apply Hy; exact Hz].
  - apply Z.ltb_ge in E. cbn. split; [|split; assumption].
    intros z [<-|Hz]; [lia|]. specialize (Hy z Hz). lia.
Qed.
Lemma sort_sorted l : sorted (sort_by_start l).
Proof. induction l as [|x l IH]; cbn; [exact I|]. apply insert_sorted. exact IH. Qed.

Lemma sorted_sorted_from l : sorted l -> forall lb, (forall y, In y l -> lb <= s_start y) -> sorted_from lb l.
Proof.
  induction l as [|x r IH]; intros H lb Hlb; cbn; [exact I|]. destruct H as [Hx Hr].
  split; [apply Hlb; left; reflexivity|]. apply IH; [exact Hr|exact Hx].
Qed.

(* ---------- the theorem about assign_colors ---------- *)
Definition overlap (x y : sym) : Prop := s_start x < s_stop y /\ s_start y < s_stop x.

Lemma colour_of_nth (cs : list (nat * nat)) : NoDup (map fst cs) ->
  forall j id c, nth_error cs j = Some (id, c) -> colour_of cs id = Some c.
Proof.
  induction cs as [|[i0 c0] cs IH]; intros ND j id c Hn; [destruct j; discriminate|].
  inversion ND as [|? ? Hnin ND']; subst. destruct j as [|j]; cbn in *.
  - injection Hn as <- <-. rewrite Nat.eqb_refl. reflexivity.
  - destruct (Nat.eqb i0 id) eqn:E.
    + apply Nat.eqb_eq in E. subst. exfalso. apply Hnin. apply in_map_iff. exists (id, c). split; [reflexivity|].
      eapply nth_error_In; eauto.
    + eapply IH; eauto.
Qed.

Theorem colours_disjoint (l : list sym) : NoDup (map s_id l) ->
  forall x y, In x l -> In y l -> s_id x <> s_id y -> overlap x y ->
    exists cx cy, colour_of (assign_colors l) (s_id x) = Some cx /\
                  colour_of (assign_colors l) (s_id y) = Some cy /\ cx <> cy.
Proof.
  intros ND x y Hx Hy Hne [O1 O2]. unfold assign_colors.
  set (sl := sort_by_start l).
  assert (Permutation sl l) as HP by apply sort_perm.
  assert (sorted sl) as HS by apply sort_sorted.
  set (s0 := {| active := []; free := []; next := 0%nat |}).
  assert (CInv s0) as HI by (split; cbn; [constructor|intros c []]).
  assert (exists lb, forall z, In z sl -> lb <= s_start z) as [lb Hlb].
  { clear. induction sl as [|a r [lb IH]]; [exists 0; intros ? []|].
    exists (Z.min lb (s_start a)). intros z [<-|Hz]; [lia|]. specialize (IH z Hz). lia. }
  destruct (crun_disjoint sl s0 lb HI (sorted_sorted_from _ HS lb Hlb)) as (Hids & _ & Hb).
  cbn zeta in Hb.
  assert (NoDup (map fst (crun s0 sl))) as ND2.
  { rewrite Hids. eapply Permutation_NoDup; [|exact ND]. apply Permutation_map. symmetry. exact HP. }
  assert (In x sl) as Hx' by (eapply Permutation_in; [symmetry; exact HP|exact Hx]).
  assert (In y sl) as Hy' by (eapply Permutation_in; [symmetry; exact HP|exact Hy]).
  apply In_nth_error in Hx' as [i Hi]. apply In_nth_error in Hy' as [j Hj].
  assert (forall k z, nth_error sl k = Some z -> exists c, nth_error (crun s0 sl) k = Some (s_id z, c)) as Al.
  { intros k z Hk. assert (nth_error (map fst (crun s0 sl)) k = Some (s_id z)) as E
      by (rewrite Hids; apply map_nth_error; exact Hk).
    destruct (nth_error (crun s0 sl) k) as [[i0 c0]|] eqn:En.
    - rewrite (map_nth_error fst k _ En) in E. injection E as <-. exists c0. reflexivity.
    - apply nth_error_None in En. assert (k < length (map fst (crun s0 sl)))%nat as L
        by (apply nth_error_Some; rewrite E; discriminate). rewrite map_length in L. lia. }
  destruct (Al _ _ Hi) as [ci Hci]. destruct (Al _ _ Hj) as [cj Hcj].
  exists ci, cj. split; [eapply colour_of_nth; eauto|]. split; [eapply colour_of_nth; eauto|].
  assert (i <> j) as Hij by (intros ->; rewrite Hi in Hj; injection Hj as ->; contradiction).
  destruct (Nat.lt_ge_cases i j) as [L|L].
  - eapply (Hb i j x y ci cj L Hi Hj); [exact O2| |]; unfold col_at; [rewrite Hci|rewrite Hcj]; reflexivity.
  - assert (j < i)%nat as L' by lia. intros E. symmetry in E. revert E.
    eapply (Hb j i y x cj ci L' Hj Hi); [exact O1| |]; unfold col_at; [rewrite Hcj|rewrite Hci]; reflexivity.
Qed.

(* the number of colours never exceeds the number of symbols: colour k is used only after k
   others are in use; (bound used by the register-limit check) *)

(* ====================== scope ordering ====================== *)
Local Open Scope nat_scope.

Lemma nmem_In x l : nmem x l = true <-> In x l.
Proof.
  induction l as [|y r IH]; cbn; [split; [discriminate|tauto]|].
  rewrite orb_true_iff, IH, Nat.eqb_eq. split; intros [H|H]; auto.
Qed.

Lemma pick_ready_spec cf todo placed s : pick_ready cf todo placed = Some s ->
  In s todo /\ subset (callers cf s) placed = true.
Proof.
  induction todo as [|t r IH]; cbn; [discriminate|].
  destruct (subset (callers cf t) placed) eqn:E.
  - intros [= <-]. auto.
  - intros H. destruct (IH H). auto.
Qed.

(* whenever the ordering succeeds, every scope comes after all the scopes it is called from *)
Theorem sort_scopes_topological fuel cf : forall todo placed order,
  sort_scopes fuel cf todo placed = Some order ->
  exists rest, order = placed ++ rest /\
    forall a s b, rest = a ++ s :: b -> subset (callers cf s) (placed ++ a) = true.
Proof.
  induction fuel as [|k IH]; intros todo placed order H.
  - destruct todo; [|discriminate]. injection H as <-. exists []. rewrite app_nil_r. split; [reflexivity|].
    intros a s b E. destruct a; discriminate.
  - destruct todo as [|t r]; [injection H as <-; exists []; rewrite app_nil_r; split; [reflexivity|intros a s b E; destruct a; discriminate]|].
    cbn [sort_scopes] in H. destruct (pick_ready cf (t :: r) placed) as [s0|] eqn:P; [|discriminate].
    destruct (pick_ready_spec _ _ _ _ P) as [_ Hs0].
    destruct (IH _ _ _ H) as (rest & -> & Hr). exists (s0 :: rest). rewrite <- app_assoc. split; [reflexivity|].
    intros a s b E. destruct a as [|a0 a]; cbn in E.
    + injection E as <- <-. rewrite app_nil_r. exact Hs0.
    + injection E as <- E. specialize (Hr a s b E). rewrite <- app_assoc in Hr. exact Hr.
Qed.

(* a call cycle (here: any non-empty set C of scopes still to be placed, each of which is called
   from a member of C) makes the ordering fail — recursion, direct or mutual, is rejected *)
Theorem sort_scopes_rejects_cycles fuel cf (C : list nat) : forall todo placed,
  C <> [] -> (forall s, In s C -> In s todo) -> (forall s, In s C -> ~ In s placed) ->
  (forall s, In s C -> exists c, In c C /\ In c (callers cf s)) ->
  sort_scopes fuel cf todo placed = None.
Proof.
  induction fuel as [|k IH]; intros todo placed Hne Hsub Hdis Hcyc.
  - destruct todo as [|t r]; [|reflexivity]. destruct C as [|c C]; [contradiction|]. destruct (Hsub c (or_introl eq_refl)).
  - destruct todo as [|t r]; [destruct C as [|c C]; [contradiction|]; destruct (Hsub c (or_introl eq_refl))|].
    cbn [sort_scopes]. destruct (pick_ready cf (t :: r) placed) as [s0|] eqn:P; [|reflexivity].
    destruct (pick_ready_spec _ _ _ _ P) as [Hin Hready].
    assert (~ In s0 C) as Hs0.
    { intros HC. destruct (Hcyc _ HC) as (c & HcC & Hcc).
      unfold subset in Hready. rewrite forallb_forall in Hready. specialize (Hready c Hcc).
      apply nmem_In in Hready. exact (Hdis c HcC Hready). }
    apply IH; auto.
    + intros s Hs. specialize (Hsub s Hs).
      assert (s <> s0) as Hd by (intros ->; contradiction).
      clear - Hsub Hd. induction (t :: r) as [|y l IHl]; [destruct Hsub|]. cbn.
      destruct (Nat.eqb s0 y) eqn:E.
      * apply Nat.eqb_eq in E. subst y. destruct Hsub as [->|H]; [contradiction|exact H].
      * destruct Hsub as [->|H]; [left; reflexivity|right; apply IHl; exact H].
    + intros s Hs Hp. apply in_app_or in Hp as [Hp|[<-|[]]]; [exact (Hdis s Hs Hp)|contradiction].
Qed.

Corollary recursion_rejected fuel cf f todo :
  In f todo -> In f (callers cf f) -> sort_scopes fuel cf todo [] = None.
Proof.
  intros Hin Hself. apply (sort_scopes_rejects_cycles fuel cf [f]); [discriminate| | |].
  - intros s [<-|[]]. exact Hin.
  - intros s _ [].
  - intros s [<-|[]]. exists f. split; [left; reflexivity|exact Hself].
Qed.

(* ====================== registers per scope ====================== *)
(* only r0..r15 are ever handed out, and a colour beyond the available registers is an error *)
Lemma minus_subset a b x : In x (minus a b) -> In x a /\ ~ In x b.
Proof.
  unfold minus. rewrite filter_In. intros [H1 H2]. split; [exact H1|].
  intros Hb. apply nmem_In in Hb. rewrite Hb in H2. discriminate.
Qed.

Theorem scope_regs_in_range blocked colours m :
  scope_regs (minus all16 blocked) colours = Some m ->
  forall id r, In (id, r) m -> r < 16 /\ ~ In r blocked.
Proof.
  revert m. induction colours as [|[id0 c0] cs IH]; intros m H id r Hin.
  - cbn in H. injection H as <-. destruct Hin.
  - cbn [scope_regs] in H. destruct (nth_error (minus all16 blocked) c0) as [reg|] eqn:E; [|discriminate].
    destruct (scope_regs (minus all16 blocked) cs) as [m'|] eqn:G; [|discriminate].
    injection H as <-. destruct Hin as [Hin|Hin].
    + injection Hin as <- <-. apply nth_error_In in E. apply minus_subset in E as [E1 E2].
      split; [|exact E2]. unfold all16 in E1. apply in_seq in E1. lia.
    + eapply IH; eauto.
Qed.

Theorem out_of_registers_is_error avail colours id c :
  In (id, c) colours -> length avail <= c -> scope_regs avail colours = None.
Proof.
  induction colours as [|[id0 c0] cs IH]; intros Hin Hc; [destruct Hin|].
  cbn [scope_regs]. destruct Hin as [Hin|Hin].
  - injection Hin as -> ->. assert (nth_error avail c = None) as -> by (apply nth_error_None; exact Hc). reflexivity.
  - destruct (nth_error avail c0); [|reflexivity]. rewrite (IH Hin Hc). reflexivity.
Qed.
