(* constexpr: the forbidden-word test of CompilerPassHandleConstexpr and the transport of the
   evaluated value into the emitted literal. *)
From Coq Require Import List NArith ZArith Bool String.
From PV Require Import Base.PyStr Model.FormatNum.
Import ListNotations.
Local Open Scope N_scope.

(* \w of Python's re for str patterns, restricted to what matters here: ASCII letters, digits, '_'
   (non-ASCII letters are word characters too; they are treated as such by `is_word` = true above 127) *)
Definition is_word (c : N) : bool :=
  ((48 <=? c) && (c <=? 57)) || ((65 <=? c) && (c <=? 90)) || ((97 <=? c) && (c <=? 122)) || (c =? 95) || (128 <=? c).

(* does `w` occur in `s` at the start, followed by a non-word character or the end? *)
Fixpoint at_start (w s : pystr) : bool :=
  match w, s with
  | [], [] => true
  | [], c :: _ => negb (is_word c)
  | a :: w', b :: s' => (a =? b) && at_start w' s'
  | _ :: _, [] => false
  end.

(* re.search(r"\bw\b", s): prev_word = was the previous character a word character *)
Fixpoint find_word (w s : pystr) (prev_word : bool) : bool :=
  (negb prev_word && at_start w s)
  || match s with [] => false | c :: r => find_word w r (is_word c) end.

Definition W_OPEN : pystr := [111; 112; 101; 110].
Definition W_EVAL : pystr := [101; 118; 97; 108].
Definition W_EXEC : pystr := [101; 120; 101; 99].
Definition forbidden (s : pystr) : bool :=
  find_word W_OPEN s false || find_word W_EVAL s false || find_word W_EXEC s false.

(* ---- transport of an integer result: child prints json.dumps(v); parent json.loads it,
        wraps it in an operand, format_int prints it, the chip reads the literal ---- *)
Definition json_int (z : Z) : string := dec_str z.
Definition json_load_int (s : string) : option Z := read_dec s.
Definition transport_int (hashes : list Z) (z : Z) : option Z :=
  match json_load_int (json_int z) with
  | Some v => read_int_literal (format_int hashes v)
  | None => None
  end.
