(* Per-operator agreement between compile-time folding (Python semantics of the table's
   lambda) and the instruction the same table entry names, for ALL operands in the domain. *)
From Coq Require Import List ZArith Bool String PrimFloat Lia.
From PV Require Import IC10.Values IC10.Machine IC10.FloatAlg Model.Fold.
Import ListNotations.
Local Open Scope Z_scope.

Ltac Zify.zify_post_hook ::= Z.div_mod_to_equations.

Lemma wrap64_small z : - 2 ^ 63 <= z < 2 ^ 63 -> wrap64 z = z.
Proof.
  intros H. unfold wrap64. 
  change (2 ^ 64) with 18446744073709551616 in *. change (2 ^ 63) with 9223372036854775808 in *.
  destruct (z mod 18446744073709551616 <? 9223372036854775808) eqn:E; lia.
Qed.

Lemma small_log2 r : 0 <= r -> (r = 0 \/ Z.log2 r < 53) -> r < 2 ^ 53.
Proof.
  intros H0 [->|H]; [reflexivity|]. destruct (Z.eq_dec r 0) as [->|Hn]; [reflexivity|].
  apply Z.log2_lt_pow2; lia.
Qed.
Lemma log2_small a : 0 <= a < 2 ^ 53 -> a = 0 \/ Z.log2 a < 53.
Proof.
  intros [H0 H1]. destruct (Z.eq_dec a 0) as [->|Hn]; [left; reflexivity|right].
  apply Z.log2_lt_pow2; lia.
Qed.

Lemma land_small a b : 0 <= a < 2 ^ 53 -> 0 <= b < 2 ^ 53 -> 0 <= Z.land a b < 2 ^ 53.
Proof.
  intros Ha Hb. assert (0 <= Z.land a b) as H0 by (apply Z.land_nonneg; lia).
  split; [exact H0|]. apply small_log2; [exact H0|].
  destruct (Z.eq_dec (Z.land a b) 0) as [->|Hn]; [left; reflexivity|right].
  pose proof (Z.log2_land a b ltac:(lia) ltac:(lia)) as HL.
  destruct (log2_small a Ha) as [->|La]; [rewrite Z.land_0_l in Hn; contradiction|].
  lia.
Qed.
Lemma lor_small a b : 0 <= a < 2 ^ 53 -> 0 <= b < 2 ^ 53 -> 0 <= Z.lor a b < 2 ^ 53.
Proof.
  intros Ha Hb. assert (0 <= Z.lor a b) as H0 by (apply Z.lor_nonneg; lia).
  split; [exact H0|]. apply small_log2; [exact H0|].
  destruct (Z.eq_dec (Z.lor a b) 0) as [->|Hn]; [left; reflexivity|right].
  rewrite Z.log2_lor by lia.
  pose proof (Z.log2_nonneg a) as Na. pose proof (Z.log2_nonneg b) as Nb.
  destruct (log2_small a Ha) as [->|La], (log2_small b Hb) as [->|Lb]; cbn in *; lia.
Qed.
Lemma lxor_small a b : 0 <= a < 2 ^ 53 -> 0 <= b < 2 ^ 53 -> 0 <= Z.lxor a b < 2 ^ 53.
Proof.
  intros Ha Hb. assert (0 <= Z.lxor a b) as H0 by (apply Z.lxor_nonneg; lia).
  split; [exact H0|]. apply small_log2; [exact H0|].
  destruct (Z.eq_dec (Z.lxor a b) 0) as [->|Hn]; [left; reflexivity|right].
  pose proof (Z.log2_lxor a b ltac:(lia) ltac:(lia)) as HL.
  pose proof (Z.log2_nonneg a) as Na. pose proof (Z.log2_nonneg b) as Nb.
  destruct (log2_small a Ha) as [->|La], (log2_small b Hb) as [->|Lb];
    rewrite ?Z.lxor_0_l, ?Z.lxor_0_r in *; cbn in *; lia.
Qed.

Definition int_operand (x : float) (a : Z) : Prop := trunc_Z x = Some a /\ 0 <= a < 2 ^ 53.

Lemma long_of_int x a : int_operand x a -> long_of x = a.
Proof.
  intros [H R]. unfold long_of. rewrite H. apply wrap64_small.
  change (2 ^ 53) with 9007199254740992 in R. change (2 ^ 63) with 9223372036854775808. lia.
Qed.

(* arithmetic: the same IEEE operation on both sides *)
Lemma fold_add x y r : fold2 (PBin PAdd (PE PX) (PE PY)) x y = Some r -> r = fbin Badd x y.
Proof. unfold fold2, fold1. cbn. intros [= <-]. reflexivity. Qed.
Lemma fold_sub x y r : fold2 (PBin PSub (PE PX) (PE PY)) x y = Some r -> r = fbin Bsub x y.
Proof. unfold fold2, fold1. cbn. intros [= <-]. reflexivity. Qed.
Lemma fold_mul x y r : fold2 (PBin PMul (PE PX) (PE PY)) x y = Some r -> r = fbin Bmul x y.
Proof. unfold fold2, fold1. cbn. intros [= <-]. reflexivity. Qed.
(* division: Python refuses a zero divisor (the expression is then not folded) *)
Lemma fold_div x y r : fold2 (PBin PDiv (PE PX) (PE PY)) x y = Some r -> r = fbin Bdiv x y.
Proof. unfold fold2, fold1. cbn. destruct (PrimFloat.eqb y PrimFloat.zero); [discriminate|]. intros [= <-]. reflexivity. Qed.
(* power: one uninterpreted function on both sides (named assumption: Python's float power and
   the chip's pow are the same function) *)
Lemma fold_pow x y r : fold2 (PBin PPow (PE PX) (PE PY)) x y = Some r -> r = fbin Bpow x y.
Proof. unfold fold2, fold1. cbn. intros [= <-]. reflexivity. Qed.

(* comparisons: 1 / 0 exactly as the set-instruction *)
Lemma fold_cmp_e c x y r : fold2 (PCmp c (PE PX) (PE PY)) x y = Some r ->
  r = of_bool FloatAlg (fcmp c x y).
Proof. unfold fold2, fold1. cbn. intros [= <-]. destruct (fcmp c x y); reflexivity. Qed.
Lemma fold_cmp_raw c x y r : fold2 (PCmp c PX PY) x y = Some r -> r = of_bool FloatAlg (fcmp c x y).
Proof. unfold fold2, fold1. cbn. intros [= <-]. destruct (fcmp c x y); reflexivity. Qed.

Section Mod.
(* modulo: for a modulus that is not negative Python's float % and IC10's mod coincide.
   `zero_not_neg` is the IEEE fact that a value equal to zero is not below zero. *)
Hypothesis zero_not_neg : forall f, PrimFloat.eqb f PrimFloat.zero = true -> PrimFloat.ltb f PrimFloat.zero = false.

Lemma fold_mod x y r : PrimFloat.ltb y PrimFloat.zero = false ->
  fold2 (PBin PMod (PE PX) (PE PY)) x y = Some r -> r = fbin Bmod x y.
Proof using zero_not_neg.
  intros Hy. unfold fold2. cbn. unfold py_fmod, ic10_mod.
  destruct (PrimFloat.eqb y PrimFloat.zero); [discriminate|].
  destruct (PrimFloat.eqb (fmod x y) PrimFloat.zero) eqn:Ez.
  - cbn. intros [= <-]. rewrite (zero_not_neg _ Ez). reflexivity.
  - rewrite Hy. destruct (PrimFloat.ltb (fmod x y) PrimFloat.zero); cbn; intros [= <-]; reflexivity.
Qed.

End Mod.

(* bitwise operators on non-negative integers below 2^53: int() truncation and the chip's
   (long) view coincide and the result is exactly representable *)
Lemma fold_bit (o : pbin) (g : Z -> Z -> Z) (b : binop) x y a c r :
  (o = PBitAnd /\ g = Z.land /\ b = Band) \/ (o = PBitOr /\ g = Z.lor /\ b = Bor) \/
  (o = PBitXor /\ g = Z.lxor /\ b = Bxor) ->
  int_operand x a -> int_operand y c ->
  fold2 (PBin o (PInt (PE PX)) (PInt (PE PY))) x y = Some r -> r = fbin b x y.
Proof.
  intros Hk Hx Hy. pose proof (long_of_int _ _ Hx) as Lx. pose proof (long_of_int _ _ Hy) as Ly.
  destruct Hx as [Tx Rx], Hy as [Ty Ry].
  assert (0 <= g a c < 2 ^ 53) as Rg.
  { destruct Hk as [(-> & -> & ->)|[(-> & -> & ->)|(-> & -> & ->)]];
      [apply land_small|apply lor_small|apply lxor_small]; assumption. }
  assert (wrap64 (g a c) = g a c) as W.
  { apply wrap64_small. change (2 ^ 53) with 9007199254740992 in Rg. change (2 ^ 63) with 9223372036854775808. lia. }
  destruct Hk as [(-> & -> & ->)|[(-> & -> & ->)|(-> & -> & ->)]];
    unfold fold2; cbn; rewrite Tx, Ty; cbn; intros [= <-]; unfold bitop; rewrite Lx, Ly, W; reflexivity.
Qed.

(* shifts: the left operand a non-negative integer below 2^53, the amount 0..9 *)
Lemma fold_shr x y a c r : int_operand x a -> trunc_Z y = Some c -> 0 <= c < 64 ->
  fold2 (PBin PShr (PInt (PE PX)) (PInt (PE PY))) x y = Some r -> r = fbin Bsrl x y.
Proof.
  intros Hx Ty Rc. pose proof (long_of_int _ _ Hx) as Lx. destruct Hx as [Tx Rx].
  unfold fold2. cbn. rewrite Tx, Ty. cbn. destruct (c <? 0) eqn:E; [lia|]. cbn. intros [= <-].
  unfold bitop. rewrite Lx. unfold long_of. rewrite Ty.
  assert (wrap64 c = c) as Wc by (apply wrap64_small; change (2 ^ 63) with 9223372036854775808; lia).
  rewrite Wc.
  assert (a mod 2 ^ 64 = a) as Ma.
  { apply Z.mod_small. change (2 ^ 53) with 9007199254740992 in Rx. change (2 ^ 64) with 18446744073709551616. lia. }
  cbv beta. change (2 ^ 64) with 18446744073709551616 in Ma. rewrite Ma.
  assert (0 <= Z.shiftr a c <= a) as Rs.
  { split; [apply Z.shiftr_nonneg; lia|]. rewrite Z.shiftr_div_pow2 by lia.
    apply Z.div_le_upper_bound; [apply Z.pow_pos_nonneg; lia|].
    pose proof (Z.pow_pos_nonneg 2 c ltac:(lia) ltac:(lia)). nia. }
  rewrite wrap64_small; [reflexivity|].
  change (2 ^ 53) with 9007199254740992 in Rx. change (2 ^ 63) with 9223372036854775808. lia.
Qed.

Lemma fold_shl x y a c r : int_operand x a -> trunc_Z y = Some c -> 0 <= c <= 9 ->
  fold2 (PBin PShl (PInt (PE PX)) (PInt (PE PY))) x y = Some r -> r = fbin Bsll x y.
Proof.
  intros Hx Ty Rc. pose proof (long_of_int _ _ Hx) as Lx. destruct Hx as [Tx Rx].
  unfold fold2. cbn. rewrite Tx, Ty. cbn. destruct (c <? 0) eqn:E; [lia|]. cbn. intros [= <-].
  unfold bitop. rewrite Lx. unfold long_of. rewrite Ty.
  assert (wrap64 c = c) as Wc by (apply wrap64_small; change (2 ^ 63) with 9223372036854775808; lia).
  rewrite Wc. rewrite wrap64_small; [reflexivity|].
  rewrite Z.shiftl_mul_pow2 by lia.
  assert (1 <= 2 ^ c <= 2 ^ 9) as Hp by (split; [pose proof (Z.pow_pos_nonneg 2 c); lia|apply Z.pow_le_mono_r; lia]).
  change (2 ^ 9) with 512 in Hp. change (2 ^ 53) with 9007199254740992 in Rx.
  change (2 ^ 63) with 9223372036854775808. nia.
Qed.

(* not x  folds to  int(not float(x))  = 1 iff x == 0, as seqz *)
Lemma fold_not x r : fold1 (PInt (PNot (PE PX))) x = Some r ->
  r = of_bool FloatAlg (fcmp Ceq x (of_Z 0)).
Proof.
  unfold fold1, fold2. cbn. intros [= <-]. change (of_Z 0) with PrimFloat.zero.
  destruct (PrimFloat.eqb x PrimFloat.zero); reflexivity.
Qed.

(* ~x is never folded (Python refuses ~ on a float), so no literal is ever produced for it *)
Lemma fold_inv_never x : fold1 (PInv (PE PX)) x = None.
Proof. reflexivity. Qed.

Section Neg.
(* unary minus folds to the IEEE negation; the instruction computes 0 - x.  That these denote the
   same number (they differ only in the sign of a zero result) is an IEEE fact assumed here. *)
Hypothesis neg_is_zero_minus : forall x, PrimFloat.opp x = PrimFloat.sub (of_Z 0) x \/
  (PrimFloat.eqb (PrimFloat.opp x) PrimFloat.zero = true /\ PrimFloat.eqb (PrimFloat.sub (of_Z 0) x) PrimFloat.zero = true).
Lemma fold_neg x r : fold1 (PNeg (PE PX)) x = Some r ->
  r = fbin Bsub (of_Z 0) x \/ (PrimFloat.eqb r PrimFloat.zero = true /\ PrimFloat.eqb (fbin Bsub (of_Z 0) x) PrimFloat.zero = true).
Proof using neg_is_zero_minus. unfold fold1, fold2. cbn. intros [= <-]. apply neg_is_zero_minus. Qed.
End Neg.
