(* CompilerPassSetModuleNames (compile_pass.py): `from library import <file> [as <alias>]` statements
   are visited in order; each binds a name (the alias, or the file name) to the module read from the
   ORIGINAL table of library files; the table of modules is replaced by these bindings at the end.

   Specification: Python's own import semantics - after the statements, a name refers to the file of the
   LAST import that bound it, whatever other files or aliases are spelled alike. *)
From Coq Require Import List String Bool.
Import ListNotations.
Local Open Scope string_scope.

Section M.
Variable Mod : Type.
Variable files : string -> option Mod.          (* the library files as submitted *)

Definition import := (string * option string)%type.     (* (file, alias) *)
Definition bound (i : import) : string := match snd i with Some a => a | None => fst i end.

(* the pass: a dictionary filled in visiting order (later entries overwrite earlier ones) *)
Fixpoint dict_set (d : list (string * Mod)) (k : string) (v : Mod) : list (string * Mod) :=
  match d with
  | [] => [(k, v)]
  | (k', v') :: r => if String.eqb k k' then (k, v) :: r else (k', v') :: dict_set r k v
  end.
Fixpoint dict_get (d : list (string * Mod)) (k : string) : option Mod :=
  match d with [] => None | (k', v) :: r => if String.eqb k k' then Some v else dict_get r k end.

Fixpoint rename (L : list import) (d : list (string * Mod)) : option (list (string * Mod)) :=
  match L with
  | [] => Some d
  | i :: r => match files (fst i) with
              | Some m => rename r (dict_set d (bound i) m)
              | None => None                      (* KeyError: no such library file *)
              end
  end.

(* Python: the binding of name k after executing the imports *)
Fixpoint py_binding (L : list import) (cur : option Mod) (k : string) : option Mod :=
  match L with
  | [] => cur
  | i :: r => py_binding r (if String.eqb k (bound i) then files (fst i) else cur) k
  end.

Lemma dict_get_set d k v k' : dict_get (dict_set d k v) k' = if String.eqb k' k then Some v else dict_get d k'.
Proof.
  induction d as [|[a b] r IH]; cbn.
  - destruct (String.eqb k' k); reflexivity.
  - destruct (String.eqb k a) eqn:E; cbn.
    + apply String.eqb_eq in E. subst a. destruct (String.eqb k' k); reflexivity.
    + destruct (String.eqb k' a) eqn:E2.
      * apply String.eqb_eq in E2. subst a.
        assert (String.eqb k' k = false) as -> by (rewrite String.eqb_sym; exact E). reflexivity.
      * exact IH.
Qed.

Theorem rename_is_python_binding : forall L d d', rename L d = Some d' ->
  forall k, dict_get d' k = py_binding L (dict_get d k) k.
Proof.
  induction L as [|i r IH]; intros d d' H k; cbn in H |- *.
  - injection H as <-. reflexivity.
  - destruct (files (fst i)) as [m|] eqn:E; [|discriminate].
    rewrite (IH _ _ H k). rewrite dict_get_set.
    destruct (String.eqb k (bound i)); reflexivity.
Qed.
End M.

(* an alias spelled like another library file, imported before that file: both names resolve as in Python *)
Example alias_collision :
  let files := fun f => if String.eqb f "pump" then Some 1 else if String.eqb f "pump_v2" then Some 2 else None in
  match rename nat files [("pump_v2", Some "pump"); ("pump", Some "legacy")] [] with
  | Some d => dict_get nat d "pump" = Some 2 /\ dict_get nat d "legacy" = Some 1 /\ dict_get nat d "pump_v2" = None
  | None => False
  end.
Proof. cbn. repeat split; reflexivity. Qed.
