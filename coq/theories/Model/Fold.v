(* Compile-time evaluation (utils.py operator tables): the folding lambdas as terms, Python's
   numeric semantics for them, and the run-time meaning of the opcode each table entry names. *)
From Coq Require Import List ZArith Bool String PrimFloat.
From PV Require Import IC10.Values IC10.Machine IC10.FloatAlg.
Import ListNotations.
Local Open Scope string_scope.

Inductive pbin := PAdd | PSub | PMul | PDiv | PMod | PPow | PBitAnd | PBitOr | PBitXor | PShl | PShr.
Inductive pexpr :=
| PX | PY
| PE (e : pexpr)            (* _e(v)  : float(v) *)
| PInt (e : pexpr)          (* int(v) : truncation toward zero *)
| PFloat (e : pexpr)
| PNeg (e : pexpr) | PInv (e : pexpr) | PNot (e : pexpr)
| PBin (o : pbin) (a b : pexpr)
| PAnd (a b : pexpr) | POr (a b : pexpr)
| PCmp (c : cmp) (a b : pexpr).

(* Python values that reach the folder *)
Inductive pyv := VF (f : float) | VI (z : Z) | VB (b : bool).

Definition py_float (v : pyv) : option float :=
  match v with
  | VF f => Some f
  | VI z => Some (of_Z z)           (* float(int): correctly rounded (OverflowError beyond 2^1024 not modelled) *)
  | VB b => Some (if b then of_Z 1 else of_Z 0)
  end.
Definition py_int (v : pyv) : option Z :=
  match v with
  | VF f => trunc_Z f               (* int(nan), int(inf) raise *)
  | VI z => Some z
  | VB b => Some (if b then 1 else 0)%Z
  end.
Definition py_truth (v : pyv) : bool :=
  match v with
  | VF f => negb (PrimFloat.eqb f PrimFloat.zero)
  | VI z => negb (Z.eqb z 0)
  | VB b => b
  end.

(* Python float %: the C remainder, moved by one modulus when its sign differs from the
   modulus'.  (For a zero remainder Python returns a zero with the modulus' sign; the sign of
   zero is not modelled.) *)
Definition py_fmod (x y : float) : option float :=
  if PrimFloat.eqb y PrimFloat.zero then None
  else let r := fmod x y in
       if PrimFloat.eqb r PrimFloat.zero then Some r
       else if Bool.eqb (PrimFloat.ltb y PrimFloat.zero) (PrimFloat.ltb r PrimFloat.zero) then Some r
       else Some (PrimFloat.add r y).

Definition py_binop (o : pbin) (a b : pyv) : option pyv :=
  match o, a, b with
  | PAdd, VF x, VF y => Some (VF (PrimFloat.add x y))
  | PSub, VF x, VF y => Some (VF (PrimFloat.sub x y))
  | PMul, VF x, VF y => Some (VF (PrimFloat.mul x y))
  | PDiv, VF x, VF y => if PrimFloat.eqb y PrimFloat.zero then None else Some (VF (PrimFloat.div x y))
  | PMod, VF x, VF y => match py_fmod x y with Some r => Some (VF r) | None => None end
  | PPow, VF x, VF y => Some (VF (fake2 1 x y))       (* float power: uninterpreted, shared with the chip *)
  | PBitAnd, VI x, VI y => Some (VI (Z.land x y))
  | PBitOr, VI x, VI y => Some (VI (Z.lor x y))
  | PBitXor, VI x, VI y => Some (VI (Z.lxor x y))
  | PShl, VI x, VI y => if (y <? 0)%Z then None else Some (VI (Z.shiftl x y))
  | PShr, VI x, VI y => if (y <? 0)%Z then None else Some (VI (Z.shiftr x y))
  | _, _, _ => None                 (* mixed int/float arithmetic does not occur in the tables *)
  end.

Definition py_cmp (c : cmp) (a b : pyv) : option pyv :=
  match py_float a, py_float b with
  | Some x, Some y => Some (VB (fcmp c x y))
  | _, _ => None
  end.

Fixpoint py_eval (e : pexpr) (x y : pyv) : option pyv :=
  match e with
  | PX => Some x | PY => Some y
  | PE a => match py_eval a x y with Some v => option_map VF (py_float v) | None => None end
  | PFloat a => match py_eval a x y with Some v => option_map VF (py_float v) | None => None end
  | PInt a => match py_eval a x y with Some v => option_map VI (py_int v) | None => None end
  | PNeg a => match py_eval a x y with
              | Some (VF f) => Some (VF (PrimFloat.opp f)) | Some (VI z) => Some (VI (- z))
              | Some (VB b) => Some (VI (if b then -1 else 0)) | None => None end
  | PInv a => match py_eval a x y with
              | Some (VI z) => Some (VI (Z.lnot z)) | Some (VB b) => Some (VI (if b then -2 else -1))
              | _ => None end                               (* ~float raises TypeError *)
  | PNot a => match py_eval a x y with Some v => Some (VB (negb (py_truth v))) | None => None end
  | PBin o a b => match py_eval a x y, py_eval b x y with
                  | Some u, Some v => py_binop o u v | _, _ => None end
  | PAnd a b => match py_eval a x y with
                | Some u => if py_truth u then py_eval b x y else Some u | None => None end
  | POr a b => match py_eval a x y with
               | Some u => if py_truth u then Some u else py_eval b x y | None => None end
  | PCmp c a b => match py_eval a x y, py_eval b x y with
                  | Some u, Some v => py_cmp c u v | _, _ => None end
  end.

(* the number the literal operand denotes: IC10Operand(value) then printing then the chip's
   reading of the literal (exactness of printing is property C09) *)
Definition operand_value (v : pyv) : float :=
  match v with VF f => f | VI z => of_Z z | VB b => if b then of_Z 1 else of_Z 0 end.

Definition fold2 (lam : pexpr) (x y : float) : option float :=
  option_map operand_value (py_eval lam (VF x) (VF y)).
Definition fold1 (lam : pexpr) (x : float) : option float := fold2 lam x x.

(* ---------- run-time meaning of the opcode named in a table entry ---------- *)
Definition chip_binop (opcode : string) : option (float -> float -> float) :=
  match opcode with
  | "add" => Some (fbin Badd) | "sub" => Some (fbin Bsub) | "mul" => Some (fbin Bmul)
  | "div" => Some (fbin Bdiv) | "mod" => Some (fbin Bmod) | "pow" => Some (fbin Bpow)
  | "and" => Some (fbin Band) | "or" => Some (fbin Bor) | "xor" => Some (fbin Bxor)
  | "srl" => Some (fbin Bsrl) | "sll" => Some (fbin Bsll)
  | "seq" => Some (fun x y => of_bool FloatAlg (fcmp Ceq x y))
  | "sne" => Some (fun x y => of_bool FloatAlg (fcmp Cne x y))
  | "slt" => Some (fun x y => of_bool FloatAlg (fcmp Clt x y))
  | "sle" => Some (fun x y => of_bool FloatAlg (fcmp Cle x y))
  | "sgt" => Some (fun x y => of_bool FloatAlg (fcmp Cgt x y))
  | "sge" => Some (fun x y => of_bool FloatAlg (fcmp Cge x y))
  | _ => None
  end.
(* unary table: "sub" is emitted as  sub r 0 x ;  "seqz" as  seqz r x  *)
Definition chip_unop (opcode : string) : option (float -> float) :=
  match opcode with
  | "sub" => Some (fun x => fbin Bsub (of_Z 0) x)
  | "seqz" => Some (fun x => of_bool FloatAlg (fcmp Ceq x (of_Z 0)))
  | "not" => Some (fun_ Unot)
  | _ => None
  end.

(* the tables the theorems are about (Props/C03.v proves the regenerated ones equal them) *)
Definition fl (e : pexpr) := PE e.
Definition model_binops : list (string * string * pexpr) := [
  ("+", "add", PBin PAdd (PE PX) (PE PY));
  ("-", "sub", PBin PSub (PE PX) (PE PY));
  ("*", "mul", PBin PMul (PE PX) (PE PY));
  ("/", "div", PBin PDiv (PE PX) (PE PY));
  ("%", "mod", PBin PMod (PE PX) (PE PY));
  ("**", "pow", PBin PPow (PE PX) (PE PY));
  ("and", "and", PBin PBitAnd (PInt (PE PX)) (PInt (PE PY)));
  ("or", "or", PBin PBitOr (PInt (PE PX)) (PInt (PE PY)));
  ("^", "xor", PBin PBitXor (PInt (PE PX)) (PInt (PE PY)));
  ("&", "and", PBin PBitAnd (PInt (PE PX)) (PInt (PE PY)));
  (">>", "srl", PBin PShr (PInt (PE PX)) (PInt (PE PY)));
  ("<<", "sll", PBin PShl (PInt (PE PX)) (PInt (PE PY)));
  ("==", "seq", PCmp Ceq PX PY);
  ("!=", "sne", PCmp Cne PX PY);
  ("<", "slt", PCmp Clt (PE PX) (PE PY));
  (">", "sgt", PCmp Cgt (PE PX) (PE PY));
  ("<=", "sle", PCmp Cle (PE PX) (PE PY));
  (">=", "sge", PCmp Cge (PE PX) (PE PY))].
Definition model_unops : list (string * string * pexpr) := [
  ("-", "sub", PNeg (PE PX));
  ("~", "neg", PInv (PE PX));
  ("not", "seqz", PInt (PNot (PE PX)))].

Definition cmp_of_suffix (s : string) : option cmp :=
  match s with
  | "eq" => Some Ceq | "ne" => Some Cne | "lt" => Some Clt | "le" => Some Cle
  | "gt" => Some Cgt | "ge" => Some Cge | _ => None
  end.
