(* Model of FunctionData.add_ra_instructions (compile_pass.py 48-112): where `push ra` / `pop ra`
   are inserted into the instruction list of a function.  Instructions are abstracted to the
   features the Python code looks at. *)
From Coq Require Import List Arith Bool Lia.
Import ListNotations.

Inductive ins :=
| Lab                (* the function's entry label (position 0) *)
| EndLab             (* '<name>end:' *)
| JEnd               (* 'j <name>end' : early return *)
| JRa                (* 'j ra' *)
| Call               (* any opcode ending in 'al' *)
| PopArg             (* 'pop rX' with an output register *)
| PushV              (* 'push <value>' *)
| PushRa | PopRa     (* the inserted instructions *)
| Other.

Definition ins_eqb (a b : ins) : bool :=
  match a, b with
  | Lab, Lab | EndLab, EndLab | JEnd, JEnd | JRa, JRa | Call, Call | PopArg, PopArg | PushV, PushV
  | PushRa, PushRa | PopRa, PopRa | Other, Other => true
  | _, _ => false
  end.

Fixpoint insert_at {X} (n : nat) (x : X) (l : list X) : list X :=
  match n, l with
  | O, _ => x :: l
  | S k, y :: r => y :: insert_at k x r
  | S k, [] => [x]                      (* list.insert beyond the end appends *)
  end.

Definition have_calls (c : list ins) : bool := existsb (fun i => match i with Call => true | _ => false end) c.
Definition have_returns (c : list ins) : bool := existsb (fun i => match i with JRa => true | _ => false end) c.

(* index of the LAST '<name>end:' (the loop keeps overwriting end_label_pos) *)
Fixpoint last_endlab (c : list ins) (i : nat) (acc : option nat) : option nat :=
  match c with
  | [] => acc
  | EndLab :: r => last_endlab r (S i) (Some i)
  | _ :: r => last_endlab r (S i) acc
  end.

(* fixed-slot convention *)
Definition add_ra_fixed (c : list ins) : option (list ins) :=
  if have_calls c && have_returns c then
    match last_endlab c 0 None with
    | Some e => Some (insert_at (e + 2) PopRa (insert_at 1 PushRa c))
    | None => None                     (* Python: TypeError (None + 2) *)
    end
  else Some c.

(* push/pop convention *)
Fixpoint leading_pops (c : list ins) : nat :=
  match c with PopArg :: r => S (leading_pops r) | _ => 0 end.

Fixpoint exit_points (c : list ins) (i : nat) : list nat :=
  match c with
  | [] => []
  | JEnd :: r | EndLab :: r => i :: exit_points r (S i)
  | _ :: r => exit_points r (S i)
  end.

Definition pop_pos (c : list ins) (pos : nat) : nat :=
  match pos with
  | O => 0
  | S k => match nth_error c k with Some PushV => k | _ => pos end
  end.

Fixpoint dedup (l : list nat) : list nat :=
  match l with [] => [] | x :: r => if existsb (Nat.eqb x) r then dedup r else x :: dedup r end.

(* insert at the given positions, highest position first (ties: the pushes of equal position keep
   Python's stable sort order: the 'push ra' entry comes first in all_inserts) *)
Fixpoint insert_sorted (p : nat * ins) (l : list (nat * ins)) : list (nat * ins) :=
  match l with
  | [] => [p]
  | q :: r => if Nat.leb (fst q) (fst p) then p :: l else q :: insert_sorted p r
  end.
Definition sort_desc (l : list (nat * ins)) : list (nat * ins) := fold_right insert_sorted [] l.

Definition add_ra_pushpop (c : list ins) : list ins :=
  if have_calls c && have_returns c then
    let nargs := leading_pops (tl c) in
    let pops := dedup (map (pop_pos c) (exit_points c 0)) in
    let inserts := (1 + nargs, PushRa) :: map (fun p => (p, PopRa)) pops in
    fold_left (fun acc pi => insert_at (fst pi) (snd pi) acc) (sort_desc inserts) c
  else c.
