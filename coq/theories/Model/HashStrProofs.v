From Coq Require Import ZArith NArith String Ascii List Bool Lia.
From PV Require Import Base.CRC32 Model.Tables Model.FormatNum Model.HashStr.
Import ListNotations.
Local Open Scope Z_scope.

(* ---------- xor with the sign bit ---------- *)
Lemma land_pow2_small c n : 0 <= n -> 0 <= c < 2 ^ n -> Z.land c (2 ^ n) = 0.
Proof.
  intros Hn [H0 H1]. apply Z.bits_inj'. intros i Hi.
  rewrite Z.land_spec, Z.bits_0, Z.pow2_bits_eqb by lia.
  destruct (Z.eqb_spec n i) as [<-|Hne]; [|apply andb_false_r].
  rewrite andb_true_r. destruct (Z.eq_dec c 0) as [->|Hc]; [apply Z.bits_0|].
  apply Z.bits_above_log2; [lia|]. apply Z.log2_lt_pow2; lia.
Qed.

Lemma lxor_sign_low c : 0 <= c < 2 ^ 31 -> Z.lxor c (2 ^ 31) = c + 2 ^ 31.
Proof.
  intros H. symmetry. apply Z.add_nocarry_lxor. apply land_pow2_small; lia.
Qed.
Lemma lxor_sign_high c : 2 ^ 31 <= c < 2 ^ 32 -> Z.lxor c (2 ^ 31) = c - 2 ^ 31.
Proof.
  intros H. set (d := c - 2 ^ 31). assert (0 <= d < 2 ^ 31) as Hd by (unfold d; lia).
  replace c with (d + 2 ^ 31) by (unfold d; lia).
  rewrite <- (lxor_sign_low d Hd) at 1. rewrite Z.lxor_assoc, Z.lxor_nilpotent, Z.lxor_0_r. lia.
Qed.

Theorem calc_hash_is_signed c : (c < 2 ^ 32)%N ->
  heval model_calc_hash (Z.of_N c) = signed32 c.
Proof.
  intros Hc. unfold signed32. cbn [heval model_calc_hash].
  change 2147483648 with (2 ^ 31). change (0x80000000%N) with (2 ^ 31)%N. change 0x100000000 with (2 ^ 32).
  assert (0 <= Z.of_N c < 2 ^ 32) as R by (change (2 ^ 32) with (Z.of_N (2 ^ 32)%N); lia).
  destruct (N.ltb_spec c (2 ^ 31)) as [L|L].
  - rewrite lxor_sign_low; [lia|]. change (2 ^ 31) with (Z.of_N (2 ^ 31)%N). lia.
  - rewrite lxor_sign_high; [lia|]. change (2 ^ 31) with (Z.of_N (2 ^ 31)%N). lia.
Qed.

(* CRC-32 values are 32-bit: the premise of the previous theorem always holds *)
Lemma shiftr_lt c : (c < 2 ^ 32)%N -> (N.shiftr c 1 < 2 ^ 31)%N.
Proof. intros H. rewrite N.shiftr_div_pow2. change (2 ^ 1)%N with 2%N. change (2 ^ 32)%N with 4294967296%N in H. change (2 ^ 31)%N with 2147483648%N. apply N.div_lt_upper_bound; lia. Qed.

Lemma lxor_lt32 a b : (a < 2 ^ 32)%N -> (b < 2 ^ 32)%N -> (N.lxor a b < 2 ^ 32)%N.
Proof.
  intros Ha Hb. destruct (N.eq_dec (N.lxor a b) 0) as [->|Hn]; [reflexivity|].
  apply N.log2_lt_pow2; [lia|].
  pose proof (N.log2_lxor a b) as HL.
  assert (N.log2 a < 32)%N as La by (destruct (N.eq_dec a 0) as [->|]; [reflexivity|apply N.log2_lt_pow2; lia]).
  assert (N.log2 b < 32)%N as Lb by (destruct (N.eq_dec b 0) as [->|]; [reflexivity|apply N.log2_lt_pow2; lia]).
  lia.
Qed.

Lemma crc_bits_lt n : forall c, (c < 2 ^ 32)%N -> (crc_bits n c < 2 ^ 32)%N.
Proof.
  induction n as [|n IH]; intros c Hc; [exact Hc|]. cbn [crc_bits]. apply IH.
  pose proof (shiftr_lt c Hc) as Hs.
  destruct (N.odd c).
  - apply lxor_lt32; [change (2 ^ 31)%N with 2147483648%N in Hs; change (2 ^ 32)%N with 4294967296%N; lia|reflexivity].
  - change (2 ^ 31)%N with 2147483648%N in Hs; change (2 ^ 32)%N with 4294967296%N; lia.
Qed.

Theorem crc32_lt bs : Forall (fun b => (b < 256)%N) bs -> (crc32_bytes bs < 2 ^ 32)%N.
Proof.
  intros HF. unfold crc32_bytes. apply lxor_lt32; [|reflexivity].
  assert (forall acc, (acc < 2 ^ 32)%N -> (fold_left crc_byte bs acc < 2 ^ 32)%N) as K.
  { induction HF as [|b bs Hb HF IH]; intros acc Ha; [exact Ha|]. cbn [fold_left]. apply IH.
    unfold crc_byte. apply crc_bits_lt. apply lxor_lt32; [exact Ha|].
    change (2 ^ 32)%N with 4294967296%N. lia. }
  apply K. reflexivity.
Qed.

Lemma bytes_of_string_lt s : Forall (fun b => (b < 256)%N) (bytes_of_string s).
Proof.
  unfold bytes_of_string. induction s as [|a s IH]; cbn; constructor; [|exact IH].
  apply N_ascii_bounded.
Qed.

Theorem calc_hash_of_string s :
  heval model_calc_hash (Z.of_N (crc32_bytes (bytes_of_string s))) = signed_crc s.
Proof. apply calc_hash_is_signed, crc32_lt, bytes_of_string_lt. Qed.

(* ---------- STR packing is the big-endian base-256 number ---------- *)
Lemma lor_shift8 v c : 0 <= v -> (c < 256)%N -> Z.lor (Z.shiftl v 8) (Z.of_N c) = v * 256 + Z.of_N c.
Proof.
  intros Hv Hc. rewrite Z.shiftl_mul_pow2 by lia. change (2 ^ 8) with 256.
  symmetry. rewrite Z.add_nocarry_lxor.
  - apply Z.lxor_lor. apply Z.bits_inj'. intros i Hi. rewrite Z.land_spec, Z.bits_0.
    destruct (Z.ltb_spec i 8) as [L|L].
    + replace (v * 256) with (v * 2 ^ 8) by reflexivity. rewrite Z.mul_pow2_bits_low by lia. reflexivity.
    + rewrite andb_comm. destruct (Z.eq_dec (Z.of_N c) 0) as [->|Hn]; [rewrite Z.bits_0; reflexivity|].
      rewrite (Z.bits_above_log2 (Z.of_N c) i); [reflexivity|lia|].
      assert (Z.log2 (Z.of_N c) < 8); [apply Z.log2_lt_pow2; [lia|change (2 ^ 8) with 256; lia]|lia].
  - apply Z.bits_inj'. intros i Hi. rewrite Z.land_spec, Z.bits_0.
    destruct (Z.ltb_spec i 8) as [L|L].
    + replace (v * 256) with (v * 2 ^ 8) by reflexivity. rewrite Z.mul_pow2_bits_low by lia. reflexivity.
    + rewrite andb_comm. destruct (Z.eq_dec (Z.of_N c) 0) as [->|Hn]; [rewrite Z.bits_0; reflexivity|].
      rewrite (Z.bits_above_log2 (Z.of_N c) i); [reflexivity|lia|].
      assert (Z.log2 (Z.of_N c) < 8); [apply Z.log2_lt_pow2; [lia|change (2 ^ 8) with 256; lia]|lia].
Qed.

Theorem str_pack_is_be256 s : str_pack s = be256 s.
Proof.
  unfold str_pack, be256. pose proof (bytes_of_string_lt s) as HF.
  assert (forall acc, 0 <= acc ->
     fold_left (fun v c => Z.lor (Z.shiftl v 8) (Z.of_N c)) (bytes_of_string s) acc =
     fold_left (fun v c => v * 256 + Z.of_N c) (bytes_of_string s) acc) as K.
  { induction HF as [|b bs Hb HF IH]; intros acc Ha; [reflexivity|]. cbn [fold_left].
    rewrite lor_shift8 by assumption. apply IH. lia. }
  apply K. lia.
Qed.

(* ---------- token values do not depend on the output mode ---------- *)
Lemma prefix_app p s : String.prefix p (p ++ s) = true.
Proof. induction p as [|a p IH]; cbn; [destruct s; reflexivity|]. destruct (ascii_dec a a); [exact IH|contradiction]. Qed.

Lemma substring_app_drop p s : String.substring (String.length p) (String.length (p ++ s) - String.length p) (p ++ s) = s.
Proof.
  induction p as [|a p IH]; cbn.
  - rewrite Nat.sub_0_r. induction s as [|b s IHs]; cbn; [reflexivity|]. f_equal. exact IHs.
  - exact IH.
Qed.

Lemma app_sfx_nonempty n : (n ++ """)")%string <> EmptyString.
Proof. destruct n; discriminate. Qed.

Lemma drop_last2_app n : drop_last2 (n ++ """)") = n.
Proof.
  induction n as [|a n IH]; [reflexivity|].
  destruct n as [|b n'].
  - reflexivity.
  - change ((String a (String b n') ++ """)")%string) with (String a (String b (n' ++ """)"))).
    change (String b n' ++ """)")%string with (String b (n' ++ """)")) in IH.
    pose proof (app_sfx_nonempty n') as NE.
    cbn [drop_last2]. destruct (n' ++ """)")%string as [|c r] eqn:E; [contradiction|].
    f_equal. exact IH.
Qed.

Lemma inner_hash n : inner "HASH(""" (hash_text n) = Some n.
Proof.
  unfold inner, hash_text. rewrite prefix_app, substring_app_drop, drop_last2_app. reflexivity.
Qed.
Lemma inner_str n : inner "STR(""" (str_text n) = Some n.
Proof.
  unfold inner, str_text. rewrite prefix_app, substring_app_drop, drop_last2_app. reflexivity.
Qed.
Lemma str_text_not_hash n : inner "HASH(""" (str_text n) = None.
Proof. reflexivity. Qed.

(* a formatted integer is neither a HASH nor a STR token *)
Lemma format_int_plain hashes z :
  inner "HASH(""" (format_int hashes z) = None /\ inner "STR(""" (format_int hashes z) = None.
Proof.
  unfold format_int. destruct ((z <=? 10000) || zmem z hashes).
  - unfold dec_str. destruct z as [|p|p]; cbn; try (split; reflexivity).
    destruct (Pos.to_uint p); cbn; split; reflexivity.
  - split; reflexivity.
Qed.

Theorem hash_token_value_mode_independent hashes name m :
  tok_value (print_rendered hashes (compute_hash name m)) = Some (signed_crc name).
Proof.
  unfold compute_hash, apply_output_mode.
  assert (tok_value (hash_text name) = Some (signed_crc name)) as T by (unfold tok_value; rewrite inner_hash; reflexivity).
  assert (tok_value (format_int hashes (signed_crc name)) = Some (signed_crc name)) as F.
  { unfold tok_value. destruct (format_int_plain hashes (signed_crc name)) as [-> ->]. apply format_int_roundtrip. }
  destruct m; cbn [print_rendered]; auto.
  destruct (Nat.ltb _ _); cbn [print_rendered]; auto.
Qed.

Theorem str_token_value_mode_independent hashes s m :
  tok_value (print_rendered hashes (compute_string s m)) = Some (be256 s).
Proof.
  unfold compute_string, apply_output_mode.
  assert (tok_value (str_text s) = Some (be256 s)) as T.
  { unfold tok_value. rewrite str_text_not_hash, inner_str. reflexivity. }
  assert (tok_value (format_int hashes (str_pack s)) = Some (be256 s)) as F.
  { unfold tok_value. destruct (format_int_plain hashes (str_pack s)) as [-> ->].
    rewrite format_int_roundtrip, str_pack_is_be256. reflexivity. }
  destruct m; cbn [print_rendered]; auto.
  destruct (Nat.ltb _ _); cbn [print_rendered]; auto.
Qed.
