(* Soundness of the outcome analysis: every concrete execution of a skeleton is covered by an
   element of `outs`. *)
From Coq Require Import List String Bool Arith Lia.
From PV Require Import Model.Skel Model.SkelSem.
Import ListNotations.

Scheme exec_min := Minimality for exec Sort Prop
  with exec_seq_min := Minimality for exec_seq Sort Prop
  with handled_min := Minimality for handled Sort Prop.
Combined Scheme exec_mutind from exec_min, exec_seq_min, handled_min.

Definition absr (a : option bool) (nn : bool) : Prop := match a with Some b => b = nn | None => True end.
Definition cnt_ok (c : cnt) (d : nat) : Prop := match c with C0 => d = 0 | C1 => d = 1 | CMany => True end.

(* the list l covers a concrete execution from s to s' with outcome o *)
Definition covers (l : list ares) (o : outcome) (s s' : cstate) : Prop :=
  exists a' c, In (o, a', c) l /\ absr a' (fst s') /\ cnt_ok c (snd s' - snd s) /\ snd s <= snd s'.

Lemma cadd_ok c1 c2 d1 d2 : cnt_ok c1 d1 -> cnt_ok c2 d2 -> cnt_ok (cadd c1 c2) (d1 + d2).
Proof. destruct c1, c2; cbn; intros; subst; try lia; auto. Qed.

Section S.
Variable E : aenv.

Lemma covers_raise e a x s rest : In x (raises E e) -> absr a (fst s) ->
  covers (raise_outs E e a ++ rest) (ORaise x) s s.
Proof.
  intros Hin Ha. exists a, C0. repeat split; try (cbn; lia); auto.
  apply in_or_app; left. unfold raise_outs. apply in_map_iff. exists x. auto.
Qed.

Lemma covers_app_r l1 l2 o s s' : covers l2 o s s' -> covers (l1 ++ l2) o s s'.
Proof. intros (a & c & H & R). exists a, c. split; [apply in_or_app; right; exact H|exact R]. Qed.
Lemma covers_app_l l1 l2 o s s' : covers l1 o s s' -> covers (l1 ++ l2) o s s'.
Proof. intros (a & c & H & R). exists a, c. split; [apply in_or_app; left; exact H|exact R]. Qed.

Lemma covers_one o a c s s' : absr a (fst s') -> cnt_ok c (snd s' - snd s) -> snd s <= snd s' ->
  covers [(o, a, c)] o s s'.
Proof. intros. exists a, c. repeat split; auto. left; reflexivity. Qed.

(* ---- loops ---- *)
Lemma all_c0_in B r : all_c0 B = true -> In r B -> snd r = C0.
Proof.
  unfold all_c0. rewrite forallb_forall. intros H Hin. specialize (H r Hin).
  destruct r as [[o a] c]. destruct c; try discriminate. reflexivity.
Qed.

Definition loop_c (B : list ares) : cnt := if all_c0 B then C0 else CMany.

Lemma loop_c_ok B o1 s s1 d : covers B o1 s s1 -> cnt_ok (loop_c B) d -> cnt_ok (loop_c B) ((snd s1 - snd s) + d).
Proof.
  intros (a & c & Hin & _ & Hc & _) Hd. unfold loop_c in *. destruct (all_c0 B) eqn:K; [|exact I].
  pose proof (all_c0_in B _ K Hin) as E0. cbn in E0. subst c. cbn in *. lia.
Qed.

Lemma loop_normal head B s s' : cnt_ok (loop_c B) (snd s' - snd s) -> snd s <= snd s' ->
  covers (loop_outs E head B) ONormal s s'.
Proof.
  intros Hc Hle. unfold loop_outs. apply covers_app_r. apply covers_app_l.
  fold (loop_c B). apply covers_one; auto. exact I.
Qed.

Lemma loop_exit head B o s s' : (o = OReturn \/ exists x, o = ORaise x) ->
  (exists a c, In (o, a, c) B) -> cnt_ok (loop_c B) (snd s' - snd s) -> snd s <= snd s' ->
  covers (loop_outs E head B) o s s'.
Proof.
  intros Ho (a & c & Hin) Hc Hle. unfold loop_outs. apply covers_app_r. apply covers_app_r.
  exists None, (loop_c B). repeat split; auto.
  apply in_flat_map. exists (o, a, c). split; [exact Hin|].
  destruct Ho as [->|[x ->]]; left; reflexivity.
Qed.

Lemma loop_head_raise head B x s s' : In x (raises E head) -> cnt_ok (loop_c B) (snd s' - snd s) -> snd s <= snd s' ->
  covers (loop_outs E head B) (ORaise x) s s'.
Proof.
  intros Hx Hc Hle. unfold loop_outs. apply covers_app_l. exists None, (loop_c B). repeat split; auto.
  apply in_map_iff. exists x. auto.
Qed.

(* every element of loop_outs carries the count loop_c B and the unknown status *)
Lemma loop_outs_elem head B o a c : In (o, a, c) (loop_outs E head B) -> a = None /\ c = loop_c B.
Proof.
  unfold loop_outs. intros H. apply in_app_or in H as [H|H].
  - apply in_map_iff in H as (x & Hx & _). injection Hx as <- <- <-. auto.
  - destruct H as [H|H]; [injection H as <- <- <-; auto|].
    apply in_flat_map in H as ([[o1 a1] c1] & _ & H). destruct o1; cbn in H; try contradiction;
      destruct H as [H|[]]; injection H as <- <- <-; auto.
Qed.

(* one more covered iteration in front of a covered rest of the loop *)
Lemma loop_prepend head B o1 s s1 o s' :
  covers B o1 s s1 -> covers (loop_outs E head B) o s1 s' -> covers (loop_outs E head B) o s s'.
Proof.
  intros HB (a & c & Hin & Ha & Hc & Hle).
  assert (snd s <= snd s1) as L1 by (destruct HB as (? & ? & _ & _ & _ & L); exact L).
  destruct (loop_outs_elem _ _ _ _ _ Hin) as [-> ->].
  exists None, (loop_c B). repeat split; auto; [|lia].
  pose proof (loop_c_ok B o1 s s1 (snd s' - snd s1) HB Hc) as K.
  replace (snd s' - snd s) with (snd s1 - snd s + (snd s' - snd s1)) by lia. exact K.
Qed.

Lemma c0_zero B : cnt_ok (loop_c B) 0.
Proof. unfold loop_c. destruct (all_c0 B); cbn; auto. Qed.

(* ---- the three mutual statements ---- *)
Definition P_exec (s : cstate) (sk : skel) (o : outcome) (s' : cstate) : Prop :=
  forall a, absr a (fst s) -> covers (outs E sk a) o s s'.
Definition P_seq (s : cstate) (l : list skel) (o : outcome) (s' : cstate) : Prop :=
  forall a, absr a (fst s) -> covers (seq_outs (outs E) l a) o s s'.
(* handled: starting from an element (o1,a1,c1) that covers s0 -> s1, some element of the
   handler step applied to it covers s0 -> s2 *)
Definition P_handled (hs : list (string * skel)) (o1 : outcome) (s1 : cstate) (o2 : outcome) (s2 : cstate) : Prop :=
  forall s0 a1 c1, absr a1 (fst s1) -> cnt_ok c1 (snd s1 - snd s0) -> snd s0 <= snd s1 ->
    covers (after_handlers (hmap (outs E) hs) [(o1, a1, c1)]) o2 s0 s2.

Lemma pick_hmap hs x : pick (hmap (outs E) hs) x = option_map (outs E) (find_handler hs x).
Proof.
  induction hs as [|[n h] r IH]; cbn; [reflexivity|]. destruct (catches n x); [reflexivity|exact IH].
Qed.

Lemma covers_addc l o s0 s1 s2 c1 :
  cnt_ok c1 (snd s1 - snd s0) -> snd s0 <= snd s1 -> covers l o s1 s2 -> covers (map (addc c1) l) o s0 s2.
Proof.
  intros Hc1 L (a & c & Hin & Ha & Hc & Hle). exists a, (cadd c1 c). repeat split; auto; [| |lia].
  - apply in_map_iff. exists (o, a, c). split; [reflexivity|exact Hin].
  - replace (snd s2 - snd s0) with ((snd s1 - snd s0) + (snd s2 - snd s1)) by lia. apply cadd_ok; assumption.
Qed.

Theorem outs_sound_all :
  (forall s sk o s', exec E s sk o s' -> P_exec s sk o s') /\
  (forall s l o s', exec_seq E s l o s' -> P_seq s l o s') /\
  (forall hs o1 s1 o2 s2, handled E hs o1 s1 o2 s2 -> P_handled hs o1 s1 o2 s2).
Proof.
  apply (exec_mutind E P_exec P_seq P_handled); unfold P_exec, P_seq, P_handled.
  - (* expr raise *) intros s e x Hx a Ha. cbn [outs]. apply covers_raise; assumption.
  - (* expr *) intros s e a Ha. cbn [outs]. apply covers_app_r. apply covers_one; cbn [fst snd]; auto.
    + destruct (is_print E e); unfold cnt_ok; lia.
    + destruct (is_print E e); lia.
  - intros s t e x Hx a Ha. cbn [outs]. apply covers_raise; assumption.
  - (* assign *) intros s t e a Ha. cbn [outs]. apply covers_app_r. apply covers_one; cbn; try lia.
    destruct (String.eqb t (tracked E)); cbn; auto.
  - intros s e x Hx a Ha. cbn [outs]. apply covers_raise; assumption.
  - intros s e a Ha. cbn [outs]. apply covers_app_r. apply covers_one; cbn; auto; lia.
  - intros s e a Ha. cbn [outs]. apply covers_one; cbn; auto; lia.
  - intros s a Ha. cbn [outs]. apply covers_one; cbn; auto; lia.
  - intros s a Ha. cbn [outs]. apply covers_one; cbn; auto; lia.
  - intros s a Ha. cbn [outs]. apply covers_one; cbn; auto; lia.
  - intros s a Ha. cbn [outs]. apply covers_one; cbn; auto; lia.
  - (* if raise *) intros s c x y e Hx a Ha. cbn [outs]. apply covers_raise; assumption.
  - (* if true *) intros s c x y o s' [Hm1 Hm2] _ IH a Ha. cbn [outs]. apply covers_app_r.
    destruct a as [b|]; cbn in Ha.
    + subst b. destruct (cond_val E c (Some (fst s))) as [[|]|].
      * apply IH; reflexivity.
      * discriminate Hm1.
      * apply covers_app_l, IH; reflexivity.
    + destruct (cond_val E c None) as [[|]|].
      * apply IH; exact I.
      * discriminate Hm2.
      * apply covers_app_l, IH; exact I.
  - (* if false *) intros s c x y o s' [Hm1 Hm2] _ IH a Ha. cbn [outs]. apply covers_app_r.
    destruct a as [b|]; cbn in Ha.
    + subst b. destruct (cond_val E c (Some (fst s))) as [[|]|].
      * discriminate Hm1.
      * apply IH; reflexivity.
      * apply covers_app_r, IH; reflexivity.
    + destruct (cond_val E c None) as [[|]|].
      * discriminate Hm2.
      * apply IH; exact I.
      * apply covers_app_r, IH; exact I.
  - (* seq *) intros s l o s' _ IH a Ha. cbn [outs]. apply IH. exact Ha.
  - (* while raise *) intros s c body x Hx a Ha. cbn [outs]. apply loop_head_raise; auto.
    rewrite Nat.sub_diag. apply c0_zero.
  - (* while done *) intros s c body a Ha. cbn [outs]. apply loop_normal; auto. rewrite Nat.sub_diag. apply c0_zero.
  - (* while iter *) intros s c body o1 s1 o s' _ IH1 _ _ IH2 a Ha. cbn [outs].
    eapply loop_prepend; [apply (IH1 None I)|]. specialize (IH2 None I). cbn [outs] in IH2. exact IH2.
  - (* while break *) intros s c body s1 _ IH a Ha. cbn [outs].
    pose proof (IH None I) as HB.
    eapply loop_prepend; [exact HB|]. apply loop_normal; auto. rewrite Nat.sub_diag. apply c0_zero.
  - (* while exit *) intros s c body o1 s1 _ IH Ho a Ha. cbn [outs].
    pose proof (IH None I) as HB. destruct HB as (a1 & c1 & Hin & Ha1 & Hc & Hle).
    eapply loop_prepend; [exists a1, c1; split; [exact Hin|split; [exact Ha1|split; [exact Hc|exact Hle]]]|].
    apply loop_exit; eauto. rewrite Nat.sub_diag. apply c0_zero.
  - (* for raise *) intros s t it body x Hx a Ha. cbn [outs]. apply loop_head_raise; auto.
    rewrite Nat.sub_diag. apply c0_zero.
  - intros s t it body a Ha. cbn [outs]. apply loop_normal; auto. rewrite Nat.sub_diag. apply c0_zero.
  - intros s t it body o1 s1 o s' _ IH1 _ _ IH2 a Ha. cbn [outs].
    eapply loop_prepend; [apply (IH1 None I)|]. specialize (IH2 None I). cbn [outs] in IH2. exact IH2.
  - intros s t it body s1 _ IH a Ha. cbn [outs].
    pose proof (IH None I) as HB.
    eapply loop_prepend; [exact HB|]. apply loop_normal; auto. rewrite Nat.sub_diag. apply c0_zero.
  - intros s t it body o1 s1 _ IH Ho a Ha. cbn [outs].
    pose proof (IH None I) as HB. destruct HB as (a1 & c1 & Hin & Ha1 & Hc & Hle).
    eapply loop_prepend; [exists a1, c1; split; [exact Hin|split; [exact Ha1|split; [exact Hc|exact Hle]]]|].
    apply loop_exit; eauto. rewrite Nat.sub_diag. apply c0_zero.
  - (* try *) intros s body hs fin o1 s1 o2 s2 o3 s3 _ IHb _ IHh _ IHf a Ha. cbn [outs].
    destruct (IHb a Ha) as (a1 & c1 & Hin1 & Ha1 & Hc1 & L1).
    destruct (IHh s a1 c1 Ha1 Hc1 L1) as (a2 & c2 & Hin2 & Ha2 & Hc2 & L2).
    destruct (IHf a2 Ha2) as (a3 & c3 & Hin3 & Ha3 & Hc3 & L3).
    exists a3, (cadd c2 c3). repeat split; auto; [| |lia].
    + unfold with_finally. apply in_flat_map. exists (o2, a2, c2). split.
      * (* (o2,a2,c2) is in after_handlers of the whole body list *)
        unfold after_handlers in *. apply in_flat_map. exists (o1, a1, c1). split; [exact Hin1|].
        apply in_flat_map in Hin2 as (r & [<-|[]] & Hr). exact Hr.
      * apply in_map_iff. exists (o3, a3, c3). split; [reflexivity|exact Hin3].
    + replace (snd s3 - snd s) with ((snd s2 - snd s) + (snd s3 - snd s2)) by lia. apply cadd_ok; assumption.
  - (* seq nil *) intros s a Ha. cbn. apply covers_one; cbn; auto; lia.
  - (* seq stop *) intros s x r o s' _ IH Hne a Ha. cbn [seq_outs].
    destruct (IH a Ha) as (a1 & c1 & Hin & Ha1 & Hc & Hle). exists a1, c1. repeat split; auto.
    apply in_flat_map. exists (o, a1, c1). split; [exact Hin|]. destruct o; try (left; reflexivity). contradiction.
  - (* seq cons *) intros s x r s1 o s' _ IH1 _ IH2 a Ha. cbn [seq_outs].
    destruct (IH1 a Ha) as (a1 & c1 & Hin1 & Ha1 & Hc1 & L1).
    pose proof (covers_addc _ _ s s1 s' c1 Hc1 L1 (IH2 a1 Ha1)) as (a2 & c2 & Hin2 & R).
    exists a2, c2. split; [|exact R]. apply in_flat_map. exists (ONormal, a1, c1). split; [exact Hin1|exact Hin2].
  - (* handled: not a raise *) intros hs o s Hnr s0 a1 c1 Ha1 Hc1 L1. unfold after_handlers. cbn [flat_map]. rewrite app_nil_r.
    exists a1, c1. repeat split; auto. destruct o; try (left; reflexivity). exfalso; eapply Hnr; reflexivity.
  - (* uncaught *) intros hs x s Hf s0 a1 c1 Ha1 Hc1 L1. unfold after_handlers. cbn [flat_map]. rewrite app_nil_r.
    rewrite pick_hmap, Hf. cbn. exists a1, c1. repeat split; auto. left; reflexivity.
  - (* caught *) intros hs x s h o s' Hf _ IH s0 a1 c1 Ha1 Hc1 L1. unfold after_handlers. cbn [flat_map]. rewrite app_nil_r.
    rewrite pick_hmap, Hf. cbn [option_map]. apply (covers_addc _ _ s0 s s' c1 Hc1 L1). apply IH. exact Ha1.
Qed.

(* the statement used by the property files *)
Theorem outs_sound s sk o s' : exec E s sk o s' -> forall a, absr a (fst s) ->
  exists a' c, In (o, a', c) (outs E sk a) /\ absr a' (fst s') /\ cnt_ok c (snd s' - snd s).
Proof.
  intros H a Ha. destruct (proj1 outs_sound_all s sk o s' H a Ha) as (a' & c & H1 & H2 & H3 & _). eauto.
Qed.

End S.
