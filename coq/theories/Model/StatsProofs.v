From Coq Require Import List NArith ZArith Bool String Lia.
From PV Require Import Base.PyStr Model.Stats.
Import ListNotations.

(* does the text, continued from a current line that is (non)empty, end in an open line? *)
Fixpoint ends_open (l : pystr) (b : bool) : bool :=
  match l with [] => b | c :: r => ends_open r (negb (N.eqb c 10)) end.

Lemma count_nl_cons c r : count_nl (c :: r) = ((if N.eqb c 10 then 1 else 0) + count_nl r)%nat.
Proof. unfold count_nl, count_char. cbn. destruct (N.eqb c 10); reflexivity. Qed.

Lemma splitlines_aux_len l : forall cur,
  (forall c, In c l -> is_lb c = true -> c = 10%N) ->
  List.length (splitlines_aux l cur false) =
  count_nl l + (if ends_open l (negb (match cur with [] => true | _ => false end)) then 1 else 0).
Proof.
  induction l as [|c r IH]; intros cur Hlb.
  - cbn. destruct cur; reflexivity.
  - cbn [splitlines_aux andb]. rewrite count_nl_cons. cbn [ends_open].
    destruct (is_lb c) eqn:E.
    + assert (c = 10%N) as -> by (apply Hlb; [left; reflexivity|exact E]).
      replace (10 =? 13)%N with false by reflexivity. replace (10 =? 10)%N with true by reflexivity.
      cbn [List.length negb]. rewrite IH by (intros; apply Hlb; [right|]; assumption). cbn. lia.
    + assert (N.eqb c 10 = false) as Hc.
      { destruct (N.eqb c 10) eqn:X; [|reflexivity]. apply N.eqb_eq in X. subst. discriminate E. }
      rewrite Hc. rewrite IH by (intros; apply Hlb; [right|]; assumption). cbn. reflexivity.
Qed.

Lemma ends_open_last l : forall b, l <> [] -> ends_open l b = negb (N.eqb (last l 0%N) 10).
Proof.
  induction l as [|c r IH]; intros b H; [congruence|].
  destruct r as [|c2 r']; [reflexivity|].
  cbn [ends_open]. cbn [ends_open] in IH. rewrite (IH (negb (N.eqb c 10))) by discriminate. reflexivity.
Qed.

Theorem splitlines_line_count s : plain_text s -> List.length (splitlines s) = line_count s.
Proof.
  intros (Hne & Hlb & Hlast). unfold splitlines, line_count.
  rewrite splitlines_aux_len by exact Hlb. rewrite ends_open_last by exact Hne.
  destruct (N.eqb (last s 0%N) 10) eqn:E; [apply N.eqb_eq in E; congruence|reflexivity].
Qed.

Theorem stats_meaning s nregs : plain_text s ->
  let r := run_stats s nregs model_stats [] in
  lookupZ "num_lines" r = Z.of_nat (line_count s) /\
  lookupZ "num_bytes" r = Z.of_nat (crlf_size s) /\
  lookupZ "num_registers" r = Z.of_nat nregs.
Proof.
  intros H. cbn. rewrite (splitlines_line_count s H). unfold crlf_size, line_count. repeat split; lia.
Qed.

(* the empty program: no lines, no bytes *)
Lemma stats_empty nregs :
  let r := run_stats [] nregs model_stats [] in
  lookupZ "num_lines" r = 0%Z /\ lookupZ "num_bytes" r = Z.of_nat (crlf_size []).
Proof. split; reflexivity. Qed.
