(* Model of register_assignment.py: interval colouring (assign_colors), topological ordering of
   scopes by "called from", and the assignment of physical registers per scope. *)
From Coq Require Import List ZArith Bool Arith.
Import ListNotations.
Local Open Scope Z_scope.

(* ------------------------------------------------------------ assign_colors *)
(* a symbol: identifier, lifetime [start, stop) *)
Record sym := { s_id : nat; s_start : Z; s_stop : Z }.

(* sorted(symbols, key=start): stable insertion sort *)
Fixpoint insert_by_start (x : sym) (l : list sym) : list sym :=
  match l with
  | [] => [x]
  | y :: r => if s_start y <? s_start x then y :: insert_by_start x r else x :: l
  end.
(* fold_right keeps equal keys in their original order *)
Definition sort_by_start (l : list sym) : list sym := fold_right insert_by_start [] l.

Record cst := { active : list (Z * nat); free : list nat; next : nat }.

(* expire: colours of intervals that ended are appended to the pool in the order met *)
Fixpoint expire (start : Z) (act : list (Z * nat)) (fr : list nat) : list (Z * nat) * list nat :=
  match act with
  | [] => ([], fr)
  | (e, c) :: act' =>
      if e <=? start then expire start act' (fr ++ [c])
      else let '(still, fr') := expire start act' fr in ((e, c) :: still, fr')
  end.

(* free_colors.pop(): the LAST element *)
Definition pop_last (l : list nat) : option (nat * list nat) :=
  match rev l with [] => None | c :: r => Some (c, rev r) end.

Definition cstep (s : cst) (x : sym) : cst * nat :=
  let '(still, fr) := expire (s_start x) (active s) (free s) in
  match pop_last fr with
  | Some (c, fr') => ({| active := still ++ [(s_stop x, c)]; free := fr'; next := next s |}, c)
  | None => ({| active := still ++ [(s_stop x, next s)]; free := fr; next := S (next s) |}, next s)
  end.

Fixpoint crun (s : cst) (l : list sym) : list (nat * nat) :=      (* (symbol id, colour) *)
  match l with
  | [] => []
  | x :: l' => let '(s', c) := cstep s x in (s_id x, c) :: crun s' l'
  end.

Definition assign_colors (l : list sym) : list (nat * nat) :=
  crun {| active := []; free := []; next := 0 |} (sort_by_start l).

Fixpoint colour_of (m : list (nat * nat)) (id : nat) : option nat :=
  match m with [] => None | (i, c) :: r => if Nat.eqb i id then Some c else colour_of r id end.

(* ------------------------------------------------------------ scope ordering *)
(* called_from: scope -> scopes it is called from.  The Python loop repeatedly picks some scope
   all of whose callers are already placed; the model picks the first such scope in list order. *)
Fixpoint nmem (x : nat) (l : list nat) : bool :=
  match l with [] => false | y :: r => Nat.eqb x y || nmem x r end.
Definition subset (a b : list nat) : bool := forallb (fun x => nmem x b) a.

Definition callers (cf : list (nat * list nat)) (s : nat) : list nat :=
  match find (fun p => Nat.eqb (fst p) s) cf with Some p => snd p | None => [] end.

Fixpoint pick_ready (cf : list (nat * list nat)) (todo placed : list nat) : option nat :=
  match todo with
  | [] => None
  | s :: r => if subset (callers cf s) placed then Some s else pick_ready cf r placed
  end.

Fixpoint remove_one (x : nat) (l : list nat) : list nat :=
  match l with [] => [] | y :: r => if Nat.eqb x y then r else y :: remove_one x r end.

Fixpoint sort_scopes (fuel : nat) (cf : list (nat * list nat)) (todo placed : list nat) : option (list nat) :=
  match todo with
  | [] => Some placed
  | _ =>
      match fuel with
      | O => None
      | S k => match pick_ready cf todo placed with
               | Some s => sort_scopes k cf (remove_one s todo) (placed ++ [s])
               | None => None                  (* RuntimeError: cannot sort scopes (a call cycle) *)
               end
      end
  end.

(* ------------------------------------------------------------ register assignment per scope *)
(* available = [0..15] minus the registers blocked by the (direct) callers' scopes;
   symbol with colour c gets available[c]; c >= |available| is the out-of-registers error *)
Definition all16 : list nat := seq 0 16.
Definition minus (a b : list nat) : list nat := filter (fun x => negb (nmem x b)) a.

Fixpoint scope_regs (avail : list nat) (colours : list (nat * nat)) : option (list (nat * nat)) :=
  match colours with
  | [] => Some []
  | (id, c) :: r => match nth_error avail c, scope_regs avail r with
                    | Some reg, Some m => Some ((id, reg) :: m)
                    | _, _ => None
                    end
  end.
