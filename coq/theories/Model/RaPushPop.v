(* add_ra_instructions, push/pop convention: what the insertions amount to.
   Inserting at strictly descending positions is the same as decorating the original list: before
   the element with original index i stand exactly the elements scheduled for position i. *)
From Coq Require Import List Arith Bool Lia.
From PV Require Import Model.RaInsert.
Import ListNotations.

Section Gen.
Context {X : Type}.

(* elements scheduled for position i *)
Definition at_pos (L : list (nat * X)) (i : nat) : list X :=
  map snd (filter (fun q => Nat.eqb (fst q) i) L).

Fixpoint decorate (f : nat -> list X) (c : list X) (i : nat) : list X :=
  match c with
  | [] => f i
  | x :: r => f i ++ x :: decorate f r (S i)
  end.

Lemma insert_at_0 (x : X) c : insert_at 0 x c = x :: c.
Proof. destruct c; reflexivity. Qed.

Lemma decorate_ext f g c : forall i, (forall j, i <= j -> f j = g j) -> decorate f c i = decorate g c i.
Proof.
  induction c as [|y r IH]; intros i H; cbn.
  - apply H. lia.
  - rewrite (H i) by lia. rewrite (IH (S i)); [reflexivity|]. intros j Hj. apply H. lia.
Qed.

Lemma decorate_nil f : forall (c : list X) i, (forall j, i <= j -> f j = []) -> decorate f c i = c.
Proof.
  induction c as [|y r IH]; intros i H; cbn.
  - apply H. lia.
  - rewrite (H i) by lia. cbn. f_equal. apply IH. intros j Hj. apply H. lia.
Qed.

(* inserting x at position p (counted from offset i) into a list decorated by f, where f schedules
   nothing at or after p, is decorating with x added at p *)
Lemma decorate_insert f (x : X) : forall c i p,
  i <= p -> p <= i + length c -> (forall j, p <= j -> f j = []) ->
  decorate f (insert_at (p - i) x c) i = decorate (fun j => if Nat.eqb j p then x :: f j else f j) c i.
Proof.
  induction c as [|y r IH]; intros i p Hip Hlen Hf.
  - cbn in Hlen. assert (p = i) by lia. subst p. rewrite Nat.sub_diag. cbn.
    rewrite Nat.eqb_refl. rewrite (Hf i) by lia. rewrite (Hf (S i)) by lia. reflexivity.
  - destruct (Nat.eq_dec p i) as [->|Hne].
    + rewrite Nat.sub_diag. rewrite insert_at_0.
      rewrite (decorate_nil f (x :: y :: r) i Hf).
      cbn [decorate]. rewrite Nat.eqb_refl. rewrite (Hf i) by lia. cbn [app]. f_equal. f_equal.
      symmetry. apply decorate_nil. intros j Hj.
      destruct (Nat.eqb j i) eqn:E; [apply Nat.eqb_eq in E; lia|]. apply Hf. lia.
    + assert (p - i = S (p - S i)) as -> by lia. cbn [insert_at decorate].
      destruct (Nat.eqb i p) eqn:E; [apply Nat.eqb_eq in E; lia|].
      f_equal. f_equal. apply IH; [lia|cbn in Hlen; lia|exact Hf].
Qed.

Definition ins_step (acc : list X) (q : nat * X) : list X := insert_at (fst q) (snd q) acc.

Fixpoint desc (L : list (nat * X)) : Prop :=
  match L with
  | [] => True
  | q :: r => (forall q', In q' r -> fst q' < fst q) /\ desc r
  end.

Lemma at_pos_nil_above L p : (forall q, In q L -> fst q < p) -> forall j, p <= j -> at_pos L j = [].
Proof.
  intros H j Hj. unfold at_pos. induction L as [|q r IH]; [reflexivity|]. cbn.
  destruct (Nat.eqb (fst q) j) eqn:E.
  - apply Nat.eqb_eq in E. specialize (H q (or_introl eq_refl)). lia.
  - apply IH. intros q' Hq'. apply H. right. exact Hq'.
Qed.

Lemma insert_at_length (x : X) : forall c p, length (insert_at p x c) = S (length c).
Proof.
  induction c as [|y r IH]; intros [|p]; cbn; try reflexivity. rewrite IH. reflexivity.
Qed.

Theorem descending_inserts_decorate : forall L c,
  desc L -> (forall q, In q L -> fst q <= length c) ->
  fold_left ins_step L c = decorate (at_pos L) c 0.
Proof.
  induction L as [|[p x] L IH]; intros c Hd Hlen.
  - cbn. induction c as [|y r IHc] in |- *; [reflexivity|]. cbn.
    assert (forall r i, decorate (at_pos []) r i = r) as K.
    { induction r0 as [|z r0 IHr]; intros i; cbn; [reflexivity|]. rewrite IHr. reflexivity. }
    rewrite K. reflexivity.
  - cbn [fold_left]. unfold ins_step at 2. cbn [fst snd]. destruct Hd as [Hlt Hd].
    rewrite IH; [|exact Hd|].
    + assert (p <= length c) as Hp by (apply (Hlen (p, x)); left; reflexivity).
      pose proof (decorate_insert (at_pos L) x c 0 p (Nat.le_0_l p)) as D.
      rewrite Nat.sub_0_r in D. rewrite D; [|cbn; lia|apply (at_pos_nil_above L p); intros q Hq; exact (Hlt q Hq)].
      apply decorate_ext. intros j _. unfold at_pos. cbn [filter fst].
      destruct (Nat.eqb p j) eqn:E.
      * apply Nat.eqb_eq in E. subst j. rewrite Nat.eqb_refl. reflexivity.
      * destruct (Nat.eqb j p) eqn:E2; [apply Nat.eqb_eq in E2; subst; rewrite Nat.eqb_refl in E; discriminate|]. reflexivity.
    + intros q Hq. rewrite insert_at_length. specialize (Hlt q Hq). cbn [fst] in Hlt.
      assert (p <= length c) by (apply (Hlen (p, x)); left; reflexivity). lia.
Qed.
End Gen.

(* ---------------------------------------------------------------- the sort of the model *)
From Coq Require Import Permutation.

Lemma insert_sorted_perm (p : nat * ins) : forall l, Permutation (insert_sorted p l) (p :: l).
Proof.
  induction l as [|q r IH]; cbn; [apply Permutation_refl|].
  destruct (Nat.leb (fst q) (fst p)); [apply Permutation_refl|].
  eapply Permutation_trans; [apply perm_skip; exact IH|apply perm_swap].
Qed.
Lemma sort_desc_perm : forall l, Permutation (sort_desc l) l.
Proof.
  induction l as [|p r IH]; cbn; [constructor|].
  eapply Permutation_trans; [apply insert_sorted_perm|]. apply perm_skip. exact IH.
Qed.

(* weakly descending *)
Fixpoint wdesc (L : list (nat * ins)) : Prop :=
  match L with
  | [] => True
  | q :: r => (forall q', In q' r -> fst q' <= fst q) /\ wdesc r
  end.
Lemma insert_sorted_wdesc p : forall l, wdesc l -> wdesc (insert_sorted p l).
Proof.
  induction l as [|q r IH]; intros H; cbn.
  - split; [intros ? []|exact I].
  - destruct H as [Hq Hr]. destruct (Nat.leb (fst q) (fst p)) eqn:E.
    + apply Nat.leb_le in E. split; [|split; assumption].
      intros q' [<-|Hin]; [exact E|]. specialize (Hq q' Hin). lia.
    + apply Nat.leb_gt in E. split; [|exact (IH Hr)].
      intros q' Hin. apply (Permutation_in _ (insert_sorted_perm p r)) in Hin.
      destruct Hin as [<-|Hin]; [lia|exact (Hq q' Hin)].
Qed.
Lemma sort_desc_wdesc : forall l, wdesc (sort_desc l).
Proof. induction l as [|p r IH]; cbn; [exact I|]. apply insert_sorted_wdesc. exact IH. Qed.

Lemma wdesc_nodup_desc : forall L, wdesc L -> NoDup (map fst L) -> desc L.
Proof.
  induction L as [|q r IH]; intros H N; cbn; [exact I|].
  destruct H as [Hq Hr]. inversion N as [|? ? Hnin Nr]; subst. split; [|exact (IH Hr Nr)].
  intros q' Hin. specialize (Hq q' Hin).
  assert (fst q' <> fst q) as Hne.
  { intros E. apply Hnin. rewrite <- E. apply in_map. exact Hin. }
  lia.
Qed.

Lemma at_pos_perm (L L' : list (nat * ins)) i : Permutation L L' -> Permutation (at_pos L i) (at_pos L' i).
Proof.
  intros P. unfold at_pos. apply Permutation_map. induction P; cbn.
  - constructor.
  - destruct (Nat.eqb (fst x) i); [apply perm_skip|]; exact IHP.
  - destruct (Nat.eqb (fst y) i), (Nat.eqb (fst x) i); try apply Permutation_refl. apply perm_swap.
  - eapply Permutation_trans; eassumption.
Qed.

(* ---------------------------------------------------------------- exits are guarded *)
Definition is_exit (x : ins) : bool := match x with JEnd | EndLab => true | _ => false end.

(* a reader of the result: a `pop ra` arms the guard, a value push keeps it, every exit needs it *)
Fixpoint scan (r : list ins) (armed : bool) : bool :=
  match r with
  | [] => true
  | PopRa :: t => scan t true
  | PushV :: t => scan t armed
  | JEnd :: t | EndLab :: t => armed && scan t false
  | _ :: t => scan t false
  end.

Lemma dedup_in x : forall l, In x (dedup l) <-> In x l.
Proof.
  induction l as [|y r IH]; cbn; [tauto|].
  destruct (existsb (Nat.eqb y) r) eqn:E.
  - rewrite IH. split; [tauto|]. intros [<-|H]; [|exact H].
    apply existsb_exists in E as (z & Hz & Ez). apply Nat.eqb_eq in Ez. subst z. exact Hz.
  - cbn. rewrite IH. tauto.
Qed.
Lemma dedup_nodup : forall l, NoDup (dedup l).
Proof.
  induction l as [|y r IH]; cbn; [constructor|].
  destruct (existsb (Nat.eqb y) r) eqn:E; [exact IH|].
  constructor; [|exact IH]. rewrite dedup_in. intros Hin.
  assert (existsb (Nat.eqb y) r = true) as K by (apply existsb_exists; exists y; split; [exact Hin|apply Nat.eqb_refl]).
  congruence.
Qed.

Lemma exit_points_spec : forall c k i, In i (exit_points c k) <-> exists j x, i = k + j /\ nth_error c j = Some x /\ is_exit x = true.
Proof.
  induction c as [|y r IH]; intros k i; cbn [exit_points].
  - split; [intros []|intros (j & x & _ & H & _); destruct j; discriminate].
  - assert (In i (exit_points r (S k)) <-> exists j x, i = k + S j /\ nth_error r j = Some x /\ is_exit x = true) as R.
    { rewrite IH. split; intros (j & x & -> & H); exists j, x; (split; [lia|exact H]). }
    assert (is_exit y = false -> (In i (exit_points r (S k)) <-> exists j x, i = k + j /\ nth_error (y :: r) j = Some x /\ is_exit x = true)) as N.
    { intros Hy. rewrite R. split.
      - intros (j & x & -> & H & E). exists (S j), x. repeat split; assumption.
      - intros (j & x & -> & H & E). destruct j as [|j].
        + cbn in H. injection H as <-. congruence.
        + exists j, x. repeat split; assumption. }
    assert (is_exit y = true -> (i = k \/ In i (exit_points r (S k)) <-> exists j x, i = k + j /\ nth_error (y :: r) j = Some x /\ is_exit x = true)) as Y.
    { intros Hy. split.
      - intros [->|H].
        + exists 0, y. split; [lia|]. split; [reflexivity|exact Hy].
        + apply R in H as (j & x & -> & H & E). exists (S j), x. repeat split; assumption.
      - intros (j & x & -> & H & E). destruct j as [|j]; [left; lia|].
        right. apply R. exists j, x. repeat split; assumption. }
    destruct y; cbn [In]; try (apply N; reflexivity).
    + rewrite <- (Y eq_refl). split; [intros [<-|H]; [left; reflexivity|right; exact H]|intros [->|H]; [left; reflexivity|right; exact H]].
    + rewrite <- (Y eq_refl). split; [intros [<-|H]; [left; reflexivity|right; exact H]|intros [->|H]; [left; reflexivity|right; exact H]].
Qed.

Lemma leading_pops_nth : forall l j, j < leading_pops l -> nth_error l j = Some PopArg.
Proof.
  induction l as [|y r IH]; intros j H; cbn in H; [lia|].
  destruct y; try lia. destruct j as [|j]; [reflexivity|]. cbn. apply IH. lia.
Qed.
Lemma leading_pops_le : forall l, leading_pops l <= length l.
Proof. induction l as [|y r IH]; cbn; [lia|]. destruct y; cbn; lia. Qed.

Lemma at_pos_pops (pops : list nat) i : NoDup pops ->
  at_pos (map (fun p => (p, PopRa)) pops) i = if existsb (Nat.eqb i) pops then [PopRa] else [].
Proof.
  unfold at_pos. induction pops as [|p r IH]; intros N; [reflexivity|].
  inversion N as [|? ? Hnin Nr]; subst. cbn [map filter fst existsb].
  destruct (Nat.eqb p i) eqn:E.
  - apply Nat.eqb_eq in E. subst p. rewrite Nat.eqb_refl. cbn [orb map snd].
    rewrite (IH Nr).
    destruct (existsb (Nat.eqb i) r) eqn:E2; [|reflexivity].
    apply existsb_exists in E2 as (z & Hz & Ez). apply Nat.eqb_eq in Ez. subst z. contradiction.
  - assert (Nat.eqb i p = false) as -> by (apply Nat.eqb_neq; apply Nat.eqb_neq in E; lia).
    cbn [orb]. exact (IH Nr).
Qed.

Section Main.
Variable c : list ins.
Let nargs := leading_pops (tl c).
Let pops := dedup (map (pop_pos c) (exit_points c 0)).
Let inserts := (1 + nargs, PushRa) :: map (fun p => (p, PopRa)) pops.
Let F := at_pos (sort_desc inserts).

Hypothesis Hlab : nth_error c 0 = Some Lab.
Hypothesis Hfresh : ~ In (1 + nargs) pops.

Lemma pops_nodup : NoDup pops. Proof. apply dedup_nodup. Qed.

Lemma in_pops_b i : existsb (Nat.eqb i) pops = true <-> In i pops.
Proof.
  rewrite existsb_exists. split.
  - intros (z & Hz & E). apply Nat.eqb_eq in E. subst z. exact Hz.
  - intros H. exists i. split; [exact H|apply Nat.eqb_refl].
Qed.

Lemma F_spec i : F i = if Nat.eqb (1 + nargs) i then [PushRa] else if existsb (Nat.eqb i) pops then [PopRa] else [].
Proof.
  assert (Permutation (F i) (at_pos inserts i)) as P by (apply at_pos_perm; apply sort_desc_perm).
  assert (at_pos inserts i = (if Nat.eqb (1 + nargs) i then [PushRa] else []) ++ (if existsb (Nat.eqb i) pops then [PopRa] else [])) as E.
  { unfold inserts. unfold at_pos at 1. cbn [filter fst]. destruct (Nat.eqb (1 + nargs) i); cbn [map snd app];
      change (map snd (filter (fun q => Nat.eqb (fst q) i) (map (fun p => (p, PopRa)) pops))) with (at_pos (map (fun p => (p, PopRa)) pops) i);
      rewrite (at_pos_pops pops i pops_nodup); reflexivity. }
  rewrite E in P. clear E.
  destruct (Nat.eqb (1 + nargs) i) eqn:E1.
  - apply Nat.eqb_eq in E1. destruct (existsb (Nat.eqb i) pops) eqn:E2.
    + apply in_pops_b in E2. subst i. contradiction.
    + cbn in P. apply Permutation_sym in P. apply Permutation_length_1_inv in P. exact P.
  - destruct (existsb (Nat.eqb i) pops); cbn in P.
    + apply Permutation_sym in P. apply Permutation_length_1_inv in P. exact P.
    + apply Permutation_sym in P. apply Permutation_nil in P. exact P.
Qed.

Lemma exit_pop_in_pops i x : nth_error c i = Some x -> is_exit x = true -> In (pop_pos c i) pops.
Proof.
  intros H E. unfold pops. rewrite dedup_in. apply in_map. apply exit_points_spec. exists i, x. repeat split; assumption.
Qed.

Lemma positions_bounded : forall q, In q (sort_desc inserts) -> fst q <= length c.
Proof.
  intros q Hq. apply (Permutation_in _ (sort_desc_perm inserts)) in Hq. unfold inserts in Hq.
  destruct c as [|c0 cr] eqn:Ec; [discriminate Hlab|].
  destruct Hq as [<-|Hq].
  - cbn [fst]. unfold nargs. cbn [tl length]. pose proof (leading_pops_le cr). lia.
  - apply in_map_iff in Hq as (p & <- & Hp). cbn [fst]. unfold pops in Hp. rewrite dedup_in in Hp.
    apply in_map_iff in Hp as (e & <- & He). apply exit_points_spec in He as (j & x & -> & Hj & _).
    assert (j < length (c0 :: cr)) as L by (apply nth_error_Some; congruence).
    cbn [Nat.add]. unfold pop_pos. destruct j as [|k]; [lia|].
    destruct (nth_error (c0 :: cr) k) as [[]|]; cbn [length] in *; lia.
Qed.

Lemma inserts_nodup : NoDup (map fst (sort_desc inserts)).
Proof.
  apply (Permutation_NoDup (l := map fst inserts)).
  - apply Permutation_map. apply Permutation_sym. apply sort_desc_perm.
  - unfold inserts. cbn [map fst]. rewrite map_map. cbn [fst]. rewrite map_id. constructor; [exact Hfresh|exact pops_nodup].
Qed.

(* the model's result, when something is inserted at all, is the decorated list *)
Theorem pushpop_is_decorate : have_calls c && have_returns c = true -> add_ra_pushpop c = decorate F c 0.
Proof.
  intros H. unfold add_ra_pushpop. rewrite H.
  change (fold_left (fun acc pi => insert_at (fst pi) (snd pi) acc) (sort_desc inserts) c = decorate F c 0).
  change (fun acc pi => insert_at (fst pi) (snd pi) acc) with (@ins_step ins).
  apply descending_inserts_decorate.
  - apply wdesc_nodup_desc; [apply sort_desc_wdesc|exact inserts_nodup].
  - exact positions_bounded.
Qed.

Lemma pop_pos_cases i : pop_pos c (S i) = S i \/ (pop_pos c (S i) = i /\ nth_error c i = Some PushV).
Proof. unfold pop_pos. destruct (nth_error c i) as [[]|]; auto. Qed.

Lemma before_push_not_value : nth_error c nargs <> Some PushV.
Proof.
  destruct c as [|c0 cr] eqn:Ec; [discriminate Hlab|]. cbn in Hlab. injection Hlab as ->.
  unfold nargs. cbn [tl]. destruct (leading_pops cr) as [|k] eqn:E; [cbn; discriminate|].
  cbn [nth_error]. rewrite (leading_pops_nth cr k) by lia. discriminate.
Qed.

Lemma scan_suffix : forall suf pre armed, c = pre ++ suf ->
  (match suf with x :: _ => is_exit x = true -> ~ In (length pre) pops -> armed = true | [] => True end) ->
  scan (decorate F suf (length pre)) armed = true.
Proof.
  induction suf as [|x rest IH]; intros pre armed Hc Hinv.
  - cbn [decorate]. rewrite F_spec. destruct (Nat.eqb (1 + nargs) (length pre)); [reflexivity|].
    destruct (existsb (Nat.eqb (length pre)) pops); reflexivity.
  - set (i := length pre) in *.
    assert (nth_error c i = Some x) as Hx.
    { rewrite Hc. rewrite nth_error_app2 by (unfold i; lia). unfold i. rewrite Nat.sub_diag. reflexivity. }
    assert (c = (pre ++ [x]) ++ rest) as Hc' by (rewrite <- app_assoc; exact Hc).
    assert (length (pre ++ [x]) = S i) as Hl by (rewrite app_length; cbn; unfold i; lia).
    (* the guard state after the insertions in front of x *)
    cbn [decorate]. rewrite F_spec.
    (* what the next element needs *)
    assert (forall armed'', (x = PushV -> In i pops -> armed'' = true) ->
            match rest with y :: _ => is_exit y = true -> ~ In (S i) pops -> armed'' = true | [] => True end) as Next.
    { intros a Ha. destruct rest as [|y rest']; [exact I|]. intros Ey Hn.
      assert (nth_error c (S i) = Some y) as Hy.
      { rewrite Hc'. rewrite nth_error_app2 by lia. rewrite Hl, Nat.sub_diag. reflexivity. }
      pose proof (exit_pop_in_pops (S i) y Hy Ey) as Hin.
      destruct (pop_pos_cases i) as [E|[E Hv]]; rewrite E in Hin; [contradiction|].
      apply Ha; [congruence|exact Hin]. }
    destruct (Nat.eqb (1 + nargs) i) eqn:E1.
    + (* push ra in front of x *)
      apply Nat.eqb_eq in E1. cbn [app scan].
      assert (~ In i pops) as Hni by (rewrite <- E1; exact Hfresh).
      assert (is_exit x = false) as Hnx.
      { destruct (is_exit x) eqn:Ex; [|reflexivity]. exfalso.
        pose proof (exit_pop_in_pops i x Hx Ex) as Hin.
        destruct i as [|k]; [cbn in Hin; contradiction|].
        destruct (pop_pos_cases k) as [E|[E Hv]]; rewrite E in Hin; [contradiction|].
        apply before_push_not_value. assert (k = nargs) by lia. subst k. exact Hv. }
      destruct x; try discriminate Hnx; cbn [scan];
        rewrite <- Hl; apply IH; try exact Hc'; rewrite Hl; apply Next; intros; try discriminate; try contradiction.
    + destruct (existsb (Nat.eqb i) pops) eqn:E2.
      * (* pop ra in front of x: armed *)
        apply in_pops_b in E2. cbn [app scan].
        destruct x; cbn [scan andb]; rewrite <- Hl; apply IH; try exact Hc'; rewrite Hl; apply Next; intros; try discriminate; reflexivity.
      * (* nothing in front of x *)
        assert (~ In i pops) as Hni by (intros K; apply in_pops_b in K; congruence).
        cbn [app].
        destruct x; cbn [scan]; try (rewrite <- Hl; apply IH; try exact Hc'; rewrite Hl; apply Next; intros; try discriminate; try contradiction).
        -- (* EndLab *) rewrite (Hinv eq_refl Hni). cbn [andb]. rewrite <- Hl. apply IH; [exact Hc'|]. rewrite Hl. apply Next. intros; discriminate.
        -- (* JEnd *) rewrite (Hinv eq_refl Hni). cbn [andb]. rewrite <- Hl. apply IH; [exact Hc'|]. rewrite Hl. apply Next. intros; discriminate.
Qed.

(* Every exit of the function (an early return `j <name>end`, or the end label) is reached with the
   return address restored: reading the result from the top, each exit is preceded by `pop ra`, with
   at most the push of the return value in between. *)
Theorem pushpop_exits_are_guarded :
  have_calls c && have_returns c = true -> scan (add_ra_pushpop c) false = true.
Proof.
  intros H. rewrite (pushpop_is_decorate H).
  apply (scan_suffix c [] false eq_refl).
  destruct c as [|x r]; [exact I|]. intros Ex _. cbn in Hlab. injection Hlab as ->. discriminate Ex.
Qed.
End Main.

Example pushpop_example :
  let c := [Lab; PopArg; Other; Call; PushV; JEnd; Other; PushV; EndLab; JRa] in
  nth_error c 0 = Some Lab /\
  ~ In (1 + leading_pops (tl c)) (dedup (map (pop_pos c) (exit_points c 0))) /\
  have_calls c && have_returns c = true /\
  add_ra_pushpop c = [Lab; PopArg; PushRa; Other; Call; PopRa; PushV; JEnd; Other; PopRa; PushV; EndLab; JRa].
Proof.
  cbn zeta. split; [reflexivity|]. split; [|split; reflexivity].
  vm_compute. intros [H|[H|[]]]; discriminate H.
Qed.
