(* Environments (assumptions) under which the skeletons of the daemon and of compile_code are
   analysed.  Each `raises` table says which expression texts are ASSUMED not to raise; everything
   else may raise any Exception subclass.  BaseException-only exceptions (KeyboardInterrupt,
   SystemExit) are outside the model.  The assumptions are listed in the evidence. *)
From Coq Require Import List String Bool.
From PV Require Import Model.Skel Model.SkelSem.
Import ListNotations.
Local Open Scope string_scope.

Definition any_exception : list exn :=
  [EExc "json.JSONDecodeError"; EExc "CompilerError"; EExc "astroid.AstroidSyntaxError";
   EExc "subprocess.TimeoutExpired"; EExc "ValueError"; EExc "Other"].

Fixpoint smem (s : string) (l : list string) : bool :=
  match l with [] => false | x :: r => String.eqb s x || smem s r end.
Definition starts (p s : string) : bool := String.prefix p s.

(* ---------------- mod_daemon.process_input ---------------- *)
(* assumed not to raise: logging helpers, time.time(), literals, traceback.format_exc(), str(e) of a
   caught exception, json.dumps of a response dictionary, the print itself *)
Definition pi_safe (e : string) : bool :=
  starts "log(" e || starts "error(" e || String.eqb e "time.time()" || String.eqb e "None"
  || starts "{'error'" e || String.eqb e "traceback.format_exc()"
  || String.eqb e "base64.b64encode(json.dumps(response).encode('utf-8')).decode('ascii')"
  || String.eqb e "print(encoded, flush=True, file=_stdout)"
  || String.eqb e "not line" || String.eqb e "response is not None" || String.eqb e "".

Definition env_process_input (line_empty : bool) : aenv := {|
  raises := fun e => if pi_safe e then [] else any_exception;
  is_print := fun e => String.eqb e "print(encoded, flush=True, file=_stdout)";
  tracked := "response";
  nullish := fun e => String.eqb e "None";
  cond_val := fun c a =>
    if String.eqb c "not line" then Some line_empty
    else if String.eqb c "response is not None" then a
    else None |}.

(* ---------------- mod_daemon.main ---------------- *)
(* process_input(line) does not raise and readline does not raise on undecodable bytes: the first
   by the analysis of process_input, the second because stdin is reconfigured with a lenient error
   handler at the start of main (checked on the skeleton) *)
Definition main_safe (e : string) : bool :=
  starts "log(" e || starts "error(" e || String.eqb e "traceback.format_exc()"
  || String.eqb e "process_input(line)" || String.eqb e "line.strip()" || String.eqb e "True"
  || String.eqb e "not line" || String.eqb e "line == 'EXIT'" || String.eqb e "sys.stdin.readline()"
  || starts "sys.stdin.reconfigure(" e.
Definition env_daemon_main : aenv := {|
  raises := fun e => if main_safe e then [] else any_exception;
  is_print := fun e => false; tracked := ""; nullish := fun e => false;
  cond_val := fun c a => None |}.

Fixpoint has_stmt (p : string -> bool) (sk : skel) : bool :=
  match sk with
  | SSeq l => (fix go (l : list skel) := match l with [] => false | s :: r => has_stmt p s || go r end) l
  | SIf _ a b => has_stmt p a || has_stmt p b
  | STry b hs f => has_stmt p b || has_stmt p f
                   || (fix go (l : list (string * skel)) := match l with [] => false | (_, h) :: r => has_stmt p h || go r end) hs
  | SWhile _ b => has_stmt p b
  | SFor _ _ b => has_stmt p b
  | SExpr e => p e
  | SAssign _ e => p e
  | _ => false
  end.

(* ---------------- Compiler.compile ---------------- *)
(* inside the try everything may raise; the handlers are assumed not to raise (str(e), attribute
   reads of the caught error, traceback.format_exc()) and _raise_exceptions is off *)
Definition cc_handler_safe (e : string) : bool :=
  String.eqb e "time('start')" || String.eqb e "self._raise_exceptions" || String.eqb e "{'description': str(e)}"
  || String.eqb e "e.node" || starts "e.node." e || String.eqb e "{'error': msg}"
  || starts "{'error': {'description'" e || String.eqb e "isinstance(e.error, SyntaxError)"
  || starts "d['error'].update(" e || String.eqb e "d" || String.eqb e "traceback.format_exc()" || String.eqb e "e".
Definition env_compiler_compile : aenv := {|
  raises := fun e => if cc_handler_safe e then [] else any_exception;
  is_print := fun e => false; tracked := ""; nullish := fun e => false;
  cond_val := fun c a => if String.eqb c "self._raise_exceptions" then Some false else None |}.

(* ---------------- compiler.compile_code ---------------- *)
(* domain: options is a CompileOptions value or None, src a str or a mapping with the key "":
   under it the statements before the final call are string operations on a str and attribute
   writes on a dataclass instance; the final call does not raise by the analysis of compile *)
Definition env_compile_code : aenv := {|
  raises := fun e => [];
  is_print := fun e => false; tracked := ""; nullish := fun e => false;
  cond_val := fun c a => if String.eqb c "isinstance(options, dict)" then Some false else None |}.

(* ---------------- utils.eval_constexpr: the child process ---------------- *)
(* tracked: the pair assigned by process.communicate(timeout=1); "is not None" = the child has
   been waited for.  A reply line here is `process.kill()`.  Only communicate may raise (timeout). *)
Definition env_constexpr_child : aenv := {|
  raises := fun e => if String.eqb e "process.communicate(timeout=1)" then [EExc "subprocess.TimeoutExpired"] else [];
  is_print := fun e => String.eqb e "process.kill()";
  tracked := "(stdout, stderr)";
  nullish := fun e => false;
  cond_val := fun c a => if String.eqb c "_is_pyodide" then Some false
                         else if String.eqb c "not _is_pyodide" then Some true else None |}.

Definition outcome_is_raise (o : outcome) : bool := match o with ORaise _ => true | _ => false end.
Definition is_c1 (c : cnt) : bool := match c with C1 => true | _ => false end.
Definition is_c0 (c : cnt) : bool := match c with C0 => true | _ => false end.
