(* Model of the '# pytrapic:' directive scanner of compiler.compile_code (lines 136-158).
   Strings are lists of code points; CompileOptions is an association list in field order. *)
From Coq Require Import List NArith Bool.
From PV Require Import Base.PyStr.
Import ListNotations.
Local Open Scope N_scope.

Definition opts := list (pystr * bool).

Definition KEY : pystr := [112; 121; 116; 114; 97; 112; 105; 99; 58].   (* "pytrapic:" *)
Definition HASHCH : N := 35.     (* '#' *)
Definition COMMA : N := 44.
Definition DASH : N := 45.
Definition UNDERSCORE : N := 95.
Definition NO_ : pystr := [110; 111; 95].                                (* "no_" *)

Definition has_field (o : opts) (name : pystr) : bool :=
  existsb (fun p => pystr_eqb (fst p) name) o.
Definition set_opt (o : opts) (name : pystr) (v : bool) : opts :=
  map (fun p => if pystr_eqb (fst p) name then (fst p, v) else p) o.
Fixpoint lookup (o : opts) (name : pystr) : option bool :=
  match o with [] => None | (n, b) :: r => if pystr_eqb n name then Some b else lookup r name end.

(* ---- the scanner, statement by statement ---- *)
Definition norm_tag (tag0 : pystr) : pystr * bool :=
  let tag := replace_char DASH UNDERSCORE (strip tag0) in
  let value := negb (starts_with NO_ tag) in
  (if value then tag else strip (skipn 3 tag), value).

Definition apply_directive (o : opts) (d : pystr * bool) : opts :=
  if has_field o (fst d) then set_opt o (fst d) (snd d) else o.

Definition apply_tag (o : opts) (tag0 : pystr) : opts := apply_directive o (norm_tag tag0).

Definition line_tags (line0 : pystr) : list pystr :=
  if negb (contains KEY line0) then [] else
  let line := strip line0 in
  if negb (starts_with [HASHCH] line) then [] else
  match split_once [HASHCH] line with
  | (_, Some rest) =>
      match split_once KEY rest with
      | (_, Some tl) => split_char COMMA (strip tl)
      | (_, None) => []
      end
  | (_, None) => []
  end.

Definition apply_line (o : opts) (line0 : pystr) : opts := fold_left apply_tag (line_tags line0) o.

Definition scan (src : pystr) (o : opts) : opts :=
  if contains KEY src then fold_left apply_line (splitlines src) o else o.

(* ---- declarative reading of the property ---- *)
(* the directives of a source, in order: every comma-separated tag of every directive line *)
Definition directives (src : pystr) : list (pystr * bool) :=
  map norm_tag (flat_map line_tags (splitlines src)).

Definition apply_all (ds : list (pystr * bool)) (o : opts) : opts := fold_left apply_directive ds o.

(* the last directive that names n *)
Fixpoint last_directive (ds : list (pystr * bool)) (n : pystr) : option bool :=
  match ds with
  | [] => None
  | d :: r => match last_directive r n with
              | Some v => Some v
              | None => if pystr_eqb (fst d) n then Some (snd d) else None
              end
  end.

(* a directive line: first non-blank character is '#' and the line contains the key *)
Definition is_directive_line (line : pystr) : bool :=
  contains KEY line && starts_with [HASHCH] (lstrip line).
