From Coq Require Import List ZArith Bool Arith Lia.
From PV Require Import IC10.Values IC10.Machine Model.Layout.
Import ListNotations.

Section P.
Context {val : Type}.
Variable A : valg val.
Notation state := (@state val).

(* what a step can do to the program counter of a running machine *)
Definition advances (s' s : state) : Prop := pc s' = S (pc s).
Definition stays_failed (s' s : state) : Prop := pc s' = pc s /\ st s' <> Running.

Lemma wr_pc s o v : advances (wr s o v) s \/ stays_failed (wr s o v) s.
Proof.
  unfold wr. destruct (oreg s o), v; try (right; split; [reflexivity|discriminate]).
  left. reflexivity.
Qed.
Lemma effect_pc s k a : advances (effect s k a) s \/ stays_failed (effect s k a) s.
Proof. unfold effect. destruct a; [left; reflexivity|right; split; [reflexivity|discriminate]]. Qed.
Lemma fail_pc s c : stays_failed (fail s c) s. Proof. split; [reflexivity|discriminate]. Qed.

Ltac fin :=
  first [ left; reflexivity
        | right; split; [reflexivity|discriminate]
        | apply wr_pc | apply effect_pc ].

Ltac brk :=
  repeat match goal with
  | |- _ (match ?x with _ => _ end) _ \/ _ (match ?x with _ => _ end) _ => destruct x
  | |- _ (if ?x then _ else _) _ \/ _ (if ?x then _ else _) _ => destruct x
  end.

(* a non-control instruction either moves to the next line or fails in place *)
Lemma exec_noncontrol O p s op args : is_control op = false ->
  advances (exec A O p s op args) s \/ stays_failed (exec A O p s op args) s.
Proof.
  intros Hc. unfold exec.
  destruct op; try discriminate Hc;
    destruct args as [|a1 [|a2 [|a3 [|a4 [|a5 [|a6 [|a7 r]]]]]]]; try fin; brk; try fin.
  all: try (match goal with |- context [wr (set_reg ?s0 ?n ?v) ?d ?x] =>
        destruct (wr_pc (set_reg s0 n v) d x) as [H|[H1 H2]]; [left; exact H|right; split; [exact H1|exact H2]] end).
Qed.

Theorem step_noncontrol O p s op args :
  st s = Running -> nth_error p (pc s) = Some (LInstr op args) -> is_control op = false ->
  pc (step A O p s) = S (pc s) \/ st (step A O p s) <> Running.
Proof.
  intros Hr Hn Hc. unfold step. rewrite Hr, Hn.
  destruct (exec_noncontrol O p s op args Hc) as [H|[_ H]]; [left; exact H|right; exact H].
Qed.

(* j, jr and hcf never continue with the following line by sequential flow: the new program
   counter is the evaluated target (or the machine stops) *)
Theorem step_terminator O p s l :
  st s = Running -> nth_error p (pc s) = Some l -> seq_falls l = false ->
  exists op args, l = LInstr op args /\
    ((op = IHcf /\ st (step A O p s) <> Running) \/
     (st (step A O p s) <> Running) \/
     (exists t v, (op = IJ \/ op = IJr) /\ args = [t] /\ oval A p s t = Some v /\
        (op = IJ -> exists z, v_to_Z A v = Some z /\ pc (step A O p s) = Z.to_nat z) /\
        (op = IJr -> exists z, v_to_Z A v = Some z /\ pc (step A O p s) = Z.to_nat (Z.of_nat (pc s) + z)))).
Proof.
  intros Hr Hn Hs. destruct l as [id|op args]; [discriminate|]. exists op, args. split; [reflexivity|].
  unfold step. rewrite Hr, Hn.
  destruct op; try discriminate Hs; cbn [exec].
  - (* IJ *) destruct args as [|t [|? ?]]; try (right; left; cbn; discriminate).
    unfold branch. destruct (oval A p s t) as [v|] eqn:Ev; [|right; left; cbn; discriminate].
    unfold jump_abs. destruct (v_to_Z A v) as [z|] eqn:Ez; [|right; left; cbn; discriminate].
    destruct (0 <=? z)%Z; [|right; left; cbn; discriminate].
    right; right. exists t, v. repeat split; auto.
    + intros _. exists z. split; [exact Ez|reflexivity].
    + intros H; discriminate H.
  - (* IJr *) destruct args as [|t [|? ?]]; try (right; left; cbn; discriminate).
    unfold branch. destruct (oval A p s t) as [v|] eqn:Ev; [|right; left; cbn; discriminate].
    unfold jump_rel. destruct (v_to_Z A v) as [z|] eqn:Ez; [|right; left; cbn; discriminate].
    destruct (0 <=? Z.of_nat (pc s) + z)%Z; [|right; left; cbn; discriminate].
    right; right. exists t, v. repeat split; auto.
    + intros H; discriminate H.
    + intros _. exists z. split; [exact Ez|reflexivity].
  - (* IHcf *) destruct args; [left; split; [reflexivity|cbn; discriminate]|right; left; cbn; discriminate].
Qed.

(* closed layout: the line before every region entry is such a terminator *)
Theorem closed_spec (p : @program val) entries : closed p entries = true ->
  forall e, In e entries -> exists k l, e = S k /\ nth_error p k = Some l /\ seq_falls l = false.
Proof.
  unfold closed. rewrite forallb_forall. intros H e Hin. specialize (H e Hin).
  destruct e as [|k]; [discriminate|]. destruct (nth_error p k) as [l|] eqn:E; [|discriminate].
  exists k, l. split; [reflexivity|]. split; [exact E|]. destruct (seq_falls l); [discriminate|reflexivity].
Qed.
End P.
