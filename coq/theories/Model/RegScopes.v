(* The scope loop of register_assignment.assign_registers (after fix 65c3091): scopes are processed
   in an order in which every caller precedes its callees; a scope may use the registers r0..r15 that
   none of its callers has blocked; it blocks what its callers block plus what it uses itself; a scope
   that owns no register symbol still passes its callers' blocked set on.

   Theorem: a scope never uses a register that ANY of its transitive callers uses. *)
From Coq Require Import List Arith Bool Lia.
Import ListNotations.

Definition all16 : list nat := seq 0 16.
Fixpoint nmem (x : nat) (l : list nat) : bool := match l with [] => false | y :: r => Nat.eqb x y || nmem x r end.
Definition minus (a b : list nat) : list nat := filter (fun x => negb (nmem x b)) a.

Fixpoint lookup (m : list (nat * list nat)) (k : nat) : list nat :=
  match m with [] => [] | (k', v) :: r => if Nat.eqb k k' then v else lookup r k end.

Fixpoint pick (avail : list nat) (cs : list nat) : option (list nat) :=
  match cs with
  | [] => Some []
  | c :: r => match nth_error avail c, pick avail r with
              | Some reg, Some rs => Some (reg :: rs)
              | _, _ => None                 (* colour beyond the available registers: out of registers *)
              end
  end.

Lemma nmem_In x l : nmem x l = true <-> In x l.
Proof.
  induction l as [|y r IH]; cbn; [split; [discriminate|tauto]|].
  rewrite orb_true_iff, Nat.eqb_eq, IH. split; intros [H|H]; auto.
Qed.

Lemma pick_in avail : forall cs rs, pick avail cs = Some rs -> forall x, In x rs -> In x avail.
Proof.
  induction cs as [|c r IH]; intros rs H x Hx; cbn in H.
  - injection H as <-. destruct Hx.
  - destruct (nth_error avail c) as [reg|] eqn:E; [|discriminate]. destruct (pick avail r) as [rs'|]; [|discriminate].
    injection H as <-. destruct Hx as [<-|Hx]; [eapply nth_error_In; exact E|exact (IH rs' eq_refl x Hx)].
Qed.

Lemma minus_spec a b x : In x (minus a b) <-> In x a /\ ~ In x b.
Proof.
  unfold minus. rewrite filter_In, negb_true_iff. split; intros [H1 H2]; split; auto.
  - intros K. apply nmem_In in K. congruence.
  - destruct (nmem x b) eqn:E; [|reflexivity]. apply nmem_In in E. contradiction.
Qed.

Lemma lookup_same m k v : lookup ((k, v) :: m) k = v.
Proof. cbn. rewrite Nat.eqb_refl. reflexivity. Qed.

Lemma lookup_fresh m k v k' : k' <> k -> lookup ((k, v) :: m) k' = lookup m k'.
Proof. intros H. cbn. destruct (Nat.eqb k' k) eqn:E; [apply Nat.eqb_eq in E; contradiction|reflexivity]. Qed.

Lemma in_flat_lookup m ks r : In r (flat_map (lookup m) ks) <-> exists k, In k ks /\ In r (lookup m k).
Proof. rewrite in_flat_map. tauto. Qed.

Section A.
Variable callers : nat -> list nat.              (* called_from *)
Variable colours : nat -> option (list nat).     (* colour indices of the scope's own register symbols; None: no symbols *)

Record st := { blocked : list (nat * list nat); used : list (nat * list nat) }.


Definition step (s : st) (sc : nat) : option st :=
  let parent := flat_map (lookup (blocked s)) (callers sc) in
  match colours sc with
  | None => Some {| blocked := (sc, parent) :: blocked s; used := used s |}
  | Some cs =>
      match pick (minus all16 parent) cs with
      | Some rs => Some {| blocked := (sc, rs ++ parent) :: blocked s; used := (sc, rs) :: used s |}
      | None => None
      end
  end.

Fixpoint run (s : st) (order : list nat) : option st :=
  match order with
  | [] => Some s
  | sc :: r => match step s sc with Some s' => run s' r | None => None end
  end.

(* transitive callers *)
Inductive ancestor : nat -> nat -> Prop :=
| anc_direct : forall a s, In a (callers s) -> ancestor a s
| anc_step : forall a b s, ancestor a b -> In b (callers s) -> ancestor a s.

(* every caller of a scope of the order stands earlier in it, and no scope is listed twice *)
Fixpoint topo (done order : list nat) : Prop :=
  match order with
  | [] => True
  | sc :: r => (forall k, In k (callers sc) -> In k done) /\ ~ In sc done /\ topo (sc :: done) r
  end.



(* invariant over the processed scopes `done`:
   (I1) blocked(x) contains used(x), and blocked(k) for every caller k of x
   (I2) used(x) is disjoint from blocked(k) for every caller k of x
   (I3) scopes not yet processed have no entry *)
Definition Inv (done : list nat) (s : st) : Prop :=
  (forall x, In x done -> (forall r, In r (lookup (used s) x) -> In r (lookup (blocked s) x)) /\
                          (forall k r, In k (callers x) -> In r (lookup (blocked s) k) -> In r (lookup (blocked s) x)) /\
                          (forall k r, In k (callers x) -> In r (lookup (used s) x) -> ~ In r (lookup (blocked s) k))) /\
  (forall x, ~ In x done -> lookup (used s) x = [] /\ lookup (blocked s) x = []) /\
  (forall x k, In x done -> In k (callers x) -> In k done).


Lemma step_inv done s sc s' :
  Inv done s -> (forall k, In k (callers sc) -> In k done) -> ~ In sc done -> step s sc = Some s' -> Inv (sc :: done) s'.
Proof.
  intros (I & J & K0) Hc Hn Hs. unfold step in Hs.
  set (parent := flat_map (lookup (blocked s)) (callers sc)) in *.
  assert (forall k, In k (callers sc) -> k <> sc) as Hne by (intros k Hk E; subst; exact (Hn (Hc _ Hk))).
  assert (forall x k, In x done -> In k (callers x) -> k <> sc) as Hk'.
  { intros x k Hx Hk ->. exact (Hn (K0 x sc Hx Hk)). }
  assert (forall x k, In x (sc :: done) -> In k (callers x) -> In k (sc :: done)) as K1.
  { intros x k [<-|Hx] Hk; right; [exact (Hc k Hk)|exact (K0 x k Hx Hk)]. }
  destruct (colours sc) as [cs|].
  - destruct (pick (minus all16 parent) cs) as [rs|] eqn:Ep; [|discriminate]. injection Hs as <-.
    split; [|split; [|exact K1]].
    + intros x [<-|Hx].
      * cbn [blocked used]. rewrite !lookup_same. repeat split.
        -- intros r Hr. apply in_or_app. left. exact Hr.
        -- intros k r Hk Hr. rewrite lookup_fresh in Hr by (apply Hne; exact Hk).
           apply in_or_app. right. apply in_flat_lookup. exists k. split; assumption.
        -- intros k r Hk Hr Hb. rewrite lookup_fresh in Hb by (apply Hne; exact Hk).
           pose proof (pick_in _ _ _ Ep r Hr) as Ha. apply minus_spec in Ha as [_ Ha]. apply Ha.
           apply in_flat_lookup. exists k. split; assumption.
      * assert (x <> sc) as Hxs by (intros ->; contradiction).
        destruct (I x Hx) as (A & B & C). cbn [blocked used].
        repeat split.
        -- intros r Hr. rewrite lookup_fresh in Hr |- * by exact Hxs. exact (A r Hr).
        -- intros k r Hk Hr. rewrite lookup_fresh by exact Hxs.
           rewrite lookup_fresh in Hr by (exact (Hk' x k Hx Hk)). exact (B k r Hk Hr).
        -- intros k r Hk Hr. rewrite lookup_fresh in Hr by exact Hxs.
           rewrite lookup_fresh by (exact (Hk' x k Hx Hk)). exact (C k r Hk Hr).
    + intros x Hx. assert (x <> sc) by (intros ->; apply Hx; left; reflexivity).
      assert (~ In x done) by (intros K; apply Hx; right; exact K).
      cbn [blocked used]. rewrite !lookup_fresh by assumption. exact (J x H0).
  - injection Hs as <-. split; [|split; [|exact K1]].
    + intros x [<-|Hx].
      * cbn [blocked used]. rewrite lookup_same. destruct (J sc Hn) as [Ju _]. rewrite Ju. repeat split.
        -- intros r [].
        -- intros k r Hk Hr. rewrite lookup_fresh in Hr by (apply Hne; exact Hk).
           apply in_flat_lookup. exists k. split; assumption.
        -- intros k r _ [].
      * assert (x <> sc) as Hxs by (intros ->; contradiction).
        destruct (I x Hx) as (A & B & C). cbn [blocked used].
        repeat split.
        -- intros r Hr. rewrite lookup_fresh by exact Hxs. exact (A r Hr).
        -- intros k r Hk Hr. rewrite lookup_fresh by exact Hxs.
           rewrite lookup_fresh in Hr by (exact (Hk' x k Hx Hk)). exact (B k r Hk Hr).
        -- intros k r Hk Hr. rewrite lookup_fresh by (exact (Hk' x k Hx Hk)). exact (C k r Hk Hr).
    + intros x Hx. assert (x <> sc) by (intros ->; apply Hx; left; reflexivity).
      assert (~ In x done) by (intros K; apply Hx; right; exact K).
      cbn [blocked used]. rewrite lookup_fresh by assumption. exact (J x H0).
Qed.

Lemma run_inv : forall order done s s', Inv done s -> topo done order -> run s order = Some s' ->
  Inv (rev order ++ done) s'.
Proof.
  induction order as [|sc r IH]; intros done s s' Hi Ht Hr; cbn in Hr.
  - injection Hr as <-. exact Hi.
  - destruct Ht as (Hc & Hn & Ht). destruct (step s sc) as [s1|] eqn:E; [|discriminate].
    cbn [rev]. rewrite <- app_assoc. cbn [app].
    apply (IH (sc :: done) s1 s'); [exact (step_inv done s sc s1 Hi Hc Hn E)|exact Ht|exact Hr].
Qed.

(* with the invariant: what a scope blocks contains what every transitive caller uses *)
Lemma ancestors_blocked done s : Inv done s -> forall a x, ancestor a x -> In x done ->
  In a done /\ forall r, In r (lookup (used s) a) -> In r (lookup (blocked s) x).
Proof.
  intros (I & J & K0) a x H. induction H as [a x Hax|a b x Hab IH Hbx]; intros Hx.
  - split; [exact (K0 x a Hx Hax)|]. intros r Hr.
    destruct (I x Hx) as (_ & B & _). apply (B a r Hax).
    destruct (I a (K0 x a Hx Hax)) as (A & _ & _). exact (A r Hr).
  - assert (In b done) as Hb by exact (K0 x b Hx Hbx).
    destruct (IH Hb) as (Ha & Hsub). split; [exact Ha|]. intros r Hr.
    destruct (I x Hx) as (_ & B & _). apply (B b r Hbx). exact (Hsub r Hr).
Qed.

Definition init : st := {| blocked := []; used := [] |}.

(* MAIN THEOREM: whatever the call graph, the colours and the order (callers first): a register used
   by a scope is used by none of its transitive callers *)
Theorem no_register_shared_with_a_transitive_caller : forall order s',
  topo [] order -> run init order = Some s' ->
  forall a x r, ancestor a x -> In x order -> In r (lookup (used s') x) -> ~ In r (lookup (used s') a).
Proof.
  intros order s' Ht Hr a x r Hax Hx Hrx Hra.
  assert (Inv [] init) as I0.
  { split; [intros ? []|]. split; [intros; split; reflexivity|intros ? ? []]. }
  pose proof (run_inv order [] init s' I0 Ht Hr) as Hi. rewrite app_nil_r in Hi.
  assert (In x (rev order)) as Hx' by (apply in_rev in Hx; exact Hx).
  (* walk up: a is an ancestor of x through some direct caller k of x; used(a) is inside blocked(k) *)
  destruct Hi as (I & J & K0).
  inversion Hax as [a0 x0 Hd|a0 b x0 Hab Hbx]; subst.
  - destruct (I x Hx') as (_ & _ & C). apply (C a r Hd Hrx).
    destruct (I a (K0 x a Hx' Hd)) as (A & _ & _). exact (A r Hra).
  - destruct (I x Hx') as (_ & _ & C). apply (C b r Hbx Hrx).
    destruct (ancestors_blocked (rev order) s' (conj I (conj J K0)) a b Hab (K0 x b Hx' Hbx)) as (_ & Hsub).
    exact (Hsub r Hra).
Qed.
End A.

(* CERT *)
Fixpoint assoc {X} (l : list (nat * X)) (d : X) (k : nat) : X :=
  match l with [] => d | (k', v) :: r => if Nat.eqb k k' then v else assoc r d k end.

Fixpoint topo_b (callers : nat -> list nat) (done order : list nat) : bool :=
  match order with
  | [] => true
  | sc :: r => forallb (fun k => nmem k done) (callers sc) && negb (nmem sc done) && topo_b callers (sc :: done) r
  end.
Lemma topo_b_sound callers : forall order done, topo_b callers done order = true -> topo callers done order.
Proof.
  induction order as [|sc r IH]; intros done H; cbn in H |- *; [exact I|].
  apply andb_prop in H as [H H3]. apply andb_prop in H as [H1 H2].
  split; [|split].
  - intros k Hk. rewrite forallb_forall in H1. apply (proj1 (nmem_In k done)). exact (H1 k Hk).
  - intros K. apply (proj2 (nmem_In sc done)) in K. rewrite K in H2. discriminate.
  - exact (IH _ H3).
Qed.

Fixpoint list_eqb (a b : list nat) : bool :=
  match a, b with
  | [], [] => true
  | x :: r, y :: s => Nat.eqb x y && list_eqb r s
  | _, _ => false
  end.
Lemma list_eqb_eq : forall a b, list_eqb a b = true -> a = b.
Proof.
  induction a as [|x r IH]; intros [|y s] H; cbn in H; try discriminate; [reflexivity|].
  apply andb_prop in H as [H1 H2]. apply Nat.eqb_eq in H1. rewrite (IH s H2), H1. reflexivity.
Qed.

(* the data exported from one real compilation: scope order, called_from, colours of the newly mapped
   symbols per scope, and the registers the compiler gave them *)
Definition check_alloc (order : list nat) (cf : list (nat * list nat)) (cols : list (nat * option (list nat)))
                       (given : list (nat * list nat)) : bool :=
  let callers := assoc cf [] in
  topo_b callers [] order &&
  match run callers (assoc cols None) init order with
  | Some s' => forallb (fun sc => list_eqb (lookup (used s') sc) (lookup given sc)) order
  | None => false
  end.

(* an accepted certificate means: in THAT compilation no scope shares a register with any of its
   transitive callers *)
Theorem check_alloc_sound order cf cols given : check_alloc order cf cols given = true ->
  forall a x r, ancestor (assoc cf []) a x -> In x order -> In a order ->
    In r (lookup given x) -> ~ In r (lookup given a).
Proof.
  unfold check_alloc. intros H a x r Hax Hx Ha Hrx Hra.
  apply andb_prop in H as [Ht H]. apply topo_b_sound in Ht.
  destruct (run (assoc cf []) (assoc cols None) init order) as [s'|] eqn:E; [|discriminate].
  rewrite forallb_forall in H.
  pose proof (list_eqb_eq _ _ (H x Hx)) as Ex. pose proof (list_eqb_eq _ _ (H a Ha)) as Ea.
  rewrite <- Ex in Hrx. rewrite <- Ea in Hra.
  exact (no_register_shared_with_a_transitive_caller _ _ order s' Ht E a x r Hax Hx Hrx Hra).
Qed.

Example alloc_example :
  (* main(0) calls mid(1) (no symbols) which calls leaf(2) *)
  check_alloc [0; 1; 2] [(1, [0]); (2, [1])] [(0, Some [0; 1]); (1, None); (2, Some [0; 1])] [(0, [0; 1]); (2, [2; 3])] = true.
Proof. vm_compute. reflexivity. Qed.
