From Coq Require Import List NArith Bool Lia.
From PV Require Import Base.PyStr Model.Pragma.
Import ListNotations.
Local Open Scope N_scope.

Lemma pystr_eqb_eq a b : pystr_eqb a b = true <-> a = b.
Proof.
  revert b; induction a as [|x a IH]; destruct b as [|y b]; cbn; split; intros H; try discriminate; auto.
  - apply andb_prop in H as [H1 H2]. apply N.eqb_eq in H1. apply IH in H2. congruence.
  - injection H as -> ->. rewrite N.eqb_refl. apply IH. reflexivity.
Qed.
Lemma pystr_eqb_refl a : pystr_eqb a a = true.
Proof. apply pystr_eqb_eq. reflexivity. Qed.
Lemma pystr_eqb_neq a b : a <> b -> pystr_eqb a b = false.
Proof. intros H. destruct (pystr_eqb a b) eqn:E; [apply pystr_eqb_eq in E; contradiction|reflexivity]. Qed.

(* ---------- the scanner is "extract the directives, then apply them in order" ---------- *)
Lemma fold_apply_tag tags o : fold_left apply_tag tags o = apply_all (map norm_tag tags) o.
Proof. revert o; induction tags as [|t r IH]; intros o; cbn; [reflexivity|apply IH]. Qed.

Lemma fold_apply_line lines o :
  fold_left apply_line lines o = apply_all (map norm_tag (flat_map line_tags lines)) o.
Proof.
  revert o; induction lines as [|l r IH]; intros o; cbn; [reflexivity|].
  rewrite IH. unfold apply_line. rewrite fold_apply_tag. unfold apply_all.
  rewrite map_app, fold_left_app. reflexivity.
Qed.

(* the gate `"pytrapic:" in main_module` is redundant: without the key no line has tags *)
Lemma contains_app_l p a b : contains p a = true -> contains p (a ++ b) = true.
Proof.
  assert (forall p a b, starts_with p a = true -> starts_with p (a ++ b) = true) as Hs.
  { clear. induction p as [|x p IH]; intros a b H; [reflexivity|].
    destruct a as [|y a]; [discriminate|]. cbn in *. apply andb_prop in H as [H1 H2].
    rewrite H1. cbn. apply IH. exact H2. }
  induction a as [|y a IH]; cbn; intros H.
  - apply orb_prop in H as [H|H]; [|discriminate]. destruct p; [|discriminate]. destruct b; reflexivity.
  - apply orb_prop in H as [H|H].
    + pose proof (Hs p (y :: a) b H) as K. cbn [app] in K. rewrite K. reflexivity.
    + rewrite (IH H). apply orb_true_r.
Qed.

Lemma contains_cons p c s : contains p s = true -> contains p (c :: s) = true.
Proof. intros H. cbn. rewrite H. apply orb_true_r. Qed.

Lemma line_tags_nil_without_key l : contains KEY l = false -> line_tags l = [].
Proof. intros H. unfold line_tags. rewrite H. reflexivity. Qed.

(* every line produced by splitlines is a contiguous piece of the text *)
Lemma contains_prepend p a s : contains p s = true -> contains p (a ++ s) = true.
Proof. induction a as [|x a IH]; intros H; [exact H|]. cbn [app]. apply contains_cons, IH, H. Qed.

Lemma splitlines_aux_contains p : forall l cur f line,
  (f = true -> cur = []) ->
  In line (splitlines_aux l cur f) -> contains p line = true -> contains p (rev cur ++ l) = true.
Proof.
  induction l as [|c r IH]; intros cur f line Hf Hin Hc.
  - cbn in Hin. destruct cur as [|x cur]; [destruct Hin|]. destruct Hin as [<-|[]].
    rewrite app_nil_r. exact Hc.
  - cbn [splitlines_aux] in Hin. destruct (f && (c =? 10))%bool eqn:Ef.
    + apply andb_prop in Ef as [-> _]. rewrite (Hf eq_refl) in *. cbn [rev app].
      apply contains_cons. exact (IH [] false line (fun H => eq_refl) Hin Hc).
    + destruct (is_lb c) eqn:E.
      * destruct Hin as [<-|Hin]; [apply contains_app_l; exact Hc|].
        apply contains_prepend, contains_cons.
        exact (IH [] _ line (fun _ => eq_refl) Hin Hc).
      * specialize (IH (c :: cur) false line (fun H => False_ind _ (Bool.diff_false_true H)) Hin Hc).
        cbn [rev] in IH. rewrite <- app_assoc in IH. exact IH.
Qed.

Lemma no_key_no_tags src : contains KEY src = false -> flat_map line_tags (splitlines src) = [].
Proof.
  intros H.
  assert (forall (ls : list pystr), (forall l, In l ls -> line_tags l = []) -> flat_map line_tags ls = []) as FM.
  { induction ls as [|l ls IH]; intros K; [reflexivity|]. cbn. rewrite (K l (or_introl eq_refl)).
    apply IH. intros l' Hl. apply K. right. exact Hl. }
  apply FM. intros line Hin.
  apply line_tags_nil_without_key. destruct (contains KEY line) eqn:E; [|reflexivity].
  pose proof (splitlines_aux_contains KEY src [] false line (fun H => eq_refl) Hin E) as K.
  cbn in K. congruence.
Qed.

Theorem scan_eq_spec src o : scan src o = apply_all (directives src) o.
Proof.
  unfold scan, directives. destruct (contains KEY src) eqn:E.
  - apply fold_apply_line.
  - rewrite no_key_no_tags by exact E. reflexivity.
Qed.

(* ---------- consequences of the specification ---------- *)
Lemma set_opt_names o n v : map fst (set_opt o n v) = map fst o.
Proof. unfold set_opt. rewrite map_map. apply map_ext. intros [a b]; cbn. destruct (pystr_eqb a n); reflexivity. Qed.

Lemma apply_directive_names o d : map fst (apply_directive o d) = map fst o.
Proof. unfold apply_directive. destruct (has_field o (fst d)); [apply set_opt_names|reflexivity]. Qed.

Theorem option_names_unchanged ds o : map fst (apply_all ds o) = map fst o.
Proof.
  revert o; induction ds as [|d r IH]; intros o; cbn; [reflexivity|].
  unfold apply_all in IH. rewrite IH. apply apply_directive_names.
Qed.

Lemma lookup_set_same o n v : has_field o n = true -> lookup (set_opt o n v) n = Some v.
Proof.
  induction o as [|[a b] o IH]; cbn; [discriminate|].
  destruct (pystr_eqb a n) eqn:E; cbn; [rewrite E; reflexivity|rewrite E]. exact IH.
Qed.
Lemma lookup_set_other o n m v : m <> n -> lookup (set_opt o m v) n = lookup o n.
Proof.
  intros Hne. induction o as [|[a b] o IH]; cbn; [reflexivity|].
  destruct (pystr_eqb a m) eqn:E; cbn.
  - apply pystr_eqb_eq in E. subst a. rewrite (pystr_eqb_neq m n Hne). exact IH.
  - destruct (pystr_eqb a n); [reflexivity|exact IH].
Qed.
Lemma has_field_set o n m v : has_field (set_opt o m v) n = has_field o n.
Proof.
  unfold has_field, set_opt. induction o as [|[a b] o IH]; cbn; [reflexivity|].
  rewrite IH. destruct (pystr_eqb a m); reflexivity.
Qed.
Lemma has_field_apply o d n : has_field (apply_directive o d) n = has_field o n.
Proof. unfold apply_directive. destruct (has_field o (fst d)); [apply has_field_set|reflexivity]. Qed.

Lemma lookup_apply_directive o d n : has_field o n = true ->
  lookup (apply_directive o d) n = if pystr_eqb (fst d) n then Some (snd d) else lookup o n.
Proof.
  intros Hn. unfold apply_directive. destruct (pystr_eqb (fst d) n) eqn:E.
  - apply pystr_eqb_eq in E. rewrite E, Hn. apply lookup_set_same, Hn.
  - destruct (has_field o (fst d)); [|reflexivity]. apply lookup_set_other.
    intros Heq. rewrite Heq, pystr_eqb_refl in E. discriminate.
Qed.

(* known option: the last directive naming it wins; otherwise the caller's value stays *)
Theorem last_wins ds : forall o n, has_field o n = true ->
  lookup (apply_all ds o) n =
  match last_directive ds n with Some v => Some v | None => lookup o n end.
Proof.
  induction ds as [|d r IH]; intros o n Hn; cbn; [reflexivity|].
  unfold apply_all in IH. rewrite IH by (rewrite has_field_apply; exact Hn).
  destruct (last_directive r n); [reflexivity|]. rewrite lookup_apply_directive by exact Hn.
  destruct (pystr_eqb (fst d) n); reflexivity.
Qed.

(* unknown names are ignored: a directive that names no field changes nothing *)
Theorem unknown_ignored o d : has_field o (fst d) = false -> apply_directive o d = o.
Proof. intros H. unfold apply_directive. rewrite H. reflexivity. Qed.

(* options not named by any directive keep the caller's value *)
Theorem unnamed_untouched ds o n : has_field o n = true -> last_directive ds n = None ->
  lookup (apply_all ds o) n = lookup o n.
Proof. intros Hn Hl. rewrite last_wins by exact Hn. rewrite Hl. reflexivity. Qed.

(* lines whose first non-blank character is not '#' carry no directive, whatever they contain *)
Lemma starts_with_app p a b : starts_with p a = true -> starts_with p (a ++ b) = true.
Proof.
  revert a; induction p as [|x p IH]; intros a H; [reflexivity|].
  destruct a as [|y a]; [discriminate|]. cbn in *. apply andb_prop in H as [H1 H2].
  rewrite H1. cbn. apply IH. exact H2.
Qed.

Lemma lstrip_suffix a : exists pre, a = pre ++ lstrip a.
Proof.
  induction a as [|z a (pre & Hp)]; [exists []; reflexivity|].
  cbn. destruct (is_space z); [exists (z :: pre); cbn; congruence|exists []; reflexivity].
Qed.

Lemma rstrip_prefix m : exists suf, m = rstrip m ++ suf.
Proof.
  unfold rstrip. destruct (lstrip_suffix (rev m)) as (pre & Hp).
  exists (rev pre). apply (f_equal (@rev N)) in Hp. rewrite rev_involutive, rev_app_distr in Hp. exact Hp.
Qed.

Lemma lstrip_strip_starts l c : starts_with [c] (strip l) = true -> starts_with [c] (lstrip l) = true.
Proof.
  unfold strip. intros H. destruct (rstrip_prefix (lstrip l)) as (suf & Hs).
  rewrite Hs. apply starts_with_app. exact H.
Qed.

Theorem code_lines_inert line : starts_with [HASHCH] (lstrip line) = false -> line_tags line = [].
Proof.
  intros H. unfold line_tags. destruct (contains KEY line); [|reflexivity]. cbn [negb].
  destruct (starts_with [HASHCH] (strip line)) eqn:E; [|reflexivity].
  apply lstrip_strip_starts in E. congruence.
Qed.

(* '-' and '_' are treated alike in option names *)
Theorem dash_underscore_alike tag : norm_tag (replace_char DASH UNDERSCORE tag) = norm_tag tag.
Proof.
  assert (forall s, replace_char DASH UNDERSCORE (replace_char DASH UNDERSCORE s) = replace_char DASH UNDERSCORE s) as Idem.
  { intros s. unfold replace_char. rewrite map_map. apply map_ext. intros c.
    destruct (c =? DASH) eqn:E; [reflexivity|rewrite E; reflexivity]. }
  assert (forall s, lstrip (replace_char DASH UNDERSCORE s) = replace_char DASH UNDERSCORE (lstrip s)) as Ls.
  { induction s as [|c s IH]; [reflexivity|]. cbn. destruct (c =? DASH) eqn:E.
    - apply N.eqb_eq in E. subst c. cbn. reflexivity.
    - destruct (is_space c); [exact IH|cbn; rewrite E; reflexivity]. }
  assert (forall s, strip (replace_char DASH UNDERSCORE s) = replace_char DASH UNDERSCORE (strip s)) as St.
  { intros s. unfold strip, rstrip. rewrite Ls. unfold replace_char at 1. rewrite <- map_rev.
    fold (replace_char DASH UNDERSCORE (rev (lstrip s))). rewrite Ls. unfold replace_char. rewrite map_rev. reflexivity. }
  unfold norm_tag. rewrite St, Idem. reflexivity.
Qed.
