(* Layout of the emitted program: the main code first, then one region per emitted function.
   `closed` is the static condition that makes "function bodies are entered only through calls"
   true for sequential flow: the line before every region entry cannot fall through. *)
From Coq Require Import List ZArith Bool Arith.
From PV Require Import IC10.Values IC10.Machine.
Import ListNotations.

Section Layout.
Context {val : Type}.
Notation line := (@line val).
Notation program := (@program val).

Definition is_control (op : opcode) : bool :=
  match op with
  | IJ | IJal | IJr | IBr _ _ _ | IBrz _ _ _ | IBnan _ | IBdse _ _ | IBdns _ _ | IHcf => true
  | _ => false
  end.

(* can execution continue with the next line after this one? *)
Definition seq_falls (l : line) : bool :=
  match l with
  | LLabel _ => true
  | LInstr op _ => match op with IJ | IJr | IHcf => false | _ => true end
  end.

(* entries: index of the first line of every function region *)
Definition closed (p : program) (entries : list nat) : bool :=
  forallb (fun e => match e with
                    | O => false
                    | S k => match nth_error p k with Some l => negb (seq_falls l) | None => false end
                    end) entries.
End Layout.
