(* Model of the statistics tail of CompilerPassGatherCode.get_code.  The three expressions
   are regenerated from the source (PVGen.GenStats) as terms of `sexpr`. *)
From Coq Require Import List NArith ZArith Bool String.
From PV Require Import Base.PyStr.
Import ListNotations.

Inductive sexpr :=
| SLenSplitlines            (* len(s.splitlines()) *)
| SLenS                     (* len(s) *)
| SLenUsedRegisters         (* len(self.used_registers) *)
| SConst (z : Z)
| SVar (name : string)      (* an earlier statistic *)
| SAdd (a b : sexpr)
| SSub (a b : sexpr)
| SMax (a b : sexpr).

Fixpoint lookupZ (k : string) (env : list (string * Z)) : Z :=
  match env with [] => 0%Z | (k', v) :: r => if String.eqb k k' then v else lookupZ k r end.

Fixpoint seval (s : pystr) (nregs : nat) (env : list (string * Z)) (e : sexpr) : Z :=
  match e with
  | SLenSplitlines => Z.of_nat (List.length (splitlines s))
  | SLenS => Z.of_nat (List.length s)
  | SLenUsedRegisters => Z.of_nat nregs
  | SConst z => z
  | SVar n => lookupZ n env
  | SAdd a b => (seval s nregs env a + seval s nregs env b)%Z
  | SSub a b => (seval s nregs env a - seval s nregs env b)%Z
  | SMax a b => Z.max (seval s nregs env a) (seval s nregs env b)
  end.

(* assignments are evaluated in order, each seeing the earlier ones *)
Fixpoint run_stats (s : pystr) (nregs : nat) (defs : list (string * sexpr)) (env : list (string * Z))
  : list (string * Z) :=
  match defs with
  | [] => env
  | (n, e) :: r => run_stats s nregs r ((n, seval s nregs env e) :: env)
  end.

Definition model_stats : list (string * sexpr) :=
  [("num_lines", SLenSplitlines); ("num_registers", SLenUsedRegisters);
   ("num_bytes", SAdd SLenS (SMax (SSub (SVar "num_lines") (SConst 1)) (SConst 0)))]%string.

(* reference meanings *)
Definition count_nl (s : pystr) : nat := count_char 10 s.
(* size with two-byte line ends: every "\n" written as "\r\n" *)
Definition crlf_size (s : pystr) : nat := List.length s + count_nl s.
(* number of lines of a text whose only line separator is "\n": separators + 1 *)
Definition line_count (s : pystr) : nat := count_nl s + 1.

(* a finished program text: non-empty, "\n" is the only line boundary, no trailing "\n" *)
Definition plain_text (s : pystr) : Prop :=
  s <> [] /\ (forall c, In c s -> is_lb c = true -> c = 10%N) /\ last s 0%N <> 10%N.
