From Coq Require Import List Arith Bool Lia.
From PV Require Import Model.RaInsert.
Import ListNotations.

Lemma insert_at_app {X} (a b : list X) (x : X) : insert_at (length a) x (a ++ b) = a ++ x :: b.
Proof. induction a as [|y a IH]; cbn; [destruct b; reflexivity|]. rewrite IH. reflexivity. Qed.

Lemma insert_after {X} (body : list X) e x r : insert_at (S (length body)) x (body ++ e :: r) = body ++ e :: x :: r.
Proof. induction body as [|b body IH]; cbn; [destruct r; reflexivity|]. f_equal. exact IH. Qed.

Lemma last_endlab_app body i acc : 
  (forall x, In x body -> x <> EndLab) ->
  last_endlab (body ++ [EndLab; JRa]) i acc = Some (i + length body).
Proof.
  revert i acc. induction body as [|b body IH]; intros i acc H; cbn.
  - f_equal. lia.
  - assert (b <> EndLab) as Hb by (apply H; left; reflexivity).
    assert (forall x, In x body -> x <> EndLab) as Hr by (intros x Hx; apply H; right; exact Hx).
    destruct b; try contradiction; rewrite IH by exact Hr; f_equal; lia.
Qed.

(* Fixed-slot convention, every function of the emitted shape
       <label> body... <name>end: j ra
   (early returns inside the body are jumps to <name>end): if the body makes a call, the result
   is   <label> push ra body... <name>end: pop ra j ra  — one push on entry, one pop on the single
   exit path, placed after the end label so that early returns pass through it too. *)
Theorem add_ra_fixed_shape body :
  (forall x, In x body -> x <> EndLab) -> have_calls body = true ->
  add_ra_fixed (Lab :: body ++ [EndLab; JRa]) = Some (Lab :: PushRa :: body ++ [EndLab; PopRa; JRa]).
Proof.
  intros Hne Hc. unfold add_ra_fixed.
  assert (have_calls (Lab :: body ++ [EndLab; JRa]) = true) as C1.
  { unfold have_calls in *. cbn. rewrite existsb_app, Hc. reflexivity. }
  assert (have_returns (Lab :: body ++ [EndLab; JRa]) = true) as C2.
  { unfold have_returns. cbn. rewrite existsb_app. cbn. apply orb_true_r. }
  rewrite C1, C2. cbn [andb last_endlab]. rewrite last_endlab_app by exact Hne.
  f_equal. replace (1 + length body + 2) with (S (S (S (length body)))) by lia.
  cbn [insert_at]. f_equal. f_equal. apply insert_after.
Qed.

(* a function without calls, or without a return, is left alone *)
Theorem add_ra_fixed_untouched c : have_calls c && have_returns c = false -> add_ra_fixed c = Some c.
Proof. intros H. unfold add_ra_fixed. rewrite H. reflexivity. Qed.
