(* Proofs about the share-link codec model: round trip for every byte list, URL-safe
   alphabet, length never 1 mod 4. *)
From Coq Require Import List NArith ZArith Bool Lia ZifyBool ZifyN.
From PV Require Import Base.Base64 Model.ShareLink.
Import ListNotations.
Local Open Scope N_scope.
Ltac Zify.zify_post_hook ::= Z.div_mod_to_equations.

(* ---------- finite sweep over the 64 sextets, lifted to all s < 64 ---------- *)
Definition g (c : N) : N := let c1 := if c =? 43 then 45 else c in if c1 =? 47 then 95 else c1.
Definition h (c : N) : N := let c1 := if c =? 45 then 43 else c in if c1 =? 95 then 47 else c1.

Definition sextet_ok (s : N) : bool :=
  let e := enc_char s in
  negb (e =? PAD) && negb (g e =? PAD) && negb (h (g e) =? PAD)
  && (match dec_char e with Some s' => s' =? s | None => false end)
  && (h (g e) =? e) && urlsafe_char (g e).

Lemma sweep64 : forallb sextet_ok (map N.of_nat (seq 0 64)) = true.
Proof. vm_compute. reflexivity. Qed.

Lemma sextet_ok_all s : s < 64 -> sextet_ok s = true.
Proof.
  intros Hs. pose proof sweep64 as H. rewrite forallb_forall in H. apply H.
  apply in_map_iff. exists (N.to_nat s). split; [apply N2Nat.id|]. apply in_seq. lia.
Qed.

Lemma sextet_facts s : s < 64 ->
  enc_char s <> PAD /\ g (enc_char s) <> PAD /\ h (g (enc_char s)) = enc_char s /\
  dec_char (enc_char s) = Some s /\ urlsafe_char (g (enc_char s)) = true.
Proof.
  intros Hs. pose proof (sextet_ok_all s Hs) as H. unfold sextet_ok in H.
  repeat (apply andb_prop in H; destruct H as [H ?]).
  destruct (dec_char (enc_char s)) as [s'|] eqn:Hd; [|discriminate].
  repeat split; try lia; try assumption.
  f_equal. lia.
Qed.

(* ---------- arithmetic of the 3-byte / 4-sextet regrouping ---------- *)
Lemma regroup a b c : a < 256 -> b < 256 -> c < 256 ->
  let s1 := a / 4 in let s2 := (a mod 4) * 16 + b / 16 in
  let s3 := (b mod 16) * 4 + c / 64 in let s4 := c mod 64 in
  s1 < 64 /\ s2 < 64 /\ s3 < 64 /\ s4 < 64 /\
  s1 * 4 + s2 / 16 = a /\ (s2 mod 16) * 16 + s3 / 4 = b /\ (s3 mod 4) * 64 + s4 = c.
Proof. intros; cbv zeta; repeat split; lia. Qed.

Lemma regroup2 a b : a < 256 -> b < 256 ->
  let s1 := a / 4 in let s2 := (a mod 4) * 16 + b / 16 in let s3 := (b mod 16) * 4 in
  s1 < 64 /\ s2 < 64 /\ s3 < 64 /\ s1 * 4 + s2 / 16 = a /\ (s2 mod 16) * 16 + s3 / 4 = b.
Proof. intros; cbv zeta; repeat split; lia. Qed.

Lemma regroup1 a : a < 256 ->
  let s1 := a / 4 in let s2 := (a mod 4) * 16 in
  s1 < 64 /\ s2 < 64 /\ s1 * 4 + s2 / 16 = a.
Proof. intros; cbv zeta; repeat split; lia. Qed.

(* ---------- induction in steps of three ---------- *)
Lemma list_ind3 {A} (P : list A -> Prop) :
  P [] -> (forall a, P [a]) -> (forall a b, P [a; b]) ->
  (forall a b c r, P r -> P (a :: b :: c :: r)) -> forall l, P l.
Proof.
  intros H0 H1 H2 H3.
  assert (forall l, P l /\ (forall a, P (a :: l)) /\ (forall a b, P (a :: b :: l))) as H.
  { induction l as [|x l (IH0 & IH1 & IH2)]; [repeat split; auto|].
    repeat split; auto. }
  intros l; apply H.
Qed.

(* ---------- the chains as maps ---------- *)
Lemma enc_chain_eq l : apply_chain enc_chain l = strip_ch PAD (map g l).
Proof.
  unfold apply_chain, enc_chain; cbn [fold_left apply_step]. unfold repl.
  rewrite map_map. reflexivity.
Qed.

Lemma dec_chain_eq l : apply_chain dec_chain l = map h l.
Proof.
  unfold apply_chain, dec_chain; cbn [fold_left apply_step]. unfold repl.
  rewrite map_map. reflexivity.
Qed.

Lemma strip_app ch l1 l2 : strip_ch ch (l1 ++ l2) = strip_ch ch l1 ++ strip_ch ch l2.
Proof. unfold strip_ch. apply filter_app. Qed.

Lemma h_pad : h PAD = PAD. Proof. reflexivity. Qed.
Lemma g_pad : g PAD = PAD. Proof. reflexivity. Qed.

Definition uq (a b c : N) : list N := map g (quad a b c).

Lemma strip_keep c : c <> PAD -> strip_ch PAD [c] = [c].
Proof. intros Hc. unfold strip_ch; cbn. destruct (c =? PAD) eqn:E; [lia|reflexivity]. Qed.

Lemma url_encode_step a b c r : a < 256 -> b < 256 -> c < 256 ->
  url_encode (a :: b :: c :: r) = uq a b c ++ url_encode r.
Proof.
  intros Ha Hb Hc. unfold url_encode. rewrite !enc_chain_eq.
  cbn [b64_encode]. rewrite map_app, strip_app. f_equal.
  destruct (regroup a b c Ha Hb Hc) as (H1 & H2 & H3 & H4 & _).
  unfold uq, quad. cbn [map].
  pose proof (sextet_facts _ H1) as (_ & G1 & _).
  pose proof (sextet_facts _ H2) as (_ & G2 & _).
  pose proof (sextet_facts _ H3) as (_ & G3 & _).
  pose proof (sextet_facts _ H4) as (_ & G4 & _).
  unfold strip_ch; cbn [filter].
  repeat match goal with |- context [negb (?x =? PAD)] =>
    let E := fresh in destruct (x =? PAD) eqn:E; [lia|]; cbn [negb] end.
  reflexivity.
Qed.

Lemma pad_app4 x y : length x = 4%nat -> pad (x ++ y) = x ++ pad y.
Proof.
  intros Hx. unfold pad. rewrite app_length, Hx.
  replace (N.of_nat (4 + length y) mod 4) with (N.of_nat (length y) mod 4) by lia.
  destruct (N.of_nat (length y) mod 4 =? 0); [reflexivity|]. rewrite app_assoc. reflexivity.
Qed.

Lemma decode_quad a b c rest : a < 256 -> b < 256 -> c < 256 ->
  b64_decode (map h (uq a b c) ++ rest) =
  match b64_decode rest with Some t => Some (a :: b :: c :: t) | None => None end.
Proof.
  intros Ha Hb Hc.
  destruct (regroup a b c Ha Hb Hc) as (H1 & H2 & H3 & H4 & E1 & E2 & E3).
  pose proof (sextet_facts _ H1) as (P1 & _ & R1 & D1 & _).
  pose proof (sextet_facts _ H2) as (P2 & _ & R2 & D2 & _).
  pose proof (sextet_facts _ H3) as (P3 & _ & R3 & D3 & _).
  pose proof (sextet_facts _ H4) as (P4 & _ & R4 & D4 & _).
  unfold uq, quad. cbn [map app]. rewrite R1, R2, R3, R4.
  cbn [b64_decode]. rewrite D1, D2, D3, D4.
  destruct (_ =? PAD) eqn:X3; [lia|]. destruct (enc_char (c mod 64) =? PAD) eqn:X4; [lia|].
  destruct (b64_decode rest); [|reflexivity]. rewrite E1, E2, E3. reflexivity.
Qed.

Lemma Forall_lt3 (P : N -> Prop) a b c r : Forall P (a :: b :: c :: r) -> P a /\ P b /\ P c /\ Forall P r.
Proof.
  intros H. pose proof (Forall_inv H) as Ha. apply Forall_inv_tail in H.
  pose proof (Forall_inv H) as Hb. apply Forall_inv_tail in H.
  pose proof (Forall_inv H) as Hc. apply Forall_inv_tail in H. auto.
Qed.

Theorem url_roundtrip bs : Forall (fun b => b < 256) bs -> url_decode (url_encode bs) = Some bs.
Proof.
  induction bs as [|a|a b|a b c r IH] using list_ind3; intros HF.
  - reflexivity.
  - inversion HF as [|? ? Ha _]; subst.
    destruct (regroup1 a Ha) as (H1 & H2 & E1).
    pose proof (sextet_facts _ H1) as (P1 & G1 & R1 & D1 & _).
    pose proof (sextet_facts _ H2) as (P2 & G2 & R2 & D2 & _).
    unfold url_decode, url_encode. rewrite enc_chain_eq, dec_chain_eq.
    cbn [b64_encode map]. rewrite g_pad. unfold strip_ch; cbn [filter].
    destruct (g (enc_char (a / 4)) =? PAD) eqn:X1; [lia|].
    destruct (g (enc_char (a mod 4 * 16)) =? PAD) eqn:X2; [lia|].
    cbn. rewrite R1, R2. cbn [b64_decode]. rewrite D1, D2. cbn. rewrite E1. reflexivity.
  - apply Forall_inv in HF as Ha'. apply Forall_inv_tail in HF. apply Forall_inv in HF as Hb'.
    destruct (regroup2 a b Ha' Hb') as (H1 & H2 & H3 & E1 & E2).
    pose proof (sextet_facts _ H1) as (P1 & G1 & R1 & D1 & _).
    pose proof (sextet_facts _ H2) as (P2 & G2 & R2 & D2 & _).
    pose proof (sextet_facts _ H3) as (P3 & G3 & R3 & D3 & _).
    unfold url_decode, url_encode. rewrite enc_chain_eq, dec_chain_eq.
    cbn [b64_encode map]. rewrite g_pad. unfold strip_ch; cbn [filter].
    destruct (g (enc_char (a / 4)) =? PAD) eqn:X1; [lia|].
    destruct (g (enc_char (a mod 4 * 16 + b / 16)) =? PAD) eqn:X2; [lia|].
    destruct (g (enc_char (b mod 16 * 4)) =? PAD) eqn:X3; [lia|].
    cbn. rewrite R1, R2, R3. cbn [b64_decode]. rewrite D1, D2, D3.
    destruct (enc_char (b mod 16 * 4) =? PAD) eqn:X4; [lia|]. cbn. rewrite E1, E2. reflexivity.
  - apply Forall_lt3 in HF as (Ha & Hb & Hc & Hr).
    unfold url_decode. rewrite url_encode_step by assumption.
    rewrite pad_app4 by reflexivity. rewrite dec_chain_eq, map_app.
    rewrite decode_quad by assumption. specialize (IH Hr). unfold url_decode in IH.
    rewrite dec_chain_eq in IH. rewrite IH. reflexivity.
Qed.

Theorem url_alphabet bs : Forall (fun b => b < 256) bs -> forallb urlsafe_char (url_encode bs) = true.
Proof.
  induction bs as [|a|a b|a b c r IH] using list_ind3; intros HF.
  - reflexivity.
  - inversion HF as [|? ? Ha _]; subst.
    destruct (regroup1 a Ha) as (H1 & H2 & E1).
    pose proof (sextet_facts _ H1) as (P1 & G1 & R1 & D1 & U1).
    pose proof (sextet_facts _ H2) as (P2 & G2 & R2 & D2 & U2).
    unfold url_encode. rewrite enc_chain_eq. cbn [b64_encode map]. rewrite g_pad.
    unfold strip_ch; cbn [filter].
    destruct (g (enc_char (a / 4)) =? PAD) eqn:X1; [lia|].
    destruct (g (enc_char (a mod 4 * 16)) =? PAD) eqn:X2; [lia|].
    cbn. rewrite U1, U2. reflexivity.
  - apply Forall_inv in HF as Ha'. apply Forall_inv_tail in HF. apply Forall_inv in HF as Hb'.
    destruct (regroup2 a b Ha' Hb') as (H1 & H2 & H3 & E1 & E2).
    pose proof (sextet_facts _ H1) as (P1 & G1 & R1 & D1 & U1).
    pose proof (sextet_facts _ H2) as (P2 & G2 & R2 & D2 & U2).
    pose proof (sextet_facts _ H3) as (P3 & G3 & R3 & D3 & U3).
    unfold url_encode. rewrite enc_chain_eq. cbn [b64_encode map]. rewrite g_pad.
    unfold strip_ch; cbn [filter].
    destruct (g (enc_char (a / 4)) =? PAD) eqn:X1; [lia|].
    destruct (g (enc_char (a mod 4 * 16 + b / 16)) =? PAD) eqn:X2; [lia|].
    destruct (g (enc_char (b mod 16 * 4)) =? PAD) eqn:X3; [lia|].
    cbn. rewrite U1, U2, U3. reflexivity.
  - apply Forall_lt3 in HF as (Ha & Hb & Hc & Hr).
    rewrite url_encode_step by assumption. rewrite forallb_app, IH by assumption.
    destruct (regroup a b c Ha Hb Hc) as (H1 & H2 & H3 & H4 & _).
    pose proof (sextet_facts _ H1) as (_ & _ & _ & _ & U1).
    pose proof (sextet_facts _ H2) as (_ & _ & _ & _ & U2).
    pose proof (sextet_facts _ H3) as (_ & _ & _ & _ & U3).
    pose proof (sextet_facts _ H4) as (_ & _ & _ & _ & U4).
    unfold uq, quad. cbn [map forallb]. rewrite U1, U2, U3, U4. reflexivity.
Qed.

Theorem url_length_not_1_mod_4 bs : Forall (fun b => b < 256) bs ->
  N.of_nat (length (url_encode bs)) mod 4 <> 1.
Proof.
  induction bs as [|a|a b|a b c r IH] using list_ind3; intros HF.
  - cbn. lia.
  - inversion HF as [|? ? Ha _]; subst.
    destruct (regroup1 a Ha) as (H1 & H2 & E1).
    pose proof (sextet_facts _ H1) as (P1 & G1 & _).
    pose proof (sextet_facts _ H2) as (P2 & G2 & _).
    unfold url_encode. rewrite enc_chain_eq. cbn [b64_encode map]. rewrite g_pad.
    unfold strip_ch; cbn [filter].
    destruct (g (enc_char (a / 4)) =? PAD) eqn:X1; [lia|].
    destruct (g (enc_char (a mod 4 * 16)) =? PAD) eqn:X2; [lia|].
    cbn. lia.
  - apply Forall_inv in HF as Ha'. apply Forall_inv_tail in HF. apply Forall_inv in HF as Hb'.
    destruct (regroup2 a b Ha' Hb') as (H1 & H2 & H3 & E1 & E2).
    pose proof (sextet_facts _ H1) as (P1 & G1 & _).
    pose proof (sextet_facts _ H2) as (P2 & G2 & _).
    pose proof (sextet_facts _ H3) as (P3 & G3 & _).
    unfold url_encode. rewrite enc_chain_eq. cbn [b64_encode map]. rewrite g_pad.
    unfold strip_ch; cbn [filter].
    destruct (g (enc_char (a / 4)) =? PAD) eqn:X1; [lia|].
    destruct (g (enc_char (a mod 4 * 16 + b / 16)) =? PAD) eqn:X2; [lia|].
    destruct (g (enc_char (b mod 16 * 4)) =? PAD) eqn:X3; [lia|].
    cbn. lia.
  - apply Forall_lt3 in HF as (Ha & Hb & Hc & Hr).
    rewrite url_encode_step by assumption. rewrite app_length.
    specialize (IH Hr). unfold uq, quad. cbn [map length]. lia.
Qed.

(* ---------- the whole pipeline with zlib / JSON / UTF-8 as oracles ---------- *)
Section Pipeline.
  Variable J : Type.                                 (* JSON-serialisable values *)
  Variable ser : J -> list N.                        (* json.dumps(d).encode() *)
  Variable deser : list N -> option J.               (* json.loads(bytes.decode()) *)
  Variable compress decompress_ : list N -> list N.  (* zlib.compress / zlib.decompress *)
  Hypothesis deser_ser : forall d, deser (ser d) = Some d.
  Hypothesis zlib_roundtrip : forall bs, decompress_ (compress bs) = bs.
  Hypothesis compress_bytes : forall bs, Forall (fun b => b < 256) (compress bs).

  Definition encode_data (d : J) : list N := url_encode (compress (ser d)).
  Definition decode_data (s : list N) : option J :=
    match url_decode s with Some bs => deser (decompress_ bs) | None => None end.

  Theorem share_roundtrip d : decode_data (encode_data d) = Some d.
  Proof using deser_ser zlib_roundtrip compress_bytes.
    unfold decode_data, encode_data. rewrite url_roundtrip by apply compress_bytes.
    rewrite zlib_roundtrip. apply deser_ser.
  Qed.

  Theorem share_urlsafe d : forallb urlsafe_char (encode_data d) = true.
  Proof using compress_bytes. unfold encode_data. apply url_alphabet, compress_bytes. Qed.
End Pipeline.
