(* The test of an `if` statement (generate_code.py handle_if): which branch is kept for a constant test,
   and which branch instruction guards the body for a run-time test, with and without `not`.

   gen_* come from coq/gen/GenIfTest.v, regenerated from /repo on every run by tools/pyt2coq/iftest.py.
   Python:  `if c: B else: E`  runs B iff c is true;  `if not c: B else: E`  runs B iff c is false. *)
From Coq Require Import String List Bool.
From PV Require Import IC10.Values IC10.Machine.
From PVGen Require Import GenIfTest.
Import ListNotations.
Local Open Scope string_scope.

Definition python_runs_body (v negated : bool) : bool := xorb v negated.

(* ------------------------------------------------------------------ constant tests *)
(* EI / EE say whether the two bodies are non-empty; a kept body is emitted without any guard *)
Lemma const_test_spec : forall v n ei ee,
  gen_const_test v n ei ee = (ei && python_runs_body v n, ee && negb (python_runs_body v n)).
Proof. intros [] [] [] []; reflexivity. Qed.

Lemma literal_test_spec : forall v n ei ee,
  gen_literal_test v n ei ee = (ei && python_runs_body v n, ee && negb (python_runs_body v n)).
Proof. intros [] [] [] []; reflexivity. Qed.

(* ------------------------------------------------------------------ run-time tests *)
(* every run-time test is one branch instruction to the else label placed before the body: the body runs
   iff the branch is NOT taken *)

(* comparison  a <rel> b : `b<suffix>` is taken iff the relation named by the suffix holds.  r is the
   truth of the source relation; the negated suffix names its complement (for ordered operands: the NaN
   case is C01_negated_branch_nan_refuted) *)
Definition compare_branch_taken (uses_negated r : bool) : bool := if uses_negated then negb r else r.
Lemma compare_branch_spec : forall n r,
  compare_branch_taken (gen_compare_uses_negated_suffix n) r = negb (python_runs_body r n).
Proof. intros [] []; reflexivity. Qed.

(* plain value: bnez / beqz *)
Definition value_branch_taken (op : string) (t : bool) : option bool :=
  if String.eqb op "bnez" then Some t else if String.eqb op "beqz" then Some (negb t) else None.
Lemma value_branch_spec : forall n t,
  value_branch_taken (gen_value_branch n) t = Some (negb (python_runs_body t n)).
Proof. intros [] []; reflexivity. Qed.

(* device tests sdse(d) / sdns(d) turned into bdse / bdns *)
Definition device_test_value (f : string) (set : bool) : option bool :=
  if String.eqb f "sdse" then Some set else if String.eqb f "sdns" then Some (negb set) else None.
Definition device_branch_taken (op : string) (set : bool) : option bool :=
  if String.eqb op "bdse" then Some set else if String.eqb op "bdns" then Some (negb set) else None.
Lemma device_branch_spec : forall f n set tv,
  device_test_value f set = Some tv ->
  device_branch_taken (gen_device_test_branch f n) set = Some (negb (python_runs_body tv n)).
Proof.
  intros f n set tv H. unfold device_test_value in H.
  destruct (String.eqb f "sdse") eqn:E1.
  - apply String.eqb_eq in E1; subst f. inversion H; subst tv. destruct n, set; reflexivity.
  - destruct (String.eqb f "sdns") eqn:E2; [|discriminate].
    apply String.eqb_eq in E2; subst f. inversion H; subst tv. destruct n, set; reflexivity.
Qed.
Lemma negate_reaches_the_device_test : gen_negate_is_passed = true.
Proof. reflexivity. Qed.

(* the two functions above restate the reference machine: sdse / sdns write, bdse / bdns branch on, the
   same device-set reading *)
Section Link.
Context {val : Type}.
Variable A : valg val.
Variable O : @oracle val.
Lemma machine_sdse p s d dev v : read O s RKsdse (odev A s dev) = Some v ->
  exec A O p s ISdse [d; dev] = wr s d (Some (of_bool A (truthy A v))).
Proof. intros H; cbn [exec]; rewrite H; reflexivity. Qed.
Lemma machine_sdns p s d dev v : read O s RKsdse (odev A s dev) = Some v ->
  exec A O p s ISdns [d; dev] = wr s d (Some (of_bool A (negb (truthy A v)))).
Proof. intros H; cbn [exec]; rewrite H; reflexivity. Qed.
Lemma machine_bdse p s dev t v : read O s RKsdse (odev A s dev) = Some v ->
  exec A O p s (IBdse false false) [dev; t] = branch A s (truthy A v) (oval A p s t) false false.
Proof. intros H; cbn [exec]; rewrite H; reflexivity. Qed.
Lemma machine_bdns p s dev t v : read O s RKsdse (odev A s dev) = Some v ->
  exec A O p s (IBdns false false) [dev; t] = branch A s (negb (truthy A v)) (oval A p s t) false false.
Proof. intros H; cbn [exec]; rewrite H; reflexivity. Qed.
End Link.
