(* generate_code.remove_unused_labels: label lines that no token refers to are dropped, nothing else.

   A line is given as its raw text and its tokens (Python's str.split(), computed by the harness).
   The executable model `rul` is compared with the real function on emitted and adversarial texts in
   every run of C05; the theorems hold for every program. *)
From Coq Require Import List String Ascii Bool Arith Lia.
Import ListNotations.
Local Open Scope string_scope.

Record tline := { raw : string; toks : list string }.

Fixpoint ends_colon (s : string) : bool :=
  match s with
  | EmptyString => false
  | String c EmptyString => Ascii.eqb c ":"%char
  | String _ r => ends_colon r
  end.
Fixpoint drop_last (s : string) : string :=
  match s with
  | EmptyString => EmptyString
  | String _ EmptyString => EmptyString
  | String c r => String c (drop_last r)
  end.

(* `len(tokens) == 1 and tokens[0].endswith(":")`  ->  labels.add(tokens[0][:-1]) *)
Definition defines (l : tline) : option string :=
  match toks l with
  | [t] => if ends_colon t then Some (drop_last t) else None
  | _ => None
  end.
Definition labels (p : list tline) : list string :=
  flat_map (fun l => match defines l with Some x => [x] | None => [] end) p.
Definition mem (x : string) (xs : list string) : bool := existsb (String.eqb x) xs.
(* `label in tokens` for some line *)
Definition used (p : list tline) (x : string) : bool := existsb (fun l => mem x (toks l)) p.
(* `line.endswith(":") and line[:-1] in unused_labels` *)
Definition dropped (p : list tline) (l : tline) : bool :=
  ends_colon (raw l) && mem (drop_last (raw l)) (labels p) && negb (used p (drop_last (raw l))).
Definition rul (p : list tline) : list tline := filter (fun l => negb (dropped p l)) p.

(* ------------------------------------------------------------------ *)
Lemma mem_In x xs : mem x xs = true <-> In x xs.
Proof.
  unfold mem. rewrite existsb_exists. split.
  - intros [y [Hy E]]. apply String.eqb_eq in E. subst; exact Hy.
  - intros H. exists x. split; [exact H | apply String.eqb_refl].
Qed.

(* 1. the result is the program with some lines left out, in order *)
Inductive sublist {X} : list X -> list X -> Prop :=
| sub_nil : sublist [] []
| sub_keep x a b : sublist a b -> sublist (x :: a) (x :: b)
| sub_skip x a b : sublist a b -> sublist a (x :: b).
Lemma filter_sublist {X} (f : X -> bool) l : sublist (filter f l) l.
Proof. induction l as [|x l IH]; cbn; [constructor|]. destruct (f x); constructor; exact IH. Qed.
Theorem rul_sublist p : sublist (rul p) p.
Proof. apply filter_sublist. Qed.

(* 2. only lines whose text is `<label>:` for a defined label that NO token of the program mentions go *)
Theorem rul_drops_only_unreferenced_labels p l :
  In l p -> ~ In l (rul p) ->
  ends_colon (raw l) = true /\ In (drop_last (raw l)) (labels p) /\
  forall l', In l' p -> ~ In (drop_last (raw l)) (toks l').
Proof.
  intros Hin Hout. unfold rul in Hout. rewrite filter_In in Hout.
  destruct (dropped p l) eqn:D.
  - unfold dropped in D. apply andb_prop in D as [D1 D3]. apply andb_prop in D1 as [D1 D2].
    repeat split; [exact D1 | apply mem_In; exact D2 |].
    intros l' Hl' Hm. apply negb_true_iff in D3.
    assert (used p (drop_last (raw l)) = true) as U.
    { unfold used. apply existsb_exists. exists l'. split; [exact Hl' | apply mem_In; exact Hm]. }
    congruence.
  - exfalso. apply Hout. split; [exact Hin | reflexivity].
Qed.

(* 3. every line that is not the bare text of a label stays: no instruction is ever removed *)
Theorem rul_keeps_instructions p l : In l p -> ends_colon (raw l) = false -> In l (rul p).
Proof.
  intros Hin He. unfold rul. apply filter_In. split; [exact Hin|].
  unfold dropped. rewrite He. reflexivity.
Qed.

(* 4. a label that some token refers to keeps every one of its definition lines *)
Theorem rul_keeps_referenced_labels p x l l' :
  In l p -> In l' p -> In x (toks l') -> drop_last (raw l) = x -> In l (rul p).
Proof.
  intros Hin Hin' Hx Hr. unfold rul. apply filter_In. split; [exact Hin|].
  unfold dropped. assert (used p (drop_last (raw l)) = true) as U.
  { unfold used. apply existsb_exists. exists l'. split; [exact Hin'|]. apply mem_In. rewrite Hr. exact Hx. }
  rewrite U. cbn. rewrite andb_false_r. reflexivity.
Qed.

(* 5. no dangling reference is created: when the raw text of a definition line is its token (no
   indentation, the shape the emitter produces), a label that is defined in p and mentioned by a line
   of the result is still defined in the result *)
Definition plain_defs (p : list tline) : Prop :=
  forall l x, In l p -> defines l = Some x -> raw l = x ++ ":".

Lemma drop_last_cons c a s : drop_last (String c (String a s)) = String c (drop_last (String a s)).
Proof. reflexivity. Qed.
Lemma drop_last_app_colon x : drop_last (x ++ ":") = x.
Proof.
  induction x as [|c r IH]; [reflexivity|].
  change ((String c r) ++ ":") with (String c (r ++ ":")).
  assert (exists a s, r ++ ":" = String a s) as [a [s E]] by (destruct r; cbn; eauto).
  rewrite E, drop_last_cons, <- E, IH. reflexivity.
Qed.

Lemma In_labels p x : In x (labels p) <-> exists l, In l p /\ defines l = Some x.
Proof.
  unfold labels. rewrite in_flat_map. split.
  - intros [l [Hl H]]. exists l. split; [exact Hl|]. destruct (defines l); cbn in H; [|contradiction].
    destruct H as [->|[]]. reflexivity.
  - intros [l [Hl H]]. exists l. split; [exact Hl|]. rewrite H. left. reflexivity.
Qed.

Theorem rul_creates_no_dangling_reference p x l' :
  plain_defs p -> In x (labels p) -> In l' (rul p) -> In x (toks l') -> In x (labels (rul p)).
Proof.
  intros Hp Hx Hl' Ht. apply In_labels in Hx as [l [Hl Hd]].
  apply In_labels. exists l. split; [|exact Hd].
  assert (In l' p) as Hl'p by (unfold rul in Hl'; apply filter_In in Hl'; tauto).
  apply (rul_keeps_referenced_labels p x l l' Hl Hl'p Ht).
  rewrite (Hp l x Hl Hd). apply drop_last_app_colon.
Qed.

(* the premises are met by a real shape: the end label of a loop left by `break`, referenced from a line
   that carries a trailing comment *)
Example rul_example :
  let p := [ {| raw := "lbwhile1:"; toks := ["lbwhile1:"] |};
             {| raw := "  j lbwhile.end1   # break"; toks := ["j"; "lbwhile.end1"; "#"; "break"] |};
             {| raw := "  j lbwhile1"; toks := ["j"; "lbwhile1"] |};
             {| raw := "lbwhile.end1:"; toks := ["lbwhile.end1:"] |};
             {| raw := "lbunused2:"; toks := ["lbunused2:"] |} ] in
  map raw (rul p) = ["lbwhile1:"; "  j lbwhile.end1   # break"; "  j lbwhile1"; "lbwhile.end1:"].
Proof. reflexivity. Qed.

(* comparison used by the correspondence check *)
Fixpoint same_lines (a b : list string) : bool :=
  match a, b with
  | [], [] => true
  | x :: a', y :: b' => String.eqb x y && same_lines a' b'
  | _, _ => false
  end.
Definition agrees (c : list tline * list string) : bool := same_lines (map raw (rul (fst c))) (snd c).
