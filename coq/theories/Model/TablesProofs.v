(* Lifting lemmas: boolean table checks -> readable statements. *)
From Coq Require Import List ZArith NArith String Bool Lia.
From PV Require Import Base.CRC32 IC10.Sig Model.Tables.
Import ListNotations.

Lemma z_mem_In z l : z_mem z l = true <-> In z l.
Proof.
  induction l as [|x l IH]; cbn; [split; [discriminate|tauto]|].
  rewrite orb_true_iff, IH, Z.eqb_eq. split; intros [H|H]; auto.
Qed.

Lemma z_nodup_NoDup l : z_nodup l = true -> NoDup l.
Proof.
  induction l as [|x l IH]; cbn; intros H; [constructor|].
  apply andb_prop in H as [H1 H2]. constructor; [|auto].
  intros Hin. apply z_mem_In in Hin. rewrite Hin in H1. discriminate.
Qed.

Lemma NoDup_snd_inj {A} (l : list (A * Z)) : NoDup (map snd l) ->
  forall a b v, In (a, v) l -> In (b, v) l -> a = b.
Proof.
  induction l as [|[a0 v0] l IH]; cbn; intros ND a b v Ha Hb; [tauto|].
  inversion ND as [|? ? Hn ND']; subst.
  destruct Ha as [Ha|Ha], Hb as [Hb|Hb].
  - congruence.
  - injection Ha as <- <-. exfalso. apply Hn. apply in_map_iff. exists (b, v0); auto.
  - injection Hb as <- <-. exfalso. apply Hn. apply in_map_iff. exists (a, v0); auto.
  - eauto.
Qed.

Lemma enum_ok_inj e : enum_ok e = true ->
  forall a b v, In (a, v) (snd e) -> In (b, v) (snd e) -> a = b.
Proof.
  unfold enum_ok. intros H. apply andb_prop in H as [H _].
  apply NoDup_snd_inj, z_nodup_NoDup, H.
Qed.

Lemma hash_ok_spec c h p : hash_ok c = true -> c_hash c = Some h -> c_prefab c = Some p ->
  h = signed32 (crc32_bytes (bytes_of_string p)).
Proof.
  unfold hash_ok. intros H Hh Hp. rewrite Hh, Hp in H. apply Z.eqb_eq in H. exact H.
Qed.
