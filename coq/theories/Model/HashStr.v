(* HASH / STR tokens: utils.calc_hash, types.compute_hash / compute_string /
   _apply_output_mode, and the value the chip assigns to each printed token. *)
From Coq Require Import ZArith NArith String Ascii List Bool Lia.
From PV Require Import Base.CRC32 Model.Tables Model.FormatNum.
Import ListNotations.
Local Open Scope string_scope.

(* ---------- calc_hash: (crc ^ 0x80000000) - 0x80000000 ---------- *)
Inductive hexpr := HCrc | HConst (z : Z) | HXor (a b : hexpr) | HSub (a b : hexpr) | HAdd (a b : hexpr) | HAnd (a b : hexpr).
Fixpoint heval (e : hexpr) (crc : Z) : Z :=
  match e with
  | HCrc => crc | HConst z => z
  | HXor a b => Z.lxor (heval a crc) (heval b crc)
  | HSub a b => (heval a crc - heval b crc)%Z
  | HAdd a b => (heval a crc + heval b crc)%Z
  | HAnd a b => Z.land (heval a crc) (heval b crc)
  end.
Definition model_calc_hash : hexpr := HSub (HXor HCrc (HConst 2147483648)) (HConst 2147483648).

Definition signed_crc (s : string) : Z := signed32 (crc32_bytes (bytes_of_string s)).

(* ---------- compute_string: val = val << 8 | ord(ch) ---------- *)
Definition str_pack (s : string) : Z :=
  fold_left (fun v c => Z.lor (Z.shiftl v 8) (Z.of_N c)) (bytes_of_string s) 0%Z.
(* reference: big-endian base-256 number *)
Definition be256 (s : string) : Z :=
  fold_left (fun v c => (v * 256 + Z.of_N c)%Z) (bytes_of_string s) 0%Z.

(* ---------- output modes ---------- *)
Inductive omode := VERBOSE | COMPACT | NUMERIC.
Inductive rendered := RNum (z : Z) | RText (s : string).

(* _apply_output_mode(num, text, mode) *)
Definition apply_output_mode (num : Z) (text : string) (m : omode) : rendered :=
  match m with
  | VERBOSE => RText text
  | NUMERIC => RNum num
  | COMPACT => if Nat.ltb (String.length (dec_str num)) (String.length text) then RNum num else RText text
  end.

Definition hash_text (name : string) : string := "HASH(""" ++ name ++ """)".
Definition str_text (s : string) : string := "STR(""" ++ s ++ """)".
Definition compute_hash (name : string) (m : omode) : rendered := apply_output_mode (signed_crc name) (hash_text name) m.
Definition compute_string (s : string) (m : omode) : rendered := apply_output_mode (str_pack s) (str_text s) m.

(* compute_hash first strips one pair of surrounding quotes, then a HASH("...") wrapper *)
Definition last_char (s : string) : option ascii :=
  match List.rev (list_ascii_of_string s) with a :: _ => Some a | [] => None end.
Definition drop_last (n : nat) (s : string) : string := String.substring 0 (String.length s - n) s.
Definition ends_with (sfx s : string) : bool :=
  let n := String.length s in let k := String.length sfx in
  Nat.leb k n && String.eqb (String.substring (n - k) k s) sfx.
Definition normalize_name (name : string) : string :=
  let n1 := match name with
            | String a _ => if (Ascii.eqb a """")%char && (match last_char name with Some b => Ascii.eqb b """"%char | None => false end)
                            then drop_last 1 (String.substring 1 (String.length name - 1) name) else name
            | EmptyString => name
            end in
  if String.prefix "HASH(""" n1 && ends_with """)" n1
  then drop_last 2 (String.substring 6 (String.length n1 - 6) n1) else n1.
Definition compute_hash_raw (name : string) (m : omode) : rendered := compute_hash (normalize_name name) m.

(* what ends up in the emitted text: integers go through format_int *)
Definition print_rendered (hashes : list Z) (r : rendered) : string :=
  match r with RNum z => format_int hashes z | RText s => s end.

(* ---------- the chip's valuation of a token ---------- *)
Fixpoint drop_last2 (s : string) : string :=
  match s with
  | String a (String b EmptyString) => EmptyString
  | String a r => String a (drop_last2 r)
  | EmptyString => EmptyString
  end.
Definition inner (pre : string) (tok : string) : option string :=
  if String.prefix pre tok then Some (drop_last2 (String.substring (String.length pre) (String.length tok - String.length pre) tok))
  else None.
Definition tok_value (tok : string) : option Z :=
  match inner "HASH(""" tok with
  | Some n => Some (signed_crc n)
  | None => match inner "STR(""" tok with
            | Some s => Some (be256 s)
            | None => read_int_literal tok
            end
  end.
