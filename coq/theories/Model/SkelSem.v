(* Semantics of control skeletons and a verified analysis of their outcomes.

   Concrete semantics (relation `exec`): every expression evaluation may, nondeterministically,
   raise any exception the environment lists for its text; conditions are arbitrary except where
   the environment determines them from the one tracked variable's "is not None" status;
   `print` sites count reply lines.  Only terminating executions are described.

   Analysis (`outs`): the list of possible (outcome, tracked-variable status, number of replies).
   Theorem `outs_sound`: every concrete execution is covered by an element of `outs`.  Claims such
   as "compile never raises" or "exactly one reply on every path" are then decided by evaluating
   `outs` on the skeleton regenerated from the source. *)
From Coq Require Import List String Bool Arith Lia.
From PV Require Import Model.Skel.
Import ListNotations.
Local Open Scope string_scope.

Inductive exn := EBaseOnly | EExc (name : string).
Inductive outcome := ONormal | OReturn | OBreak | OContinue | ORaise (e : exn).
Inductive cnt := C0 | C1 | CMany.           (* replies written: exactly 0, exactly 1, unknown *)

Record aenv := {
  raises : string -> list exn;              (* exceptions the evaluation of this text may raise *)
  is_print : string -> bool;                (* expression statement that writes one reply line *)
  tracked : string;                         (* the tracked variable *)
  nullish : string -> bool;                 (* expression text that is the null value *)
  cond_val : string -> option bool -> option bool
     (* truth of a condition text given what is known about "tracked is not None" *)
}.

Definition catches (h : string) (x : exn) : bool :=
  match x with
  | EBaseOnly => String.eqb h "BaseException"
  | EExc n => String.eqb h "BaseException" || String.eqb h "Exception" || String.eqb h n
  end.

Fixpoint find_handler (hs : list (string * skel)) (x : exn) : option skel :=
  match hs with
  | [] => None
  | (n, h) :: r => if catches n x then Some h else find_handler r x
  end.

(* ---------------------------------------------------------------- concrete semantics *)
Definition cstate := (bool * nat)%type.     (* tracked is not None, replies written so far *)

Section Sem.
Variable E : aenv.

(* a condition may take value b in a state where the tracked variable's status is nn *)
Definition cond_may (c : string) (nn : bool) (b : bool) : Prop :=
  match cond_val E c (Some nn) with Some v => v = b | None => True end /\
  match cond_val E c None with Some v => v = b | None => True end.

Inductive exec : cstate -> skel -> outcome -> cstate -> Prop :=
| ex_expr_raise s e x : In x (raises E e) -> exec s (SExpr e) (ORaise x) s
| ex_expr s e : exec s (SExpr e) ONormal (fst s, if is_print E e then S (snd s) else snd s)
| ex_assign_raise s t e x : In x (raises E e) -> exec s (SAssign t e) (ORaise x) s
| ex_assign s t e :
    exec s (SAssign t e) ONormal ((if String.eqb t (tracked E) then negb (nullish E e) else fst s), snd s)
| ex_return_raise s e x : In x (raises E e) -> exec s (SReturn e) (ORaise x) s
| ex_return s e : exec s (SReturn e) OReturn s
| ex_raise s e : exec s (SRaise e) (ORaise (EExc "reraised")) s
| ex_break s : exec s SBreak OBreak s
| ex_continue s : exec s SContinue OContinue s
| ex_pass s : exec s SPass ONormal s
| ex_import s : exec s SImport ONormal s
| ex_if_raise s c a b x : In x (raises E c) -> exec s (SIf c a b) (ORaise x) s
| ex_if_true s c a b o s' : cond_may c (fst s) true -> exec s a o s' -> exec s (SIf c a b) o s'
| ex_if_false s c a b o s' : cond_may c (fst s) false -> exec s b o s' -> exec s (SIf c a b) o s'
| ex_seq s l o s' : exec_seq s l o s' -> exec s (SSeq l) o s'
| ex_while_raise s c body x : In x (raises E c) -> exec s (SWhile c body) (ORaise x) s
| ex_while_done s c body : exec s (SWhile c body) ONormal s
| ex_while_iter s c body o1 s1 o s' :
    exec s body o1 s1 -> (o1 = ONormal \/ o1 = OContinue) -> exec s1 (SWhile c body) o s' ->
    exec s (SWhile c body) o s'
| ex_while_break s c body s1 : exec s body OBreak s1 -> exec s (SWhile c body) ONormal s1
| ex_while_exit s c body o1 s1 :
    exec s body o1 s1 -> (o1 = OReturn \/ exists x, o1 = ORaise x) -> exec s (SWhile c body) o1 s1
| ex_for_raise s t it body x : In x (raises E it) -> exec s (SFor t it body) (ORaise x) s
| ex_for_done s t it body : exec s (SFor t it body) ONormal s
| ex_for_iter s t it body o1 s1 o s' :
    exec s body o1 s1 -> (o1 = ONormal \/ o1 = OContinue) -> exec s1 (SFor t it body) o s' ->
    exec s (SFor t it body) o s'
| ex_for_break s t it body s1 : exec s body OBreak s1 -> exec s (SFor t it body) ONormal s1
| ex_for_exit s t it body o1 s1 :
    exec s body o1 s1 -> (o1 = OReturn \/ exists x, o1 = ORaise x) -> exec s (SFor t it body) o1 s1
| ex_try s body hs fin o1 s1 o2 s2 o3 s3 :
    exec s body o1 s1 -> handled hs o1 s1 o2 s2 -> exec s2 fin o3 s3 ->
    exec s (STry body hs fin) (match o3 with ONormal => o2 | _ => o3 end) s3
with exec_seq : cstate -> list skel -> outcome -> cstate -> Prop :=
| es_nil s : exec_seq s [] ONormal s
| es_stop s a r o s' : exec s a o s' -> o <> ONormal -> exec_seq s (a :: r) o s'
| es_cons s a r s1 o s' : exec s a ONormal s1 -> exec_seq s1 r o s' -> exec_seq s (a :: r) o s'
with handled : list (string * skel) -> outcome -> cstate -> outcome -> cstate -> Prop :=
| h_not_raise hs o s : (forall x, o <> ORaise x) -> handled hs o s o s
| h_uncaught hs x s : find_handler hs x = None -> handled hs (ORaise x) s (ORaise x) s
| h_caught hs x s h o s' : find_handler hs x = Some h -> exec s h o s' -> handled hs (ORaise x) s o s'.

End Sem.

(* ---------------------------------------------------------------- analysis *)
Definition ares := (outcome * option bool * cnt)%type.

Definition cadd (a b : cnt) : cnt :=
  match a, b with C0, x | x, C0 => x | _, _ => CMany end.
Definition addc (c : cnt) (r : ares) : ares := let '(o, a, c') := r in (o, a, cadd c c').

Definition all_c0 (l : list ares) : bool := forallb (fun r => match r with (_, _, C0) => true | _ => false end) l.

Section Ana.
Variable E : aenv.

Definition raise_outs (e : string) (a : option bool) : list ares := map (fun x => (ORaise x, a, C0)) (raises E e).

Definition loop_outs (head : string) (B : list ares) : list ares :=
  let c := if all_c0 B then C0 else CMany in
  map (fun x => (ORaise x, None, c)) (raises E head) ++ [(ONormal, None, c)] ++
  flat_map (fun r => match r with
                     | (OReturn, _, _) => [(OReturn, None, c)]
                     | (ORaise x, _, _) => [(ORaise x, None, c)]
                     | _ => []
                     end) B.

Definition seq_outs (f : skel -> option bool -> list ares) : list skel -> option bool -> list ares :=
  fix go (l : list skel) (a : option bool) : list ares :=
    match l with
    | [] => [(ONormal, a, C0)]
    | s :: r => flat_map (fun r1 => match r1 with
                                    | (ONormal, a1, c1) => map (addc c1) (go r a1)
                                    | other => [other]
                                    end) (f s a)
    end.

Definition hmap (f : skel -> option bool -> list ares) : list (string * skel) -> list (string * (option bool -> list ares)) :=
  fix go (hs : list (string * skel)) :=
    match hs with [] => [] | (n, h) :: r => (n, f h) :: go r end.

Fixpoint pick (l : list (string * (option bool -> list ares))) (x : exn) : option (option bool -> list ares) :=
  match l with [] => None | (n, f) :: r => if catches n x then Some f else pick r x end.

Definition after_handlers (hres : list (string * (option bool -> list ares))) (B : list ares) : list ares :=
  flat_map (fun r1 => match r1 with
                      | (ORaise x, a1, c1) =>
                          match pick hres x with
                          | Some f => map (addc c1) (f a1)
                          | None => [r1]
                          end
                      | other => [other]
                      end) B.

Definition with_finally (fin : option bool -> list ares) (H : list ares) : list ares :=
  flat_map (fun r2 => let '(o2, a2, c2) := r2 in
                      map (fun r3 => let '(o3, a3, c3) := r3 in
                                     ((match o3 with ONormal => o2 | _ => o3 end), a3, cadd c2 c3)) (fin a2)) H.

Fixpoint outs (sk : skel) (a : option bool) : list ares :=
  match sk with
  | SExpr e => raise_outs e a ++ [(ONormal, a, if is_print E e then C1 else C0)]
  | SAssign t e =>
      raise_outs e a ++ [(ONormal, (if String.eqb t (tracked E) then Some (negb (nullish E e)) else a), C0)]
  | SReturn e => raise_outs e a ++ [(OReturn, a, C0)]
  | SRaise e => [(ORaise (EExc "reraised"), a, C0)]
  | SBreak => [(OBreak, a, C0)]
  | SContinue => [(OContinue, a, C0)]
  | SPass | SImport => [(ONormal, a, C0)]
  | SIf c x y =>
      raise_outs c a ++
      match cond_val E c a with
      | Some true => outs x a
      | Some false => outs y a
      | None => outs x a ++ outs y a
      end
  | SSeq l => seq_outs outs l a
  | SWhile c body => loop_outs c (outs body None)
  | SFor t it body => loop_outs it (outs body None)
  | STry body hs fin => with_finally (outs fin) (after_handlers (hmap outs hs) (outs body a))
  end.
End Ana.
