(* Integer literals: Python's str(int) and format(int, "X") as Coq's standard decimal /
   hexadecimal printers, utils.format_int, and how the chip reads such a literal back. *)
From Coq Require Import ZArith String Ascii List Bool Decimal Hexadecimal DecimalString HexadecimalString
                        DecimalPos HexadecimalPos DecimalZ HexadecimalZ.
Import ListNotations.
Local Open Scope string_scope.

(* ---------- decimal ---------- *)
Definition dec_str (z : Z) : string := DecimalString.NilZero.string_of_int (Z.to_int z).
Definition read_dec (s : string) : option Z :=
  option_map Z.of_int (DecimalString.NilZero.int_of_string s).

Lemma to_int_proper z : Z.to_int z <> Decimal.Pos Decimal.Nil /\ Z.to_int z <> Decimal.Neg Decimal.Nil.
Proof.
  destruct z as [|p|p]; cbn; split; try discriminate;
    intros H; injection H as H; exact (DecimalPos.Unsigned.to_uint_nonnil p H).
Qed.

Theorem read_dec_str z : read_dec (dec_str z) = Some z.
Proof.
  unfold read_dec, dec_str. destruct (to_int_proper z) as [H1 H2].
  rewrite DecimalString.NilZero.isi by assumption. cbn. f_equal. apply DecimalZ.of_to.
Qed.

(* ---------- hexadecimal, upper case as Python prints it ---------- *)
Definition upper (a : ascii) : ascii :=
  match a with
  | "a" => "A" | "b" => "B" | "c" => "C" | "d" => "D" | "e" => "E" | "f" => "F" | _ => a
  end%char.
Definition lower (a : ascii) : ascii :=
  match a with
  | "A" => "a" | "B" => "b" | "C" => "c" | "D" => "d" | "E" => "e" | "F" => "f" | _ => a
  end%char.
Fixpoint smap (f : ascii -> ascii) (s : string) : string :=
  match s with EmptyString => EmptyString | String a r => String (f a) (smap f r) end.

Definition hex_str (z : Z) : string :=
  smap upper (HexadecimalString.NilZero.string_of_int (Z.to_hex_int z)).
(* the reader accepts both cases *)
Definition read_hex (s : string) : option Z :=
  option_map Z.of_hex_int (HexadecimalString.NilZero.int_of_string (smap lower s)).

Lemma to_hex_int_proper z :
  Z.to_hex_int z <> Hexadecimal.Pos Hexadecimal.Nil /\ Z.to_hex_int z <> Hexadecimal.Neg Hexadecimal.Nil.
Proof.
  destruct z as [|p|p]; cbn; split; try discriminate;
    intros H; injection H as H; exact (HexadecimalPos.Unsigned.to_uint_nonnil p H).
Qed.

Lemma lower_upper_uint d :
  smap lower (smap upper (HexadecimalString.NilEmpty.string_of_uint d)) = HexadecimalString.NilEmpty.string_of_uint d.
Proof. induction d; cbn; rewrite ?IHd; reflexivity. Qed.

Lemma lower_upper_int d :
  smap lower (smap upper (HexadecimalString.NilZero.string_of_int d)) = HexadecimalString.NilZero.string_of_int d.
Proof.
  destruct d as [u|u]; cbn.
  - destruct u; cbn; try reflexivity; rewrite ?lower_upper_uint; reflexivity.
  - f_equal. destruct u; cbn; try reflexivity; rewrite ?lower_upper_uint; reflexivity.
Qed.

Theorem read_hex_str z : read_hex (hex_str z) = Some z.
Proof.
  unfold read_hex, hex_str. rewrite lower_upper_int. destruct (to_hex_int_proper z) as [H1 H2].
  rewrite HexadecimalString.NilZero.isi by assumption. cbn. f_equal. apply HexadecimalZ.of_to.
Qed.

(* ---------- utils.format_int ---------- *)
Fixpoint zmem (z : Z) (l : list Z) : bool :=
  match l with [] => false | x :: r => Z.eqb z x || zmem z r end.

(* decimal up to 10000 and for known prefab hashes, otherwise "$" + upper-case hex *)
Definition format_int (hashes : list Z) (z : Z) : string :=
  if (z <=? 10000)%Z || zmem z hashes then dec_str z else String "$" (hex_str z).

(* the chip's reading of an integer literal *)
Definition read_int_literal (s : string) : option Z :=
  match s with
  | String a r => if Ascii.eqb a "$" then read_hex r else read_dec s
  | EmptyString => read_dec s
  end.

Lemma dec_str_not_dollar z :
  match dec_str z with String a _ => Ascii.eqb a "$" = false | EmptyString => True end.
Proof.
  unfold dec_str. destruct z as [|p|p]; cbn.
  - reflexivity.
  - destruct (Pos.to_uint p); cbn; reflexivity.
  - reflexivity.
Qed.

Theorem format_int_roundtrip hashes z : read_int_literal (format_int hashes z) = Some z.
Proof.
  unfold format_int. destruct ((z <=? 10000)%Z || zmem z hashes).
  - pose proof (dec_str_not_dollar z) as H. pose proof (read_dec_str z) as R. unfold read_int_literal.
    destruct (dec_str z) as [|a r]; [exact R|]. rewrite H. exact R.
  - cbn. apply read_hex_str.
Qed.
