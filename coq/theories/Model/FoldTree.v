(* Compile-time evaluation of whole expression trees (the recursion of utils.is_constant: a node
   is folded when all of its children are constants, with the table's lambda for its operator)
   against their run-time evaluation (the instruction named in the same table entry applied to the
   values the children compute at run time).  The per-operator theorems of FoldProofs.v are lifted
   to trees by induction. *)
From Coq Require Import List ZArith Bool String PrimFloat.
From PV Require Import IC10.Values IC10.Machine IC10.FloatAlg IC10.FloatFacts Model.Fold Model.FoldProofs.
Import ListNotations.
Local Open Scope string_scope.

Inductive ctree :=
| CLeaf (f : float)
| CBin (op : string) (a b : ctree)
| CUn (op : string) (a : ctree).

Fixpoint find_entry (k : string) (l : list (string * string * pexpr)) : option (string * pexpr) :=
  match l with [] => None | (a, opc, e) :: r => if String.eqb a k then Some (opc, e) else find_entry k r end.

Section T.
Variables bt ut : list (string * string * pexpr).

(* what the compiler computes *)
Fixpoint fold_tree (t : ctree) : option float :=
  match t with
  | CLeaf f => Some f
  | CBin op a b =>
      match fold_tree a, fold_tree b, find_entry op bt with
      | Some x, Some y, Some (_, lam) => fold2 lam x y
      | _, _, _ => None
      end
  | CUn op a =>
      match fold_tree a, find_entry op ut with
      | Some x, Some (_, lam) => fold1 lam x
      | _, _ => None
      end
  end.

(* what the chip computes when nothing is folded *)
Fixpoint run_tree (t : ctree) : option float :=
  match t with
  | CLeaf f => Some f
  | CBin op a b =>
      match run_tree a, run_tree b, find_entry op bt with
      | Some x, Some y, Some (opc, _) => match chip_binop opc with Some g => Some (g x y) | None => None end
      | _, _, _ => None
      end
  | CUn op a =>
      match run_tree a, find_entry op ut with
      | Some x, Some (opc, _) => match chip_unop opc with Some g => Some (g x) | None => None end
      | _, _ => None
      end
  end.

(* a node agrees when, on the operand values that reach it, the lambda's result is the instruction's *)
Definition bin_agrees (op : string) (x y : float) : Prop :=
  forall opc lam r, find_entry op bt = Some (opc, lam) -> fold2 lam x y = Some r ->
    exists g, chip_binop opc = Some g /\ r = g x y.
Definition un_agrees (op : string) (x : float) : Prop :=
  forall opc lam r, find_entry op ut = Some (opc, lam) -> fold1 lam x = Some r ->
    exists g, chip_unop opc = Some g /\ r = g x.

Fixpoint nodes_agree (t : ctree) : Prop :=
  match t with
  | CLeaf _ => True
  | CBin op a b => nodes_agree a /\ nodes_agree b /\
      (forall x y, fold_tree a = Some x -> fold_tree b = Some y -> bin_agrees op x y)
  | CUn op a => nodes_agree a /\ (forall x, fold_tree a = Some x -> un_agrees op x)
  end.

Theorem fold_tree_is_run_tree : forall t r, nodes_agree t -> fold_tree t = Some r -> run_tree t = Some r.
Proof.
  induction t as [f|op a IHa b IHb|op a IHa]; intros r Hn Hf.
  - exact Hf.
  - cbn [nodes_agree] in Hn. destruct Hn as (Ha & Hb & Hab). cbn [fold_tree] in Hf. cbn [run_tree].
    destruct (fold_tree a) as [x|] eqn:Ea; [|discriminate].
    destruct (fold_tree b) as [y|] eqn:Eb; [|discriminate].
    destruct (find_entry op bt) as [[opc lam]|] eqn:Ef; [|discriminate].
    rewrite (IHa x Ha eq_refl), (IHb y Hb eq_refl).
    destruct (Hab x y eq_refl eq_refl opc lam r Ef Hf) as (g & Hg & ->). rewrite Hg. reflexivity.
  - cbn [nodes_agree] in Hn. destruct Hn as (Ha & Hu). cbn [fold_tree] in Hf. cbn [run_tree].
    destruct (fold_tree a) as [x|] eqn:Ea; [|discriminate].
    destruct (find_entry op ut) as [[opc lam]|] eqn:Ef; [|discriminate].
    rewrite (IHa x Ha eq_refl).
    destruct (Hu x eq_refl opc lam r Ef Hf) as (g & Hg & ->). rewrite Hg. reflexivity.
Qed.
End T.

(* ---- the tables of utils.py: operators whose agreement holds for ALL operands ---- *)
Definition total_op (op : string) : bool :=
  existsb (String.eqb op) ["+"; "-"; "*"; "/"; "**"; "=="; "!="; "<"; "<="; ">"; ">="].

Lemma total_ops_agree : forall op x y, total_op op = true -> bin_agrees model_binops op x y.
Proof.
  intros op x y H opc lam r Hf Hr.
  unfold total_op in H. cbn [existsb] in H.
  repeat match type of H with
  | (String.eqb op ?s || _) = true =>
      let E := fresh "E" in destruct (String.eqb op s) eqn:E;
      [apply String.eqb_eq in E; subst op; clear H | cbn [orb] in H]
  end; try discriminate H.
  all: vm_compute in Hf; injection Hf as <- <-; eexists; (split; [reflexivity|]).
  - exact (fold_add x y r Hr).
  - exact (fold_sub x y r Hr).
  - exact (fold_mul x y r Hr).
  - exact (fold_div x y r Hr).
  - exact (fold_pow x y r Hr).
  - exact (fold_cmp_e Ceq x y r Hr).
  - exact (fold_cmp_e Cne x y r Hr).
  - exact (fold_cmp_e Clt x y r Hr).
  - exact (fold_cmp_e Cle x y r Hr).
  - exact (fold_cmp_e Cgt x y r Hr).
  - exact (fold_cmp_e Cge x y r Hr).
Qed.

Fixpoint total_tree (t : ctree) : bool :=
  match t with
  | CLeaf _ => true
  | CBin op a b => total_op op && total_tree a && total_tree b
  | CUn _ _ => false
  end.

Lemma total_tree_agrees : forall t, total_tree t = true -> nodes_agree model_binops model_unops t.
Proof.
  induction t as [f|op a IHa b IHb|op a IHa]; intros H; cbn in H |- *; try exact I; try discriminate.
  apply andb_prop in H as [H Hb]. apply andb_prop in H as [Ho Ha].
  split; [exact (IHa Ha)|]. split; [exact (IHb Hb)|].
  intros x y _ _. exact (total_ops_agree op x y Ho).
Qed.

(* Every expression tree over + - * / ** and the six comparisons, of any shape and depth, on any
   constants: whenever the compiler folds it to r, executing the instructions on the same constants
   computes r. *)
Theorem arithmetic_trees_fold_to_run_time_value : forall t r,
  total_tree t = true -> fold_tree model_binops model_unops t = Some r -> run_tree model_binops model_unops t = Some r.
Proof. intros t r H. apply fold_tree_is_run_tree. exact (total_tree_agrees t H). Qed.

Example tree_example :
  let t := CBin "+" (CBin "*" (CLeaf 3) (CLeaf 0.5)) (CBin "<" (CLeaf 2) (CBin "/" (CLeaf 1) (CLeaf 4))) in
  total_tree t = true /\ fold_tree model_binops model_unops t = Some 1.5%float.
Proof. cbn zeta. split; vm_compute; reflexivity. Qed.
