(* Row types of the regenerated tables (structures, intrinsics) and the decidable
   consistency checks of property C16 over them. *)
From Coq Require Import List ZArith NArith String Ascii Bool.
From PV Require Import Base.CRC32 IC10.Sig.
Import ListNotations.
Local Open Scope string_scope.

Inductive pkind :=
| PLogic (plural : bool) (lt : string)          (* _Device(s)LogicType(self, _LT.lt) *)
| PSlotLogic (plural : bool) (slt : string)     (* _Device(s)SlotType(self, _LST.slt) *)
| PSlot (cls : string) (idx : Z)                (* _SlotTypeXxx(self, idx) *)
| PAlias (target : string)                      (* return self.target *)
| PBatch (cls : string) (method : string)       (* Cls(name=self._name, batch_mode=LogicBatchMethod.method) *)
| PGetItem (cls : string).                      (* __getitem__: Cls(name) *)

Record class_row := {
  c_name : string; c_bases : list string; c_hash : option Z; c_prefab : option string;
  c_props : list (string * pkind) }.

Record intrinsic_row := {
  i_name : string; i_op : string; i_params : list string; i_inputs : list string; i_out : bool }.

(* ---------- generic helpers ---------- *)
Fixpoint assoc {A} (k : string) (l : list (string * A)) : option A :=
  match l with [] => None | (k', v) :: r => if String.eqb k k' then Some v else assoc k r end.
Fixpoint str_mem (s : string) (l : list string) : bool :=
  match l with [] => false | x :: r => String.eqb s x || str_mem s r end.
Fixpoint z_mem (z : Z) (l : list Z) : bool :=
  match l with [] => false | x :: r => Z.eqb z x || z_mem z r end.
Fixpoint z_nodup (l : list Z) : bool :=
  match l with [] => true | x :: r => negb (z_mem x r) && z_nodup r end.
Fixpoint str_nodup (l : list string) : bool :=
  match l with [] => true | x :: r => negb (str_mem x r) && str_nodup r end.
Definition find_class (cs : list class_row) (n : string) : option class_row :=
  find (fun c => String.eqb (c_name c) n) cs.
Fixpoint str_list_eqb (a b : list string) : bool :=
  match a, b with [] , [] => true | x :: a', y :: b' => String.eqb x y && str_list_eqb a' b' | _, _ => false end.

Definition bytes_of_string (s : string) : list N := map N_of_ascii (list_ascii_of_string s).
Definition hash_of_string (s : string) : Z := signed32 (crc32_bytes (bytes_of_string s)).

(* ---------- (1) stored hash = signed CRC-32 of the prefab name ---------- *)
Definition hash_ok (c : class_row) : bool :=
  match c_hash c, c_prefab c with
  | Some h, Some p => Z.eqb h (hash_of_string p)
  | None, None => true
  | _, _ => false
  end.

(* ---------- (2) singular <-> plural ---------- *)
Definition is_structure (c : class_row) : bool := match c_hash c with Some _ => true | None => false end.
Definition is_plural (c : class_row) : bool := str_mem "_BaseStructures" (c_bases c).
Definition is_singular (c : class_row) : bool := str_mem "_BaseStructure" (c_bases c).

Definition batch_methods : list string := ["Average"; "Minimum"; "Maximum"; "Sum"].

(* the singular class a plural class refers to in its Average property *)
Definition plural_target (c : class_row) : option string :=
  match assoc "Average" (c_props c) with Some (PBatch cls _) => Some cls | _ => None end.

Definition opt_z_eqb (a b : option Z) : bool :=
  match a, b with Some x, Some y => Z.eqb x y | None, None => true | _, _ => false end.
Definition opt_s_eqb (a b : option string) : bool :=
  match a, b with Some x, Some y => String.eqb x y | None, None => true | _, _ => false end.

Definition plural_ok (cs : list class_row) (singles : list (string * string * string)) (c : class_row) : bool :=
  if is_structure c && is_plural c then
    match plural_target c with
    | Some sname =>
        match find_class cs sname with
        | Some s =>
            is_singular s && opt_z_eqb (c_hash s) (c_hash c) && opt_s_eqb (c_prefab s) (c_prefab c)
            && forallb (fun m => match assoc m (c_props c) with
                                 | Some (PBatch cls m') => String.eqb cls sname && String.eqb m' m
                                 (* a logic type of the same name shadows the batch method *)
                                 | Some (PLogic true lt) => String.eqb lt m
                                 | _ => false end) batch_methods
            && (match assoc "__getitem__" (c_props c) with
                | Some (PGetItem cls) => String.eqb cls (c_name c) | _ => false end)
            (* a module-level singleton  Name : _Names = _Names()  with Name = class name minus '_' *)
            && existsb (fun t => match t with (n, ann, ctor) =>
                   String.eqb ann (c_name c) && String.eqb ctor (c_name c)
                   && String.eqb (String "_" n) (c_name c) end) singles
        | None => false
        end
    | None => false
    end
  else true.

Definition singular_ok (cs : list class_row) (c : class_row) : bool :=
  if is_structure c && is_singular c && negb (is_plural c) then
    (* exactly one plural class refers to it *)
    Nat.eqb (List.length (filter (fun p => is_structure p && is_plural p &&
                match plural_target p with Some n => String.eqb n (c_name c) | None => false end) cs)) 1
  else true.

(* ---------- (3) named slots resolve to numbered slots ---------- *)
Definition digits_to_Z (s : string) : option Z :=
  let fix go (l : list ascii) (acc : Z) : option Z :=
    match l with
    | [] => Some acc
    | a :: r => let n := N_of_ascii a in
                if (N.leb 48 n && N.leb n 57)%bool then go r (acc * 10 + Z.of_N (n - 48))%Z else None
    end in
  match list_ascii_of_string s with [] => None | l => go l 0%Z end.

Definition slot_number (name : string) : option Z :=
  if String.prefix "slot" name then digits_to_Z (String.substring 4 (String.length name - 4) name) else None.

Definition prop_ok (lts slts : list string) (c : class_row) (p : string * pkind) : bool :=
  let '(name, k) := p in
  match k with
  | PLogic pl lt => String.eqb name lt && str_mem lt lts
  | PSlotLogic pl slt => String.eqb name slt && str_mem slt slts
  | PSlot cls idx => match slot_number name with Some n => Z.eqb n idx | None => false end
  | PAlias target =>
      match assoc target (c_props c) with
      | Some (PSlot _ idx) => match slot_number target with Some n => Z.eqb n idx | None => false end
      | _ => false
      end
  | PBatch _ _ => str_mem name batch_methods
  | PGetItem _ => String.eqb name "__getitem__"
  end.

Definition class_props_ok (lts slts : list string) (c : class_row) : bool :=
  forallb (prop_ok lts slts c) (c_props c) && str_nodup (map fst (c_props c)).

(* ---------- (4) intrinsic wrappers vs. instruction signatures ---------- *)
Definition strip_underscore (s : string) : string :=
  let n := String.length s in
  if (Nat.ltb 0 n && String.eqb (String.substring (n - 1) 1 s) "_")%bool then String.substring 0 (n - 1) s else s.

Definition intrinsic_ok (w : intrinsic_row) : bool :=
  String.eqb (i_op w) (strip_underscore (i_name w))
  && str_list_eqb (i_params w) (i_inputs w)
  && match sig_of (i_op w) with
     | Some s => Bool.eqb (i_out w) (has_out s)
                 && Nat.eqb (List.length (i_inputs w) + (if i_out w then 1 else 0)) (n_ops s)
     | None => false
     end.

(* ---------- (5) enum values injective ---------- *)
Definition enum_ok (e : string * list (string * Z)) : bool :=
  z_nodup (map snd (snd e)) && str_nodup (map fst (snd e)).
