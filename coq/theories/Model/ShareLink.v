(* Model of types.encode_data / decode_data (share links):
     encode = b64encode(zlib.compress(json.dumps(d).encode())).decode()
                 .replace("+","-").replace("/","_").replace("=","")
     decode = pad with "=" to a multiple of 4, replace "-"->"+", "_"->"/", b64decode,
              zlib.decompress, .decode(), json.loads
   The replacement chains are *regenerated* from the source (PVGen.GenShare); the model below
   is what the theorems are about, and Props/C18.v proves the generated chains equal it. *)
From Coq Require Import List NArith Bool.
From PV Require Import Base.Base64.
Import ListNotations.
Local Open Scope N_scope.

(* a replacement step: (from, Some to) = replace, (from, None) = delete *)
Definition chain := list (N * option N).
Definition apply_step (l : list N) (st : N * option N) : list N :=
  match st with
  | (f, Some t) => repl f t l
  | (f, None) => strip_ch f l
  end.
Definition apply_chain (c : chain) (l : list N) : list N := fold_left apply_step c l.

Definition enc_chain : chain := [(43, Some 45); (47, Some 95); (61, None)].
Definition dec_chain : chain := [(45, Some 43); (95, Some 47)].

Definition pad (l : list N) : list N :=
  let m := N.of_nat (length l) mod 4 in
  if m =? 0 then l else l ++ repeat PAD (N.to_nat (4 - m)).

Definition url_encode (bs : list N) : list N := apply_chain enc_chain (b64_encode bs).
Definition url_decode (s : list N) : option (list N) := b64_decode (apply_chain dec_chain (pad s)).

Definition urlsafe_char (c : N) : bool :=
  ((65 <=? c) && (c <=? 90)) || ((97 <=? c) && (c <=? 122)) || ((48 <=? c) && (c <=? 57))
  || (c =? 45) || (c =? 95).
