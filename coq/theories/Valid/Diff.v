(* Differential execution: run the source program under the reference semantics and the
   emitted IC10 on the machine against the same device oracle and compare effect traces.
   This is the search engine and the executable reading of "same externally visible
   behaviour"; it is a test (bounded by fuel), never a theorem. *)
From Coq Require Import List ZArith Bool Arith PrimFloat.
From PV Require Import IC10.Values IC10.Machine IC10.FloatAlg Src.Sem.
Import ListNotations.

Section Diff.
Context {val : Type}.
Variable A : valg val.

Definition ev_eqb (a b : @event val) : bool :=
  ekind_eqb (ev_kind a) (ev_kind b)
  && (fix go (x y : list val) : bool :=
        match x, y with
        | [], [] => true
        | u :: x', v :: y' => v_eqb A u v && go x' y'
        | _, _ => false
        end) (ev_args a) (ev_args b).

(* index of the first position where the two traces differ (within the common length) *)
Fixpoint first_diff (a b : list (@event val)) (i : nat) : option nat :=
  match a, b with
  | x :: a', y :: b' => if ev_eqb x y then first_diff a' b' (S i) else Some i
  | _, _ => None
  end.

Definition status_code (s : status) : nat :=
  match s with Running => 0 | Halted => 1 | Err c => 10 + c end.
Definition ending_code (e : ending) : nat :=
  match e with Finished => 1 | NoFuel => 0 | Failed c => 100 + c end.

(* verdict (code, index, #source events, #target events, source ending, target status)
   0 agree; 1 events differ at index; 2 target emits events after the source finished;
   3 target stopped with fewer events than the source produced; 4 target machine error;
   5 source run failed (outside the domain: inconclusive); 6 target still running with fewer
   events although the source finished (divergence or far slower) *)
Definition verdict := (nat * nat * nat * nat * nat * nat)%type.

Definition judge (sres : list (@event val) * ending) (tt : list (@event val)) (ts : status) : verdict :=
  let '(se, send) := sres in
  let ns := length se in let nt := length tt in
  let mk c i := (c, i, ns, nt, ending_code send, status_code ts) in
  match send with
  | Failed _ => mk 5 0
  | _ =>
    match first_diff se tt 0 with
    | Some i => mk 1 i
    | None =>
        match ts with
        | Err _ => if Nat.leb nt ns then mk 4 nt else mk 2 ns
        | Halted =>
            if Nat.ltb nt ns then mk 3 nt
            else if Nat.ltb ns nt then (match send with Finished => mk 2 ns | _ => mk 0 0 end)
            else mk 0 0
        | Running =>
            if Nat.ltb ns nt then (match send with Finished => mk 2 ns | _ => mk 0 0 end)
            else if Nat.ltb nt ns then (match send with Finished => mk 6 nt | _ => mk 0 0 end)
            else mk 0 0
        end
    end
  end.

Definition compare (fs ft : nat) (P : @prog val) (T : @program val) (O : @oracle val) : verdict :=
  let sres := run_src A fs P O in
  let fin := run A O T ft (init_state A) in
  judge sres (trace fin) (st fin).

(* two emitted programs against each other (C02, C13) *)
Definition judge2 (a : list (@event val)) (sa : status) (b : list (@event val)) (sb : status) : verdict :=
  let na := length a in let nb := length b in
  let mk c i := (c, i, na, nb, status_code sa, status_code sb) in
  match first_diff a b 0 with
  | Some i => mk 1 i
  | None =>
      match sa, sb with
      | Running, Running => mk 0 0                      (* two fuel cuts: only the common prefix counts *)
      (* one run was cut by the fuel, the other one has stopped for good: if the stopped one produced
         fewer events than the other already has, it will never produce them *)
      | Running, Err _ => if Nat.ltb nb na then mk 4 nb else mk 0 0
      | Running, Halted => if Nat.ltb nb na then mk 3 nb else mk 0 0
      | Err _, Running => if Nat.ltb na nb then mk 4 na else mk 0 0
      | Halted, Running => if Nat.ltb na nb then mk 3 na else mk 0 0
      | _, _ => if Nat.eqb na nb then (if Nat.eqb (status_code sa) (status_code sb) then mk 0 0 else mk 4 na)
                else mk 3 (Nat.min na nb)
      end
  end.
(* The machine with the open known finding C07 (fall-through into the first function after a
   terminating main) factored out: entering a listed region entry by sequential flow from a
   line that is not a jump counts as the end of the program.  Used when two emitted programs are
   compared with each other, so that this one defect does not hide others. *)
Definition falls_seq (p : @program val) (i : nat) : bool :=
  match nth_error p i with
  | Some (LInstr IJ _) | Some (LInstr IJr _) | Some (LInstr IHcf _) | Some (LInstr IJal _) => false
  | Some _ => true
  | None => false
  end.
(* the same defect in a label-free rendering: the main code's own end label has disappeared, so a
   jump to it (`break` out of the last loop) lands directly on the first function's entry.  A plain
   `j` (not `jal`) from a line that stands before every function region onto a region entry is
   therefore treated like the sequential fall-through. *)
Definition plain_jump (p : @program val) (i : nat) : bool :=
  match nth_error p i with
  | Some (LInstr IJ _) | Some (LInstr (IBr _ false false) _) | Some (LInstr (IBrz _ false false) _)
  | Some (LInstr (IBnan false) _) | Some (LInstr (IBdse false false) _) | Some (LInstr (IBdns false false) _) => true
  | _ => false
  end.
(* ... and a return (`j ra`) that lands on a region entry: the call was the last instruction of the
   main code, so coming back from it is again the end of the program running on into the first function *)
Definition return_like (p : @program val) (i : nat) : bool :=
  match nth_error p i with Some (LInstr IJ [OReg _]) => true | _ => false end.
Fixpoint run_guard (O : @oracle val) (p : @program val) (entries : list nat) (fuel : nat) (s : @state val) : @state val :=
  match fuel with
  | O => s
  | S k =>
      match st s with
      | Running =>
          let s' := step A O p s in
          if existsb (Nat.eqb (pc s')) entries &&
             ((Nat.eqb (pc s') (S (pc s)) && falls_seq p (pc s))
              || (plain_jump p (pc s) && forallb (fun e => Nat.ltb (pc s) e) entries)
              || return_like p (pc s))
          then halt s' else run_guard O p entries k s'
      | _ => s
      end
  end.
Definition compare2g (f1 f2 : nat) (T1 : @program val) (E1 : list nat) (T2 : @program val) (E2 : list nat)
  (O : @oracle val) : verdict :=
  let a := run_guard O T1 E1 f1 (init_state A) in
  let b := run_guard O T2 E2 f2 (init_state A) in
  judge2 (trace a) (st a) (trace b) (st b).

Definition compare2 (f1 f2 : nat) (T1 T2 : @program val) (O : @oracle val) : verdict :=
  let a := run A O T1 f1 (init_state A) in
  let b := run A O T2 f2 (init_state A) in
  judge2 (trace a) (st a) (trace b) (st b).

End Diff.

(* ---------- oracles for the float instance ---------- *)
Definition rk_code (k : rkind) : Z :=
  match k with RKl => 1 | RKls => 2 | RKlr => 3 | RKlb => 4 | RKlbn => 5 | RKlbs => 6 | RKlbns => 7
             | RKget => 8 | RKgetd => 9 | RKsdse => 10 | RKrand => 11 | RKrmap => 12 end%Z.
Definition arg_hash (args : list float) : Z :=
  fold_left (fun acc f => (acc * 31 + match trunc_Z f with Some z => z mod 1009 | None => 7 end) mod 1000003)%Z args 0%Z.

Definition pool_oracle (seed : Z) (pool : list float) : @oracle float :=
  fun h k args =>
    let i := ((seed * 7919 + Z.of_nat (length h) * 131 + rk_code k * 17 + arg_hash args) mod Z.of_nat (length pool))%Z in
    nth (Z.to_nat i) pool 0%float.

Definition default_pool : list float :=
  [0; 1; 2; 3; 5; 7; 10; 100; 0.5; 0.25; 1.5; 2.5; (-1); (-2); (-0.5); 4; 6; 8; 9; 255; 1000; 4096; 0.125; 12; 0; 1; 1; 0]%float.

Definition cmp_float (fs ft : nat) (P : @prog float) (T : @program float) (seeds : list Z) : list verdict :=
  map (fun sd => compare FloatAlg fs ft P T (pool_oracle sd default_pool)) seeds.
Definition cmp2_float (f : nat) (T1 T2 : @program float) (seeds : list Z) : list verdict :=
  map (fun sd => compare2 FloatAlg f f T1 T2 (pool_oracle sd default_pool)) seeds.

Definition cmp2g_float (f : nat) (T1 : @program float) E1 (T2 : @program float) E2 (seeds : list Z) : list verdict :=
  map (fun sd => compare2g FloatAlg f f T1 E1 T2 E2 (pool_oracle sd default_pool)) seeds.

Definition show_event (e : @event float) : nat * list float :=
  (match ev_kind e with EKs => 1 | EKss => 2 | EKsb => 3 | EKsbn => 4 | EKsbs => 5 | EKput => 6 | EKputd => 7
   | EKclr => 8 | EKclrd => 9 | EKyield => 10 | EKsleep => 11 | EKhcf => 12 end, ev_args e).
Definition traces_float (fs ft : nat) (P : @prog float) (T : @program float) (seed : Z) :=
  let O := pool_oracle seed default_pool in
  let fin := run FloatAlg O T ft (init_state FloatAlg) in
  (map show_event (fst (run_src FloatAlg fs P O)), map show_event (trace fin), pc fin).
Definition trace_tgt_float (ft : nat) (T : @program float) (seed : Z) :=
  let O := pool_oracle seed default_pool in
  let fin := run FloatAlg O T ft (init_state FloatAlg) in
  (map show_event (trace fin), pc fin, status_code (st fin)).

From PV Require Import IC10.Monitor.
Definition monitor_float (ft : nat) (T : @program float) (entries : list nat) (seed : Z) :=
  monitor FloatAlg entries (pool_oracle seed default_pool) T ft.
