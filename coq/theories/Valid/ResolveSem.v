(* Semantic correctness of label resolution for the call-free fragment.

   For a labelled program q in which
     - labels are used only as the target of absolute, non-linking jumps and branches
       (j, b<cmp>, b<cmp>z, bnan, bdse, bdns), every such target being a defined label,
     - there is no jal / jr / relative or linking branch, and
     - operands are registers, numbers and devices (no alias / define names),
   the label-free program  resolve q  (label lines dropped, every label replaced by the index of the
   next instruction) goes through exactly the same states, line for line: after any number of steps
   of q there is a run of resolve q with the same registers, memory, effect history and status,
   whose pc is the number of instruction lines before q's pc.

   Programs with calls are outside this theorem (return addresses held in ra / on the stack differ
   between the two programs and may flow through arithmetic); for those the per-compile checks of
   C05 apply. *)
From Coq Require Import List ZArith Bool Arith Lia.
From PV Require Import IC10.Values IC10.Machine IC10.MachineProofs Valid.Resolve Valid.ResolveProofs.
Import ListNotations.

Section S.
Context {val : Type}.
Variable A : valg val.
Variable O : @oracle val.
Notation line := (@line val).
Notation operand := (@operand val).
Notation program := (list line).
Notation state := (@state val).

Variable q : program.
Let p' := resolve A q.
Notation ib := (instrs_before q).

(* line numbers of q are exactly representable (true of binary64 for every program the chip can hold) *)
Hypothesis Hnat : forall n, n <= length q -> v_to_Z A (of_nat A n) = Some (Z.of_nat n).

(* ---------------------------------------------------------------- the fragment *)
Definition plain (o : operand) : bool := match o with OLbl _ | OName _ => false | _ => true end.
Definition defd (id : nat) : bool := match find_label q id 0 with Some _ => true | None => false end.

Definition okop (op : opcode) (args : list operand) : bool :=
  match op, args with
  | IJ, [OLbl id] => defd id
  | IBr _ false false, [x; y; OLbl id] => plain x && plain y && defd id
  | IBrz _ false false, [x; OLbl id] => plain x && defd id
  | IBnan false, [x; OLbl id] => plain x && defd id
  | IBdse false false, [x; OLbl id] => plain x && defd id
  | IBdns false false, [x; OLbl id] => plain x && defd id
  | IJ, _ | IJal, _ | IJr, _ | IBr _ _ _, _ | IBrz _ _ _, _ | IBnan _, _ | IBdse _ _, _ | IBdns _ _, _ => false
  | _, _ => forallb plain args
  end.
Definition okline (l : line) : bool := match l with LLabel _ => true | LInstr op args => okop op args end.
Definition frag : bool := forallb okline q.

(* ---------------------------------------------------------------- the state map *)
Definition T (s : state) : state := set_pc s (ib (pc s)).

Lemma T_fail s c : T (fail s c) = fail (T s) c. Proof. reflexivity. Qed.
Lemma T_halt s : T (halt s) = halt (T s). Proof. reflexivity. Qed.
Lemma T_set_reg s n v : T (set_reg s n v) = set_reg (T s) n v. Proof. reflexivity. Qed.
Lemma T_set_mem s n v : T (set_mem s n v) = set_mem (T s) n v. Proof. reflexivity. Qed.
Lemma T_emit s e : T (emit s e) = emit (T s) e. Proof. reflexivity. Qed.

Lemma ib_S_instr : forall (p : program) i op args, nth_error p i = Some (LInstr op args) ->
  instrs_before p (S i) = S (instrs_before p i).
Proof.
  induction p as [|l r IH]; intros i op args H; [destruct i; discriminate|].
  destruct i as [|k].
  - cbn in H. injection H as ->. cbn. destruct r; reflexivity.
  - cbn [nth_error] in H. specialize (IH _ _ _ H).
    change (instrs_before (l :: r) (S (S k))) with ((if is_instr l then 1 else 0) + instrs_before r (S k)).
    change (instrs_before (l :: r) (S k)) with ((if is_instr l then 1 else 0) + instrs_before r k).
    rewrite IH. lia.
Qed.
Lemma ib_S_label : forall (p : program) i id, nth_error p i = Some (LLabel id) ->
  instrs_before p (S i) = instrs_before p i.
Proof.
  induction p as [|l r IH]; intros i id H; [destruct i; discriminate|].
  destruct i as [|k].
  - cbn in H. injection H as ->. cbn. destruct r; reflexivity.
  - cbn [nth_error] in H. specialize (IH _ _ H).
    change (instrs_before (l :: r) (S (S k))) with ((if is_instr l then 1 else 0) + instrs_before r (S k)).
    change (instrs_before (l :: r) (S k)) with ((if is_instr l then 1 else 0) + instrs_before r k).
    rewrite IH. reflexivity.
Qed.
Lemma ib_le : forall (p : program) i, instrs_before p i <= i.
Proof.
  induction p as [|l r IH]; intros [|k]; cbn; try lia. specialize (IH k). destruct (is_instr l); lia.
Qed.
Lemma ib_past_gen (e : program) : forall (p : program) i, length p <= i ->
  instrs_before p i = length (flat_map (res_line A e) p).
Proof.
  induction p as [|l r IH]; intros i H.
  - destruct i; reflexivity.
  - destruct i as [|k]; [cbn in H; lia|]. cbn in H.
    change (instrs_before (l :: r) (S k)) with ((if is_instr l then 1 else 0) + instrs_before r k).
    rewrite (IH k) by lia. cbn [flat_map]. rewrite app_length.
    destruct l; cbn; reflexivity.
Qed.
Lemma ib_past : forall (p : program) i, length p <= i -> instrs_before p i = length (resolve A p).
Proof. intros p i H. apply ib_past_gen. exact H. Qed.
Lemma find_label_lt : forall (p : program) id k i, find_label p id k = Some i -> i < k + length p.
Proof.
  induction p as [|l r IH]; intros id k i H; [discriminate|].
  cbn in H. destruct l as [id'|]; [destruct (Nat.eqb id id'); [injection H as <-; cbn; lia|]|];
    apply IH in H; cbn; lia.
Qed.

(* ---------------------------------------------------------------- operands *)
Section AtInstr.
Variable s : state.
Variables (op0 : opcode) (args0 : list operand).
Hypothesis Hat : nth_error q (pc s) = Some (LInstr op0 args0).

Lemma T_next : T (next s) = next (T s).
Proof. unfold T, next, set_pc. cbn. rewrite (ib_S_instr _ _ _ _ Hat). reflexivity. Qed.

Lemma res_plain o : plain o = true -> res_operand A q o = o.
Proof. destruct o; cbn; try discriminate; reflexivity. Qed.
Lemma oval_plain (P1 P2 : program) o : plain o = true -> oval A P1 (T s) o = oval A P2 s o.
Proof. destruct o; cbn; try discriminate; reflexivity. Qed.
Lemma odev_T o : odev A (T s) o = odev A s o. Proof. reflexivity. Qed.
Lemma oreg_T o : oreg (T s) o = oreg s o. Proof. reflexivity. Qed.
Lemma is_db_T o : is_db (T s) o = is_db s o. Proof. reflexivity. Qed.
Lemma sp_val_T : sp_val A (T s) = sp_val A s. Proof. reflexivity. Qed.
Lemma read_T k a : read O (T s) k a = read O s k a. Proof. reflexivity. Qed.

Lemma wr_T d v : wr (T s) d v = T (wr s d v).
Proof.
  unfold wr. rewrite oreg_T. destruct (oreg s d); [|reflexivity]. destruct v; [|reflexivity].
  unfold T, next, set_pc, set_reg. cbn. rewrite (ib_S_instr _ _ _ _ Hat). reflexivity.
Qed.
Lemma effect_T k a : effect (T s) k a = T (effect s k a).
Proof.
  unfold effect. destruct a; [|reflexivity]. unfold T, next, set_pc, emit. cbn.
  rewrite (ib_S_instr _ _ _ _ Hat). reflexivity.
Qed.
Lemma next_mem_T n x : next (set_mem (T s) n x) = T (next (set_mem s n x)).
Proof. unfold T, next, set_pc, set_mem. cbn. rewrite (ib_S_instr _ _ _ _ Hat). reflexivity. Qed.
Lemma next_push_T n x v : next (set_reg (set_mem (T s) n x) SP v) = T (next (set_reg (set_mem s n x) SP v)).
Proof. unfold T, next, set_pc, set_mem, set_reg. cbn. rewrite (ib_S_instr _ _ _ _ Hat). reflexivity. Qed.
Lemma wr_pop_T v d w : wr (set_reg (T s) SP v) d w = T (wr (set_reg s SP v) d w).
Proof.
  unfold wr. change (oreg (set_reg (T s) SP v) d) with (oreg (set_reg s SP v) d).
  destruct (oreg (set_reg s SP v) d); [|reflexivity]. destruct w; [|reflexivity].
  unfold T, next, set_pc, set_reg. cbn. rewrite (ib_S_instr _ _ _ _ Hat). reflexivity.
Qed.

(* a taken or not taken branch to a defined label *)
Lemma branch_T c id :
  defd id = true ->
  branch A (T s) c (oval A p' (T s) (res_operand A q (OLbl id))) false false =
  T (branch A s c (oval A q s (OLbl id)) false false).
Proof.
  unfold defd. intros Hd. cbn [res_operand]. unfold label_target.
  destruct (find_label q id 0) as [i|] eqn:E; [|discriminate].
  unfold oval. cbn [Machine.resolve]. rewrite E. cbn [branch].
  destruct c; [|symmetry; exact T_next].
  unfold jump_abs.
  assert (i < length q) as Hi by (apply find_label_lt in E; lia).
  rewrite (Hnat i) by lia. rewrite (Hnat (ib i)) by (pose proof (ib_le q i); lia).
  assert ((0 <=? Z.of_nat i)%Z = true) as -> by (apply Z.leb_le; lia).
  assert ((0 <=? Z.of_nat (ib i))%Z = true) as -> by (apply Z.leb_le; lia).
  rewrite !Nat2Z.id. reflexivity.
Qed.
End AtInstr.

Lemma ovals_plain (P1 P2 : program) s : forall os, forallb plain os = true -> ovals A P1 (T s) os = ovals A P2 s os.
Proof.
  induction os as [|o r IH]; intros H; [reflexivity|]. cbn in H. apply andb_prop in H as [Ho Hr].
  cbn [ovals]. rewrite (oval_plain s P1 P2 o Ho), (IH Hr). reflexivity.
Qed.
Lemma map_res_plain : forall os, forallb plain os = true -> map (res_operand A q) os = os.
Proof.
  induction os as [|o r IH]; intros H; [reflexivity|]. cbn in H. apply andb_prop in H as [Ho Hr].
  cbn [map]. rewrite (res_plain o Ho), (IH Hr). reflexivity.
Qed.

(* ---------------------------------------------------------------- one instruction *)
Ltac split_ok :=
  repeat match goal with
  | H : _ && _ = true |- _ => apply andb_prop in H; destruct H
  end.
Ltac norm s :=
  cbn [map];
  repeat match goal with
  | H : plain ?o = true |- context[res_operand A q ?o] => rewrite (res_plain o H)
  end;
  cbn [exec ovals];
  repeat match goal with
  | H : plain ?o = true |- context[oval A p' (T s) ?o] => rewrite (oval_plain s p' q o H)
  end;
  rewrite ?odev_T, ?is_db_T, ?sp_val_T, ?read_T;
  change (mem (T s)) with (mem s); change (regs (T s)) with (regs s).
Ltac fin s Hat :=
  first [ reflexivity
        | apply (wr_T s _ _ Hat) | apply (effect_T s _ _ Hat) | apply (next_mem_T s _ _ Hat)
        | apply (next_push_T s _ _ Hat) | apply (wr_pop_T s _ _ Hat)
        | symmetry; apply (T_next s _ _ Hat)
        | match goal with |- context[match ?x with _ => _ end] => destruct x; fin s Hat end ].

Ltac ctl s Hat :=
  split_ok;
  cbn [map];
  repeat match goal with
  | H : plain ?o = true |- context[res_operand A q ?o] => rewrite (res_plain o H)
  end;
  cbn [exec];
  repeat match goal with
  | H : plain ?o = true |- context[oval A p' (T s) ?o] => rewrite (oval_plain s p' q o H)
  end;
  rewrite ?odev_T, ?read_T;
  repeat match goal with
  | |- context[match oval A q s ?o with _ => _ end] => destruct (oval A q s o)
  | |- context[match read O s ?k ?a with _ => _ end] => destruct (read O s k a)
  end;
  first [ reflexivity | apply (branch_T s _ _ Hat); assumption ].

Lemma exec_sim s op args :
  nth_error q (pc s) = Some (LInstr op args) -> okop op args = true ->
  exec A O p' (T s) op (map (res_operand A q) args) = T (exec A O q s op args).
Proof.
  intros Hat Hok.
  destruct op; cbn [okop] in Hok.
  all: destruct args as [|a1 [|a2 [|a3 [|a4 [|a5 [|a6 [|a7 [|a8 r]]]]]]]]; try discriminate Hok.
  all: try (cbn [forallb] in Hok; split_ok; norm s; timeout 10 (fin s Hat)).
  - (* IBr *) destruct rel, al; try discriminate Hok. destruct a3; try discriminate Hok. ctl s Hat.
  - (* IBrz *) destruct rel, al; try discriminate Hok. destruct a2; try discriminate Hok. ctl s Hat.
  - (* IBnan *) destruct rel; try discriminate Hok. destruct a2; try discriminate Hok. ctl s Hat.
  - (* IJ *) destruct a1; try discriminate Hok. ctl s Hat.
  - (* IBdse *) destruct rel, al; try discriminate Hok. destruct a2; try discriminate Hok. ctl s Hat.
  - (* IBdns *) destruct rel, al; try discriminate Hok. destruct a2; try discriminate Hok. ctl s Hat.
  - (* IAlias *) cbn [forallb] in Hok. split_ok. destruct a1; try discriminate; reflexivity.
  - (* IDefine *) cbn [forallb] in Hok. split_ok. destruct a1; try discriminate; reflexivity.
Qed.

(* ---------------------------------------------------------------- one step *)
Lemma next_instr_at : forall (p : program) i op args, nth_error p i = Some (LInstr op args) ->
  next_instr p i = Some (LInstr op args).
Proof.
  induction p as [|l r IH]; intros i op args H; [destruct i; discriminate|].
  destruct i as [|k]; cbn in H |- *.
  - injection H as ->. reflexivity.
  - apply IH. exact H.
Qed.
Lemma nth_resolved i op args : nth_error q i = Some (LInstr op args) ->
  nth_error p' (ib i) = Some (LInstr op (map (res_operand A q) args)).
Proof.
  intros H. unfold p', resolve. change (flat_map (res_line A q) q) with (resolve_in A q q).
  rewrite resolve_in_nth. rewrite (next_instr_at _ _ _ _ H). reflexivity.
Qed.
Lemma okline_at i l : frag = true -> nth_error q i = Some l -> okline l = true.
Proof.
  unfold frag. intros F H. rewrite forallb_forall in F. apply F. eapply nth_error_In. exact H.
Qed.

Lemma T_label s id : nth_error q (pc s) = Some (LLabel id) -> T (next s) = T s.
Proof. intros H. unfold T, next, set_pc. cbn. rewrite (ib_S_label _ _ _ H). reflexivity. Qed.

Lemma step_sim s : frag = true ->
  (T (step A O q s) = T s /\ st s = Running /\ exists id, nth_error q (pc s) = Some (LLabel id))
  \/ T (step A O q s) = step A O p' (T s).
Proof.
  intros F. unfold step. change (st (T s)) with (st s). destruct (st s) eqn:Es; [|right; reflexivity|right; reflexivity].
  change (pc (T s)) with (ib (pc s)).
  destruct (nth_error q (pc s)) as [[id|op args]|] eqn:E.
  - left. split; [exact (T_label s id E)|]. split; [reflexivity|]. exists id. reflexivity.
  - right. rewrite (nth_resolved _ _ _ E). symmetry. apply exec_sim; [exact E|].
    exact (okline_at _ _ F E).
  - right. apply nth_error_None in E.
    assert (nth_error p' (ib (pc s)) = None) as N.
    { apply nth_error_None. unfold p'. rewrite (ib_past q (pc s) E). lia. }
    rewrite N. reflexivity.
Qed.

(* ---------------------------------------------------------------- runs *)
Theorem run_sim : frag = true -> forall fuel s, exists fuel', (fuel' <= fuel) /\ (T (run A O q fuel s) = run A O p' fuel' (T s)).
Proof.
  intros F. induction fuel as [|k IH]; intros s.
  - exists 0. split; [lia|reflexivity].
  - cbn [run]. destruct (st s) eqn:Es.
    + destruct (step_sim s F) as [(Hl & _ & _)|Hs].
      * destruct (IH (step A O q s)) as (f' & Hle & Hr). exists f'. split; [lia|]. rewrite Hr, Hl. reflexivity.
      * destruct (IH (step A O q s)) as (f' & Hle & Hr). exists (S f'). split; [lia|].
        cbn [run]. change (st (T s)) with (st s). rewrite Es. rewrite Hr, Hs. reflexivity.
    + exists 0. split; [lia|reflexivity].
    + exists 0. split; [lia|reflexivity].
Qed.

(* the converse: every run of the label-free program is matched by a run of the labelled one (which
   needs the extra steps over its label lines) *)
Lemma skip_labels : frag = true -> forall n s, length q - pc s <= n -> st s = Running ->
  exists k, let s1 := run A O q k s in
    T s1 = T s /\ st s1 = Running /\
    (forall id, nth_error q (pc s1) <> Some (LLabel id)).
Proof.
  intros F. induction n as [|n IH]; intros s Hn Hs.
  - exists 0. cbn. repeat split; [exact Hs|]. intros id H.
    assert (pc s < length q) by (apply nth_error_Some; congruence). lia.
  - destruct (nth_error q (pc s)) as [[id|op args]|] eqn:E.
    + (* a label line: one step, then go on *)
      assert (step A O q s = next s) as Hst by (unfold step; rewrite Hs, E; reflexivity).
      assert (pc s < length q) by (apply nth_error_Some; congruence).
      destruct (IH (next s)) as (k & Hk); [cbn; lia|exact Hs|].
      exists (S k). cbn [run]. rewrite Hs, Hst. cbn zeta in Hk |- *.
      destruct Hk as (H1 & H2 & H3). repeat split; [|exact H2|exact H3].
      rewrite H1. exact (T_label s id E).
    + exists 0. cbn. repeat split; [exact Hs|]. intros id H. congruence.
    + exists 0. cbn. repeat split; [exact Hs|]. intros id H. congruence.
Qed.

Theorem run_sim_converse : frag = true -> forall fuel' s, exists fuel,
  T (run A O q fuel s) = run A O p' fuel' (T s).
Proof.
  intros F. induction fuel' as [|k IH]; intros s.
  - exists 0. reflexivity.
  - cbn [run]. change (st (T s)) with (st s). destruct (st s) eqn:Es.
    + destruct (skip_labels F (length q - pc s) s (Nat.le_refl _) Es) as (j & H1 & H2 & H3). cbn zeta in *.
      set (s1 := run A O q j s) in *.
      destruct (step_sim s1 F) as [(_ & _ & id & Hid)|Hs]; [exfalso; exact (H3 id Hid)|].
      destruct (IH (step A O q s1)) as (f & Hf).
      exists (j + S f). rewrite run_add. fold s1. cbn [run]. rewrite H2. rewrite Hf, Hs, H1. reflexivity.
    + exists 0. reflexivity.
    + exists 0. reflexivity.
Qed.

(* what the chip and its surroundings can observe is the same *)
Theorem resolve_preserves_behaviour : frag = true -> forall fuel, exists fuel', (fuel' <= fuel) /\
  let a := run A O q fuel (init_state A) in
  let b := run A O p' fuel' (init_state A) in
  hist b = hist a /\ st b = st a /\ regs b = regs a /\ mem b = mem a /\ pc b = ib (pc a).
Proof.
  intros F fuel. destruct (run_sim F fuel (init_state A)) as (f' & Hle & H).
  exists f'. split; [exact Hle|]. cbn zeta.
  assert (T (init_state A) = init_state A) as Hi.
  { unfold T, init_state, set_pc. cbn. assert (ib 0 = 0) as -> by (destruct q; reflexivity). reflexivity. } rewrite Hi in H. rewrite <- H.
  repeat split; reflexivity.
Qed.

Theorem resolve_behaviour_converse : frag = true -> forall fuel', exists fuel,
  let a := run A O q fuel (init_state A) in
  let b := run A O p' fuel' (init_state A) in
  hist b = hist a /\ st b = st a /\ regs b = regs a /\ mem b = mem a /\ pc b = ib (pc a).
Proof.
  intros F fuel'. destruct (run_sim_converse F fuel' (init_state A)) as (f & H).
  exists f. cbn zeta.
  assert (T (init_state A) = init_state A) as Hi.
  { unfold T, init_state, set_pc. cbn. assert (ib 0 = 0) as -> by (destruct q; reflexivity). reflexivity. }
  rewrite Hi in H. rewrite <- H. repeat split; reflexivity.
Qed.

End S.

(* ---------------------------------------------------------------- the binary64 instance *)
From Coq Require Import PrimFloat.
From PV Require Import IC10.FloatAlg.

(* line numbers up to 4096 are exactly representable and read back (finite check, lifted) *)
Definition nat_ok (n : nat) : bool :=
  match v_to_Z FloatAlg (of_nat FloatAlg n) with Some z => Z.eqb z (Z.of_nat n) | None => false end.
Lemma float_line_numbers : forall n, n <= 4096 -> v_to_Z FloatAlg (of_nat FloatAlg n) = Some (Z.of_nat n).
Proof.
  assert (forallb nat_ok (seq 0 4097) = true) as H by (vm_compute; reflexivity).
  rewrite forallb_forall in H. intros n Hn.
  assert (In n (seq 0 4097)) as Hi by (apply in_seq; lia).
  specialize (H n Hi). unfold nat_ok in H.
  destruct (v_to_Z FloatAlg (of_nat FloatAlg n)) as [z|]; [|discriminate].
  apply Z.eqb_eq in H. subst z. reflexivity.
Qed.

Theorem resolve_preserves_behaviour_float (O : @oracle float) (q : list (@line float)) :
  length q <= 4096 -> frag q = true -> forall fuel, exists fuel', (fuel' <= fuel) /\
  let a := run FloatAlg O q fuel (init_state FloatAlg) in
  let b := run FloatAlg O (resolve FloatAlg q) fuel' (init_state FloatAlg) in
  hist b = hist a /\ st b = st a /\ regs b = regs a /\ mem b = mem a /\ pc b = instrs_before q (pc a).
Proof.
  intros Hlen F fuel. apply resolve_preserves_behaviour; [|exact F].
  intros n Hn. apply float_line_numbers. lia.
Qed.

Theorem resolve_behaviour_converse_float (O : @oracle float) (q : list (@line float)) :
  length q <= 4096 -> frag q = true -> forall fuel', exists fuel,
  let a := run FloatAlg O q fuel (init_state FloatAlg) in
  let b := run FloatAlg O (resolve FloatAlg q) fuel' (init_state FloatAlg) in
  hist b = hist a /\ st b = st a /\ regs b = regs a /\ mem b = mem a /\ pc b = instrs_before q (pc a).
Proof.
  intros Hlen F fuel'. apply resolve_behaviour_converse; [|exact F].
  intros n Hn. apply float_line_numbers. lia.
Qed.

(* the hypotheses are satisfiable: a loop with a conditional exit, labels as targets only *)
Example frag_example :
  let q : list (@line float) :=
    [LInstr IMove [OReg 0; OImm 0%float];
     LLabel 1;
     LInstr (IBr Cge false false) [OReg 0; OImm 3%float; OLbl 2];
     LInstr IS [ODev 6; OImm 12%float; OReg 0];
     LInstr (IBin Badd) [OReg 0; OReg 0; OImm 1%float];
     LInstr IJ [OLbl 1];
     LLabel 2;
     LInstr IYield []] in
  frag q = true /\ length q <= 4096 /\
  resolve FloatAlg q =
    [LInstr IMove [OReg 0; OImm 0%float];
     LInstr (IBr Cge false false) [OReg 0; OImm 3%float; OImm 5%float];
     LInstr IS [ODev 6; OImm 12%float; OReg 0];
     LInstr (IBin Badd) [OReg 0; OReg 0; OImm 1%float];
     LInstr IJ [OImm 1%float];
     LInstr IYield []].
Proof. cbn zeta. split; [vm_compute; reflexivity|]. split; [cbn; lia|]. vm_compute. reflexivity. Qed.
