From Coq Require Import List ZArith Bool Arith Lia.
From PV Require Import IC10.Values IC10.Machine Valid.Resolve.
Import ListNotations.

Section P.
Context {val : Type}.
Variable A : valg val.
Notation line := (@line val).
Notation program := (list line).

(* resolving with respect to a fixed environment program q *)
Definition resolve_in (q p : program) : program := flat_map (res_line A q) p.

Lemma resolve_in_nth q : forall p i,
  nth_error (resolve_in q p) (instrs_before p i) =
  match next_instr p i with
  | Some (LInstr op args) => Some (LInstr op (map (res_operand A q) args))
  | _ => None
  end.
Proof.
  induction p as [|l r IH]; intros i.
  - destruct i; reflexivity.
  - destruct i as [|k].
    + cbn [instrs_before next_instr]. destruct l as [id|op args]; cbn [is_instr resolve_in flat_map res_line app].
      * specialize (IH 0). unfold resolve_in in IH. destruct r; exact IH.
      * reflexivity.
    + cbn [instrs_before next_instr]. destruct l as [id|op args]; cbn [is_instr resolve_in flat_map res_line app Nat.add].
      * exact (IH k).
      * exact (IH k).
Qed.

(* Every jump lands where intended: the number substituted for a label is the index, in the
   label-free program, of the (resolved) instruction that follows the label. *)
Theorem resolve_target_is_next_instruction p id n :
  label_target p id = Some n ->
  exists i, find_label p id 0 = Some i /\
    nth_error (resolve A p) n =
    match next_instr p i with
    | Some (LInstr op args) => Some (LInstr op (map (res_operand A p) args))
    | _ => None      (* the label is the last line: the target is one past the end (halt) *)
    end.
Proof.
  unfold label_target. destruct (find_label p id 0) as [i|] eqn:E; [|discriminate].
  intros [= <-]. exists i. split; [reflexivity|]. apply (resolve_in_nth p p i).
Qed.

(* the resolved program has no label lines and no label operands left *)
Lemma res_operand_no_label q o : match res_operand A q o with OLbl _ => False | _ => True end.
Proof. destruct o; cbn; auto. destruct (label_target q id); exact I. Qed.

Theorem resolve_label_free p : forall l, In l (resolve A p) ->
  exists op args, l = LInstr op args /\ forall o, In o args -> match o with OLbl _ => False | _ => True end.
Proof.
  unfold resolve. intros l Hin. apply in_flat_map in Hin as (l0 & _ & Hl).
  destruct l0 as [id|op args]; cbn in Hl; [contradiction|]. destruct Hl as [<-|[]].
  exists op, (map (res_operand A p) args). split; [reflexivity|].
  intros o Ho. apply in_map_iff in Ho as (o0 & <- & _). apply res_operand_no_label.
Qed.

(* the find_label of a label defined exactly once is that definition (uniqueness) *)
Lemma find_label_ge (p : program) id : forall k i, find_label p id k = Some i -> k <= i.
Proof.
  induction p as [|l r IH]; intros k i H; [discriminate|].
  destruct l as [id'|op args]; cbn in H.
  - destruct (Nat.eqb id id'); [injection H as <-; lia|]. apply IH in H. lia.
  - apply IH in H. lia.
Qed.

Theorem wf_labels_defined (p : program) : wf_labels p = true ->
  forall id, In id (refs p) -> count_defs p id = 1 /\ exists i, find_label p id 0 = Some i.
Proof.
  unfold wf_labels. rewrite forallb_forall. intros H id Hin. specialize (H id Hin).
  apply Nat.eqb_eq in H. split; [exact H|].
  assert (forall (q : program) k, count_defs q id <> 0 -> exists i, find_label q id k = Some i) as K.
  { induction q as [|l r IHq]; intros k Hc; [cbn in Hc; congruence|].
    destruct l as [id'|op args]; cbn in *.
    - destruct (Nat.eqb id id'); [eexists; reflexivity|]. apply IHq. exact Hc.
    - apply IHq. exact Hc. }
  apply K. lia.
Qed.
End P.
