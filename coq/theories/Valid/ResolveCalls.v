(* Semantic correctness of label resolution for programs with (non-nested) calls.

   Extends Valid/ResolveSem.v: besides absolute jumps and branches to labels, the labelled program q
   may contain `jal <label>` and `j ra`, provided the return-address register ra is used by nothing
   else (no operand of any other instruction names ra: leaf subroutines, which need not save it).
   The two programs then go through the same states up to the renumbering of the pc AND of the
   return address held in ra. *)
From Coq Require Import List ZArith Bool Arith Lia.
From PV Require Import IC10.Values IC10.Machine IC10.MachineProofs Valid.Resolve Valid.ResolveProofs.
Import ListNotations.

Section S.
Context {val : Type}.
Variable A : valg val.
Variable O : @oracle val.
Notation line := (@line val).
Notation operand := (@operand val).
Notation program := (list line).
Notation state := (@state val).

Variable q : program.
Let p' := resolve A q.
Notation ib := (instrs_before q).

Hypothesis Hnat : forall n, n <= length q -> v_to_Z A (of_nat A n) = Some (Z.of_nat n).

(* ---------------------------------------------------------------- the fragment *)
Definition plain (o : operand) : bool :=
  match o with OLbl _ | OName _ => false | OReg n => negb (Nat.eqb n RA) | _ => true end.
Definition defd (id : nat) : bool := match find_label q id 0 with Some _ => true | None => false end.

Definition okop (op : opcode) (args : list operand) : bool :=
  match op, args with
  | IJ, [OLbl id] => defd id
  | IJ, [OReg n] => Nat.eqb n RA
  | IJal, [OLbl id] => defd id
  | IBr _ false false, [x; y; OLbl id] => plain x && plain y && defd id
  | IBrz _ false false, [x; OLbl id] => plain x && defd id
  | IBnan false, [x; OLbl id] => plain x && defd id
  | IBdse false false, [x; OLbl id] => plain x && defd id
  | IBdns false false, [x; OLbl id] => plain x && defd id
  | IJ, _ | IJal, _ | IJr, _ | IBr _ _ _, _ | IBrz _ _ _, _ | IBnan _, _ | IBdse _ _, _ | IBdns _ _, _ => false
  | _, _ => forallb plain args
  end.
Definition okline (l : line) : bool := match l with LLabel _ => true | LInstr op args => okop op args end.
Definition frag : bool := forallb okline q.

(* ---------------------------------------------------------------- the state map *)
Definition ra_map (v : val) : val :=
  match v_to_Z A v with
  | Some z => if (0 <=? z)%Z then of_nat A (ib (Z.to_nat z)) else v
  | None => v
  end.
Definition map_regs (rs : list val) : list val :=
  match nth_error rs RA with Some v => upd rs RA (ra_map v) | None => rs end.
Definition T (s : state) : state :=
  {| regs := map_regs (regs s); mem := mem s; pc := ib (pc s); hist := hist s; names := names s; st := st s |}.

Lemma upd_length {X} (l : list X) n x : length (upd l n x) = length l.
Proof. revert n. induction l as [|y r IH]; intros [|n]; cbn; try reflexivity. rewrite IH. reflexivity. Qed.
Lemma nth_upd_same {X} (l : list X) n x : n < length l -> nth_error (upd l n x) n = Some x.
Proof.
  revert n. induction l as [|y r IH]; intros n H; [cbn in H; lia|].
  destruct n as [|n]; cbn; [reflexivity|]. apply IH. cbn in H. lia.
Qed.
Lemma nth_upd_other {X} (l : list X) n m x : n <> m -> nth_error (upd l n x) m = nth_error l m.
Proof.
  revert n m. induction l as [|y r IH]; intros n m H; [destruct n; reflexivity|].
  destruct n as [|n], m as [|m]; cbn; try reflexivity; [lia|]. apply IH. lia.
Qed.
Lemma upd_upd_same {X} (l : list X) n x y : upd (upd l n x) n y = upd l n y.
Proof. revert n. induction l as [|z r IH]; intros [|n]; cbn; try reflexivity. rewrite IH. reflexivity. Qed.
Lemma upd_comm {X} (l : list X) n m x y : n <> m -> upd (upd l n x) m y = upd (upd l m y) n x.
Proof.
  revert n m. induction l as [|z r IH]; intros n m H; [destruct n, m; reflexivity|].
  destruct n as [|n], m as [|m]; cbn; try reflexivity; [lia|]. rewrite IH by lia. reflexivity.
Qed.
Lemma upd_none {X} (l : list X) n x : nth_error l n = None -> upd l n x = l.
Proof.
  revert n. induction l as [|y r IH]; intros [|n] H; cbn in *; try reflexivity; try discriminate.
  rewrite IH by exact H. reflexivity.
Qed.

Lemma map_regs_other rs n : n <> RA -> nth_error (map_regs rs) n = nth_error rs n.
Proof.
  intros H. unfold map_regs. destruct (nth_error rs RA); [|reflexivity]. apply nth_upd_other. lia.
Qed.
Lemma map_regs_upd_other rs n x : n <> RA -> map_regs (upd rs n x) = upd (map_regs rs) n x.
Proof.
  intros H. unfold map_regs. rewrite nth_upd_other by exact H.
  destruct (nth_error rs RA); [|reflexivity]. apply upd_comm. exact H.
Qed.
Lemma map_regs_upd_ra rs v : map_regs (upd rs RA v) = upd (map_regs rs) RA (ra_map v).
Proof.
  unfold map_regs. destruct (nth_error rs RA) as [w|] eqn:E.
  - assert (RA < length rs) as Hl by (apply nth_error_Some; congruence).
    rewrite nth_upd_same by exact Hl. rewrite !upd_upd_same. reflexivity.
  - rewrite (upd_none rs RA v E). rewrite E. rewrite (upd_none rs RA _ E). reflexivity.
Qed.

(* instruction counting *)
Lemma ib_S_instr : forall (p : program) i op args, nth_error p i = Some (LInstr op args) ->
  instrs_before p (S i) = S (instrs_before p i).
Proof.
  induction p as [|l r IH]; intros i op args H; [destruct i; discriminate|].
  destruct i as [|k].
  - cbn in H. injection H as ->. cbn. destruct r; reflexivity.
  - cbn [nth_error] in H. specialize (IH _ _ _ H).
    change (instrs_before (l :: r) (S (S k))) with ((if is_instr l then 1 else 0) + instrs_before r (S k)).
    change (instrs_before (l :: r) (S k)) with ((if is_instr l then 1 else 0) + instrs_before r k).
    rewrite IH. lia.
Qed.
Lemma ib_S_label : forall (p : program) i id, nth_error p i = Some (LLabel id) ->
  instrs_before p (S i) = instrs_before p i.
Proof.
  induction p as [|l r IH]; intros i id H; [destruct i; discriminate|].
  destruct i as [|k].
  - cbn in H. injection H as ->. cbn. destruct r; reflexivity.
  - cbn [nth_error] in H. specialize (IH _ _ H).
    change (instrs_before (l :: r) (S (S k))) with ((if is_instr l then 1 else 0) + instrs_before r (S k)).
    change (instrs_before (l :: r) (S k)) with ((if is_instr l then 1 else 0) + instrs_before r k).
    rewrite IH. reflexivity.
Qed.
Lemma ib_le_len : forall (p : program) i, instrs_before p i <= length p.
Proof.
  induction p as [|l r IH]; intros [|k]; cbn; try lia. specialize (IH k). destruct (is_instr l); lia.
Qed.
Lemma ib_past_gen (e : program) : forall (p : program) i, length p <= i ->
  instrs_before p i = length (flat_map (res_line A e) p).
Proof.
  induction p as [|l r IH]; intros i H.
  - destruct i; reflexivity.
  - destruct i as [|k]; [cbn in H; lia|]. cbn in H.
    change (instrs_before (l :: r) (S k)) with ((if is_instr l then 1 else 0) + instrs_before r k).
    rewrite (IH k) by lia. cbn [flat_map]. rewrite app_length.
    destruct l; cbn; reflexivity.
Qed.
Lemma find_label_lt : forall (p : program) id k i, find_label p id k = Some i -> i < k + length p.
Proof.
  induction p as [|l r IH]; intros id k i H; [discriminate|].
  cbn in H. destruct l as [id'|]; [destruct (Nat.eqb id id'); [injection H as <-; cbn; lia|]|];
    apply IH in H; cbn; lia.
Qed.

Lemma decode_ib n : v_to_Z A (of_nat A (ib n)) = Some (Z.of_nat (ib n)).
Proof. apply Hnat. apply ib_le_len. Qed.
Lemma ra_map_line n : n <= length q -> ra_map (of_nat A n) = of_nat A (ib n).
Proof.
  intros H. unfold ra_map. rewrite (Hnat n H).
  assert ((0 <=? Z.of_nat n)%Z = true) as -> by (apply Z.leb_le; lia). rewrite Nat2Z.id. reflexivity.
Qed.

(* ---------------------------------------------------------------- primitives *)
Lemma T_fail s c : T (fail s c) = fail (T s) c. Proof. reflexivity. Qed.
Lemma T_halt s : T (halt s) = halt (T s). Proof. reflexivity. Qed.
Lemma T_set_mem s n v : T (set_mem s n v) = set_mem (T s) n v. Proof. reflexivity. Qed.
Lemma T_emit s e : T (emit s e) = emit (T s) e. Proof. reflexivity. Qed.
Lemma T_set_reg s n v : n <> RA -> T (set_reg s n v) = set_reg (T s) n v.
Proof. intros H. unfold T, set_reg. cbn. rewrite (map_regs_upd_other _ _ _ H). reflexivity. Qed.

Section AtInstr.
Variable s : state.
Variables (op0 : opcode) (args0 : list operand).
Hypothesis Hat : nth_error q (pc s) = Some (LInstr op0 args0).

Lemma T_next : T (next s) = next (T s).
Proof. unfold T, next, set_pc. cbn. rewrite (ib_S_instr _ _ _ _ Hat). reflexivity. Qed.

Lemma res_plain o : plain o = true -> res_operand A q o = o.
Proof. destruct o; cbn; try discriminate; reflexivity. Qed.
Lemma oval_plain (P1 P2 : program) o : plain o = true -> oval A P1 (T s) o = oval A P2 s o.
Proof.
  destruct o as [n| | | | |]; cbn; try discriminate; try reflexivity.
  intros H. apply negb_true_iff in H. apply Nat.eqb_neq in H.
  unfold oval. cbn [resolve T regs]. apply map_regs_other. exact H.
Qed.
Lemma odev_plain o : plain o = true -> odev A (T s) o = odev A s o.
Proof.
  destruct o as [n| | | | |]; cbn; try discriminate; try reflexivity.
  intros H. apply negb_true_iff in H. apply Nat.eqb_neq in H.
  unfold odev. cbn [resolve T regs]. rewrite (map_regs_other _ _ H). reflexivity.
Qed.
Lemma oreg_T o : oreg (T s) o = oreg s o. Proof. reflexivity. Qed.
Lemma is_db_T o : is_db (T s) o = is_db s o. Proof. reflexivity. Qed.
Lemma sp_val_T : sp_val A (T s) = sp_val A s.
Proof. unfold sp_val. cbn [T regs]. rewrite map_regs_other by (unfold SP, RA; lia). reflexivity. Qed.
Lemma read_T k a : read O (T s) k a = read O s k a. Proof. reflexivity. Qed.

Lemma oreg_plain_not_ra d n : plain d = true -> oreg s d = Some n -> n <> RA.
Proof.
  destruct d as [m| | | | |]; cbn [plain]; try discriminate.
  intros H K. apply negb_true_iff in H. apply Nat.eqb_neq in H.
  unfold oreg in K. cbn [Machine.resolve] in K. revert K. destruct (Nat.ltb m 18); intros K; [injection K as <-; exact H|discriminate K].
Qed.

Lemma wr_T d v : plain d = true -> wr (T s) d v = T (wr s d v).
Proof.
  intros Hd. unfold wr. rewrite oreg_T. destruct (oreg s d) as [n|] eqn:E; [|reflexivity]. destruct v; [|reflexivity].
  pose proof (oreg_plain_not_ra d n Hd E) as Hn.
  unfold T, next, set_pc, set_reg. cbn. rewrite (ib_S_instr _ _ _ _ Hat).
  rewrite (map_regs_upd_other _ n _ Hn). reflexivity.
Qed.
Lemma effect_T k a : effect (T s) k a = T (effect s k a).
Proof.
  unfold effect. destruct a; [|reflexivity]. unfold T, next, set_pc, emit. cbn.
  rewrite (ib_S_instr _ _ _ _ Hat). reflexivity.
Qed.
Lemma next_mem_T n x : next (set_mem (T s) n x) = T (next (set_mem s n x)).
Proof. unfold T, next, set_pc, set_mem. cbn. rewrite (ib_S_instr _ _ _ _ Hat). reflexivity. Qed.
Lemma next_push_T n x v : next (set_reg (set_mem (T s) n x) SP v) = T (next (set_reg (set_mem s n x) SP v)).
Proof.
  unfold T, next, set_pc, set_mem, set_reg. cbn. rewrite (ib_S_instr _ _ _ _ Hat).
  rewrite map_regs_upd_other by (unfold SP, RA; lia). reflexivity.
Qed.
Lemma wr_pop_T v d w : plain d = true -> wr (set_reg (T s) SP v) d w = T (wr (set_reg s SP v) d w).
Proof.
  intros Hd. unfold wr. change (oreg (set_reg (T s) SP v) d) with (oreg s d). change (oreg (set_reg s SP v) d) with (oreg s d).
  destruct (oreg s d) as [n|] eqn:E.
  - destruct w.
    + pose proof (oreg_plain_not_ra d n Hd E) as Hn.
      unfold T, next, set_pc, set_reg. cbn. rewrite (ib_S_instr _ _ _ _ Hat).
      rewrite (map_regs_upd_other _ n _ Hn). rewrite map_regs_upd_other by (unfold SP, RA; lia). reflexivity.
    + unfold T, fail, set_reg. cbn. rewrite map_regs_upd_other by (unfold SP, RA; lia). reflexivity.
  - unfold T, fail, set_reg. cbn. rewrite map_regs_upd_other by (unfold SP, RA; lia). reflexivity.
Qed.

(* a branch / jump to a defined label, with or without linking *)
Lemma branch_T c id link :
  defd id = true ->
  branch A (T s) c (oval A p' (T s) (res_operand A q (OLbl id))) false link =
  T (branch A s c (oval A q s (OLbl id)) false link).
Proof.
  unfold defd. intros Hd. cbn [res_operand]. unfold label_target.
  destruct (find_label q id 0) as [i|] eqn:E; [|discriminate].
  unfold oval. cbn [Machine.resolve]. rewrite E. cbn [branch].
  destruct c; [|symmetry; exact T_next].
  unfold jump_abs.
  assert (i < length q) as Hi by (apply find_label_lt in E; lia).
  rewrite (Hnat i) by lia. rewrite decode_ib.
  assert ((0 <=? Z.of_nat i)%Z = true) as -> by (apply Z.leb_le; lia).
  assert ((0 <=? Z.of_nat (ib i))%Z = true) as -> by (apply Z.leb_le; lia).
  rewrite !Nat2Z.id. destruct link; [|reflexivity].
  assert (pc s < length q) as Hp by (apply nth_error_Some; congruence).
  unfold T, set_pc, set_reg. cbn. rewrite map_regs_upd_ra. rewrite (ra_map_line (S (pc s))) by lia.
  rewrite (ib_S_instr _ _ _ _ Hat). reflexivity.
Qed.

(* the return: j ra *)
Lemma return_T :
  branch A (T s) true (oval A p' (T s) (OReg RA)) false false = T (branch A s true (oval A q s (OReg RA)) false false).
Proof.
  unfold oval. cbn [Machine.resolve T regs]. unfold map_regs.
  destruct (nth_error (regs s) RA) as [v|] eqn:E.
  - assert (RA < length (regs s)) as Hl by (apply nth_error_Some; congruence).
    rewrite nth_upd_same by exact Hl. cbn [branch]. unfold jump_abs, ra_map.
    destruct (v_to_Z A v) as [z|] eqn:Ez.
    + destruct (0 <=? z)%Z eqn:Ep.
      * rewrite decode_ib.
        assert ((0 <=? Z.of_nat (ib (Z.to_nat z)))%Z = true) as -> by (apply Z.leb_le; lia).
        rewrite Nat2Z.id. unfold T, set_pc. cbn. unfold map_regs. rewrite E. unfold ra_map. rewrite Ez, Ep. reflexivity.
      * rewrite Ez, Ep. unfold T, fail. cbn. unfold map_regs. rewrite E. unfold ra_map. rewrite Ez, Ep. reflexivity.
    + rewrite Ez. unfold T, fail. cbn. unfold map_regs. rewrite E. unfold ra_map. rewrite Ez. reflexivity.
  - rewrite E. cbn [branch]. unfold T, fail. cbn. unfold map_regs. rewrite E. reflexivity.
Qed.
End AtInstr.

(* ---------------------------------------------------------------- one instruction *)
Ltac split_ok :=
  repeat match goal with
  | H : _ && _ = true |- _ => apply andb_prop in H; destruct H
  end.
Ltac norm s :=
  cbn [map];
  repeat match goal with
  | H : plain ?o = true |- context[res_operand A q ?o] => rewrite (res_plain o H)
  end;
  cbn [exec ovals];
  repeat match goal with
  | H : plain ?o = true |- context[oval A p' (T s) ?o] => rewrite (oval_plain s p' q o H)
  end;
  repeat match goal with
  | H : plain ?o = true |- context[odev A (T s) ?o] => rewrite (odev_plain s o H)
  end;
  rewrite ?is_db_T, ?sp_val_T, ?read_T;
  change (mem (T s)) with (mem s).
Ltac fin s Hat :=
  first [ reflexivity
        | apply (wr_T s _ _ Hat); assumption | apply (effect_T s _ _ Hat) | apply (next_mem_T s _ _ Hat)
        | apply (next_push_T s _ _ Hat) | apply (wr_pop_T s _ _ Hat); assumption
        | symmetry; apply (T_next s _ _ Hat)
        | match goal with |- context[match ?x with _ => _ end] => destruct x; fin s Hat end ].
Ltac ctl s Hat :=
  split_ok;
  cbn [map];
  repeat match goal with
  | H : plain ?o = true |- context[res_operand A q ?o] => rewrite (res_plain o H)
  end;
  cbn [exec];
  repeat match goal with
  | H : plain ?o = true |- context[oval A p' (T s) ?o] => rewrite (oval_plain s p' q o H)
  end;
  repeat match goal with
  | H : plain ?o = true |- context[odev A (T s) ?o] => rewrite (odev_plain s o H)
  end;
  rewrite ?read_T;
  repeat match goal with
  | |- context[match oval A q s ?o with _ => _ end] => destruct (oval A q s o)
  | |- context[match read O s ?k ?a with _ => _ end] => destruct (read O s k a)
  end;
  first [ reflexivity | apply (branch_T s _ _ Hat); assumption ].

Lemma exec_sim s op args :
  nth_error q (pc s) = Some (LInstr op args) -> okop op args = true ->
  exec A O p' (T s) op (map (res_operand A q) args) = T (exec A O q s op args).
Proof.
  intros Hat Hok.
  destruct op; cbn [okop] in Hok.
  all: destruct args as [|a1 [|a2 [|a3 [|a4 [|a5 [|a6 [|a7 [|a8 r]]]]]]]]; try discriminate Hok.
  all: try (cbn [forallb] in Hok; split_ok; norm s; timeout 10 (fin s Hat)).
  - (* IBr *) destruct rel, al; try discriminate Hok. destruct a3; try discriminate Hok. ctl s Hat.
  - (* IBrz *) destruct rel, al; try discriminate Hok. destruct a2; try discriminate Hok. ctl s Hat.
  - (* IBnan *) destruct rel; try discriminate Hok. destruct a2; try discriminate Hok. ctl s Hat.
  - (* IJ *) destruct a1 as [n| | |id| |]; try discriminate Hok.
    + apply Nat.eqb_eq in Hok. subst n. cbn [map res_operand exec]. exact (return_T s).
    + ctl s Hat.
  - (* IJal *) destruct a1 as [| | |id| |]; try discriminate Hok. cbn [map exec].
    exact (branch_T s _ _ Hat true id true Hok).
  - (* IBdse *) destruct rel, al; try discriminate Hok. destruct a2; try discriminate Hok. ctl s Hat.
  - (* IBdns *) destruct rel, al; try discriminate Hok. destruct a2; try discriminate Hok. ctl s Hat.
  - (* IAlias *) cbn [forallb] in Hok. split_ok. destruct a1; try discriminate; reflexivity.
  - (* IDefine *) cbn [forallb] in Hok. split_ok. destruct a1; try discriminate; reflexivity.
Qed.

(* ---------------------------------------------------------------- one step *)
Lemma next_instr_at : forall (p : program) i op args, nth_error p i = Some (LInstr op args) ->
  next_instr p i = Some (LInstr op args).
Proof.
  induction p as [|l r IH]; intros i op args H; [destruct i; discriminate|].
  destruct i as [|k]; cbn in H |- *.
  - injection H as ->. reflexivity.
  - apply IH. exact H.
Qed.
Lemma nth_resolved i op args : nth_error q i = Some (LInstr op args) ->
  nth_error p' (ib i) = Some (LInstr op (map (res_operand A q) args)).
Proof.
  intros H. unfold p', resolve. change (flat_map (res_line A q) q) with (resolve_in A q q).
  rewrite resolve_in_nth. rewrite (next_instr_at _ _ _ _ H). reflexivity.
Qed.
Lemma okline_at i l : frag = true -> nth_error q i = Some l -> okline l = true.
Proof.
  unfold frag. intros F H. rewrite forallb_forall in F. apply F. eapply nth_error_In. exact H.
Qed.
Lemma T_label s id : nth_error q (pc s) = Some (LLabel id) -> T (next s) = T s.
Proof. intros H. unfold T, next, set_pc. cbn. rewrite (ib_S_label _ _ _ H). reflexivity. Qed.

Lemma step_sim s : frag = true ->
  (T (step A O q s) = T s /\ st s = Running /\ exists id, nth_error q (pc s) = Some (LLabel id))
  \/ T (step A O q s) = step A O p' (T s).
Proof.
  intros F. unfold step. change (st (T s)) with (st s). destruct (st s) eqn:Es; [|right; reflexivity|right; reflexivity].
  change (pc (T s)) with (ib (pc s)).
  destruct (nth_error q (pc s)) as [[id|op args]|] eqn:E.
  - left. split; [exact (T_label s id E)|]. split; [reflexivity|]. exists id. reflexivity.
  - right. rewrite (nth_resolved _ _ _ E). symmetry. apply exec_sim; [exact E|].
    exact (okline_at _ _ F E).
  - right. apply nth_error_None in E.
    assert (nth_error p' (ib (pc s)) = None) as N.
    { apply nth_error_None. unfold p', resolve. rewrite (ib_past_gen q q (pc s) E). lia. }
    rewrite N. reflexivity.
Qed.

Theorem run_sim : frag = true -> forall fuel s, exists fuel', (fuel' <= fuel) /\ (T (run A O q fuel s) = run A O p' fuel' (T s)).
Proof.
  intros F. induction fuel as [|k IH]; intros s.
  - exists 0. split; [lia|reflexivity].
  - cbn [run]. destruct (st s) eqn:Es.
    + destruct (step_sim s F) as [(Hl & _ & _)|Hs].
      * destruct (IH (step A O q s)) as (f' & Hle & Hr). exists f'. split; [lia|]. rewrite Hr, Hl. reflexivity.
      * destruct (IH (step A O q s)) as (f' & Hle & Hr). exists (S f'). split; [lia|].
        cbn [run]. change (st (T s)) with (st s). rewrite Es. rewrite Hr, Hs. reflexivity.
    + exists 0. split; [lia|reflexivity].
    + exists 0. split; [lia|reflexivity].
Qed.

(* the converse: every run of the label-free program is matched by a run of the labelled one *)
Lemma skip_labels : frag = true -> forall n s, length q - pc s <= n -> st s = Running ->
  exists k, let s1 := run A O q k s in
    T s1 = T s /\ st s1 = Running /\
    (forall id, nth_error q (pc s1) <> Some (LLabel id)).
Proof.
  intros F. induction n as [|n IH]; intros s Hn Hs.
  - exists 0. cbn. repeat split; [exact Hs|]. intros id H.
    assert (pc s < length q) by (apply nth_error_Some; congruence). lia.
  - destruct (nth_error q (pc s)) as [[id|op args]|] eqn:E.
    + assert (step A O q s = next s) as Hst by (unfold step; rewrite Hs, E; reflexivity).
      assert (pc s < length q) by (apply nth_error_Some; congruence).
      destruct (IH (next s)) as (k & Hk); [cbn; lia|exact Hs|].
      exists (S k). cbn [run]. rewrite Hs, Hst. cbn zeta in Hk |- *.
      destruct Hk as (H1 & H2 & H3). repeat split; [|exact H2|exact H3].
      rewrite H1. exact (T_label s id E).
    + exists 0. cbn. repeat split; [exact Hs|]. intros id H. congruence.
    + exists 0. cbn. repeat split; [exact Hs|]. intros id H. congruence.
Qed.

Theorem run_sim_converse : frag = true -> forall fuel' s, exists fuel,
  T (run A O q fuel s) = run A O p' fuel' (T s).
Proof.
  intros F. induction fuel' as [|k IH]; intros s.
  - exists 0. reflexivity.
  - cbn [run]. change (st (T s)) with (st s). destruct (st s) eqn:Es.
    + destruct (skip_labels F (length q - pc s) s (Nat.le_refl _) Es) as (j & H1 & H2 & H3). cbn zeta in *.
      set (s1 := run A O q j s) in *.
      destruct (step_sim s1 F) as [(_ & _ & id & Hid)|Hs]; [exfalso; exact (H3 id Hid)|].
      destruct (IH (step A O q s1)) as (f & Hf).
      exists (j + S f). rewrite run_add. fold s1. cbn [run]. rewrite H2. rewrite Hf, Hs, H1. reflexivity.
    + exists 0. reflexivity.
    + exists 0. reflexivity.
Qed.

Lemma T_init : T (init_state A) = init_state A.
Proof.
  unfold T, init_state. cbn [regs mem pc hist names st].
  assert (ib 0 = 0) as -> by (destruct q; reflexivity).
  assert (map_regs (repeat (zero A) 18) = repeat (zero A) 18) as ->; [|reflexivity].
  unfold map_regs. cbn [repeat nth_error RA].
  assert (ra_map (zero A) = zero A) as ->.
  { change (zero A) with (of_nat A 0). rewrite ra_map_line by lia.
    assert (ib 0 = 0) as -> by (destruct q; reflexivity). reflexivity. }
  reflexivity.
Qed.

(* same effects, status and memory; the registers agree except that ra holds the renumbered return
   address; the pc is renumbered *)
Theorem resolve_preserves_behaviour_with_calls : frag = true -> forall fuel, exists fuel', (fuel' <= fuel) /\
  let a := run A O q fuel (init_state A) in
  let b := run A O p' fuel' (init_state A) in
  hist b = hist a /\ st b = st a /\ mem b = mem a /\ regs b = map_regs (regs a) /\ pc b = ib (pc a).
Proof.
  intros F fuel. destruct (run_sim F fuel (init_state A)) as (f' & Hle & H).
  exists f'. split; [exact Hle|]. cbn zeta. rewrite T_init in H. rewrite <- H. repeat split; reflexivity.
Qed.

Theorem resolve_behaviour_with_calls_converse : frag = true -> forall fuel', exists fuel,
  let a := run A O q fuel (init_state A) in
  let b := run A O p' fuel' (init_state A) in
  hist b = hist a /\ st b = st a /\ mem b = mem a /\ regs b = map_regs (regs a) /\ pc b = ib (pc a).
Proof.
  intros F fuel'. destruct (run_sim_converse F fuel' (init_state A)) as (f & H).
  exists f. cbn zeta. rewrite T_init in H. rewrite <- H. repeat split; reflexivity.
Qed.

End S.

(* ---------------------------------------------------------------- the binary64 instance *)
From Coq Require Import PrimFloat.
From PV Require Import IC10.FloatAlg.
From PV Require Valid.ResolveSem.

Theorem resolve_preserves_behaviour_with_calls_float (O : @oracle float) (q : list (@line float)) :
  length q <= 4096 -> frag q = true -> forall fuel, exists fuel', (fuel' <= fuel) /\
  let a := run FloatAlg O q fuel (init_state FloatAlg) in
  let b := run FloatAlg O (resolve FloatAlg q) fuel' (init_state FloatAlg) in
  hist b = hist a /\ st b = st a /\ mem b = mem a /\ regs b = map_regs FloatAlg q (regs a) /\ pc b = instrs_before q (pc a).
Proof.
  intros Hlen F fuel. apply resolve_preserves_behaviour_with_calls; [|exact F].
  intros n Hn. apply ResolveSem.float_line_numbers. lia.
Qed.

Theorem resolve_behaviour_with_calls_converse_float (O : @oracle float) (q : list (@line float)) :
  length q <= 4096 -> frag q = true -> forall fuel', exists fuel,
  let a := run FloatAlg O q fuel (init_state FloatAlg) in
  let b := run FloatAlg O (resolve FloatAlg q) fuel' (init_state FloatAlg) in
  hist b = hist a /\ st b = st a /\ mem b = mem a /\ regs b = map_regs FloatAlg q (regs a) /\ pc b = instrs_before q (pc a).
Proof.
  intros Hlen F fuel'. apply resolve_behaviour_with_calls_converse; [|exact F].
  intros n Hn. apply ResolveSem.float_line_numbers. lia.
Qed.

(* a main loop calling a leaf subroutine twice *)
Example frag_calls_example :
  let q : list (@line float) :=
    [LLabel 1;
     LInstr IMove [OReg 0; OImm 3%float];
     LInstr IJal [OLbl 7];
     LInstr IMove [OReg 0; OImm 5%float];
     LInstr IJal [OLbl 7];
     LInstr IYield [];
     LInstr IJ [OLbl 1];
     LLabel 7;
     LInstr (IBin Bmul) [OReg 1; OReg 0; OImm 2%float];
     LInstr IS [ODev 6; OImm 12%float; OReg 1];
     LInstr IJ [OReg 17]] in
  frag q = true /\
  resolve FloatAlg q =
    [LInstr IMove [OReg 0; OImm 3%float];
     LInstr IJal [OImm 6%float];
     LInstr IMove [OReg 0; OImm 5%float];
     LInstr IJal [OImm 6%float];
     LInstr IYield [];
     LInstr IJ [OImm 0%float];
     LInstr (IBin Bmul) [OReg 1; OReg 0; OImm 2%float];
     LInstr IS [ODev 6; OImm 12%float; OReg 1];
     LInstr IJ [OReg 17]].
Proof. cbn zeta. split; vm_compute; reflexivity. Qed.
