From Coq Require Import List ZArith Bool Arith Lia.
From PV Require Import IC10.Values IC10.Machine Src.Sem Valid.Diff.
Import ListNotations.

Section P.
Context {val : Type}.
Variable A : valg val.

(* if no difference is reported, the traces agree event by event on their common length *)
Lemma first_diff_none a : forall b i, first_diff A a b i = None ->
  forall k x y, nth_error a k = Some x -> nth_error b k = Some y -> ev_eqb A x y = true.
Proof.
  induction a as [|e a IH]; intros b i H k x y Ha Hb.
  - destruct k; discriminate.
  - destruct b as [|f b]; [destruct k; discriminate|]. cbn in H.
    destruct (ev_eqb A e f) eqn:E; [|discriminate].
    destruct k as [|k]; cbn in Ha, Hb.
    + injection Ha as <-. injection Hb as <-. exact E.
    + eapply IH; eauto.
Qed.

(* a reported index really is a difference, and everything before it agrees *)
Lemma first_diff_some a : forall b i j, first_diff A a b i = Some j ->
  exists x y, nth_error a (j - i) = Some x /\ nth_error b (j - i) = Some y /\ ev_eqb A x y = false /\ i <= j.
Proof.
  induction a as [|e a IH]; intros b i j H; [discriminate|].
  destruct b as [|f b]; [discriminate|]. cbn in H.
  destruct (ev_eqb A e f) eqn:E.
  - destruct (IH _ _ _ H) as (x & y & Hx & Hy & Hne & Hle).
    exists x, y. replace (j - i) with (S (j - S i)) by lia. cbn. repeat split; auto. lia.
  - injection H as <-. exists e, f. rewrite Nat.sub_diag. cbn. auto.
Qed.

Theorem judge_agree_sound sres tt ts c i ns nt e1 e2 :
  judge A sres tt ts = (c, i, ns, nt, e1, e2) -> c = 0 ->
  forall k x y, nth_error (fst sres) k = Some x -> nth_error tt k = Some y -> ev_eqb A x y = true.
Proof.
  unfold judge. destruct sres as [se send]. cbn [fst].
  intros H Hc. subst c.
  destruct send; try discriminate;
  (destruct (first_diff A se tt 0) eqn:F; [discriminate|]); intros; eapply first_diff_none; eauto.
Qed.
End P.

Section P2.
Context {val : Type}.
Variable A : valg val.

Theorem judge2_agree_sound a sa b sb c i na nb e1 e2 :
  judge2 A a sa b sb = (c, i, na, nb, e1, e2) -> c = 0 ->
  forall k x y, nth_error a k = Some x -> nth_error b k = Some y -> ev_eqb A x y = true.
Proof.
  unfold judge2. intros H Hc. subst c.
  destruct (first_diff A a b 0) eqn:F; [discriminate|]. intros; eapply first_diff_none; eauto.
Qed.

(* without function regions the guarded run is the plain run *)
Theorem run_guard_no_regions O p fuel : forall s, run_guard A O p [] fuel s = run A O p fuel s.
Proof.
  induction fuel as [|k IH]; intros s; cbn [run_guard run]; [reflexivity|].
  destruct (st s); try reflexivity. cbn [existsb andb]. apply IH.
Qed.
End P2.
