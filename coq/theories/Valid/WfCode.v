(* Static well-formedness of a machine program (opcode known, operand count right, name
   operands where names are required) and its meaning: such a program never stops with
   "unknown instruction" or "wrong operand count". *)
From Coq Require Import List ZArith Bool Arith.
From PV Require Import IC10.Values IC10.Machine.
Import ListNotations.

Section Wf.
Context {val : Type}.
Notation operand := (@operand val).
Notation line := (@line val).

Definition arity (op : opcode) : option nat :=
  match op with
  | IMove => Some 2 | IBin _ => Some 3 | IUn _ => Some 2 | ISet _ => Some 3 | ISetz _ => Some 2
  | ISelect => Some 4 | ISnan => Some 2 | ISnanz => Some 2
  | IBr _ _ _ => Some 3 | IBrz _ _ _ => Some 2 | IBnan _ => Some 2
  | IJ | IJal | IJr => Some 1
  | IL => Some 3 | IS => Some 3 | ILs => Some 4 | ISs => Some 4 | ILr => Some 4
  | ILb => Some 4 | ILbn => Some 5 | ILbs => Some 5 | ILbns => Some 6
  | ISb => Some 3 | ISbn => Some 4 | ISbs => Some 4
  | IGet => Some 3 | IPut => Some 3 | IGetd => Some 3 | IPutd => Some 3
  | IPush => Some 1 | IPop => Some 1 | IPeek => Some 1 | IPoke => Some 2 | IClr => Some 1 | IClrd => Some 1
  | ISdse => Some 2 | ISdns => Some 2 | IBdse _ _ => Some 2 | IBdns _ _ => Some 2
  | IRand => Some 1 | IRmap => Some 3 | IYield => Some 0 | ISleep => Some 1 | IHcf => Some 0
  | IAlias => Some 2 | IDefine => Some 2
  | IUnknown => None
  end.

Definition is_name (o : operand) : bool := match o with OName _ => true | _ => false end.
Definition no_bad (o : operand) : bool := match o with OBad => false | _ => true end.

Definition wf_instr (op : opcode) (args : list operand) : bool :=
  match arity op with
  | Some n => Nat.eqb (length args) n && forallb no_bad args
              && match op with
                 | IAlias | IDefine => match args with a :: _ => is_name a | [] => false end
                 | _ => true
                 end
  | None => false
  end.

Definition wf_line (l : line) : bool :=
  match l with LLabel _ => true | LInstr op args => wf_instr op args end.
Definition wf_program (p : list line) : bool := forallb wf_line p.
End Wf.
