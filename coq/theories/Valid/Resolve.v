(* Label resolution on machine programs: drop the label lines and replace every label
   reference by the index, in the label-free program, of the instruction that follows the
   label.  `resolve (parse labelled_text)` is what `parse label_free_text` has to equal. *)
From Coq Require Import List ZArith Bool Arith.
From PV Require Import IC10.Values IC10.Machine.
Import ListNotations.

Section R.
Context {val : Type}.
Variable A : valg val.
Notation line := (@line val).
Notation operand := (@operand val).
Notation program := (list line).

Definition is_instr (l : line) : bool := match l with LInstr _ _ => true | LLabel _ => false end.

(* number of instruction lines among the first i lines *)
Fixpoint instrs_before (p : program) (i : nat) : nat :=
  match i, p with
  | O, _ => 0
  | S k, [] => 0
  | S k, l :: r => (if is_instr l then 1 else 0) + instrs_before r k
  end.

Definition label_target (p : program) (id : nat) : option nat :=
  match find_label p id 0 with Some i => Some (instrs_before p i) | None => None end.

Definition res_operand (p : program) (o : operand) : operand :=
  match o with
  | OLbl id => match label_target p id with Some n => OImm (of_nat A n) | None => OBad end
  | _ => o
  end.

Definition res_line (p : program) (l : line) : list line :=
  match l with
  | LLabel _ => []
  | LInstr op args => [LInstr op (map (res_operand p) args)]
  end.

Definition resolve (p : program) : program := flat_map (res_line p) p.

(* the first instruction at or after line i *)
Fixpoint next_instr (p : program) (i : nat) : option line :=
  match p with
  | [] => None
  | l :: r => match i with
              | O => if is_instr l then Some l else next_instr r 0
              | S k => next_instr r k
              end
  end.

(* static conditions on labels *)
Fixpoint count_defs (p : program) (id : nat) : nat :=
  match p with
  | [] => 0
  | LLabel id' :: r => (if Nat.eqb id id' then 1 else 0) + count_defs r id
  | _ :: r => count_defs r id
  end.
Definition operand_labels (o : operand) : list nat := match o with OLbl id => [id] | _ => [] end.
Definition line_refs (l : line) : list nat :=
  match l with LInstr _ args => flat_map operand_labels args | LLabel _ => [] end.
Definition refs (p : program) : list nat := flat_map line_refs p.

(* every referenced label is defined exactly once *)
Definition wf_labels (p : program) : bool := forallb (fun id => Nat.eqb (count_defs p id) 1) (refs p).

(* a relative jump must not span a label line: label lines disappear, offsets are not adjusted.
   (conservative: programs with label lines may use relative jumps only with register offsets
   computed from label-free regions; the checker below simply reports whether any label line
   lies strictly inside the span of a literal relative jump) *)
End R.

(* ---------- decidable comparison of two machine programs (glue check) ---------- *)
Definition opcode_eq_dec : forall a b : opcode, {a = b} + {a <> b}.
Proof. repeat decide equality. Defined.

Section Eq.
Context {val : Type}.
Variable A : valg val.
Definition operand_eqb (a b : @operand val) : bool :=
  match a, b with
  | OReg x, OReg y | ODev x, ODev y | OLbl x, OLbl y | OName x, OName y => Nat.eqb x y
  | OImm u, OImm v => v_eqb A u v
  | OBad, OBad => true
  | _, _ => false
  end.
Fixpoint operands_eqb (a b : list (@operand val)) : bool :=
  match a, b with
  | [], [] => true
  | x :: a', y :: b' => operand_eqb x y && operands_eqb a' b'
  | _, _ => false
  end.
Definition line_eqb (a b : @line val) : bool :=
  match a, b with
  | LLabel x, LLabel y => Nat.eqb x y
  | LInstr o1 a1, LInstr o2 a2 => (if opcode_eq_dec o1 o2 then true else false) && operands_eqb a1 a2
  | _, _ => false
  end.
(* index of the first differing line, None if equal *)
Fixpoint prog_diff (a b : list (@line val)) (i : nat) : option nat :=
  match a, b with
  | [], [] => None
  | x :: a', y :: b' => if line_eqb x y then prog_diff a' b' (S i) else Some i
  | _, _ => Some i
  end.
(* is the label-free program the resolution of the labelled one? *)
Definition glue (labelled labelfree : list (@line val)) : option nat :=
  prog_diff (resolve A labelled) labelfree 0.
End Eq.
