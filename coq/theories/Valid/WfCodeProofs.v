From Coq Require Import List ZArith Bool Arith Lia.
From PV Require Import IC10.Values IC10.Machine Valid.WfCode.
Import ListNotations.

Section P.
Context {val : Type}.
Variable A : valg val.
Notation state := (@state val).

Definition no_shape_error (s : state) : Prop := st s <> Err 4 /\ st s <> Err 5.

Lemma nse_fail s c : st s = Running -> c <> 4 -> c <> 5 -> no_shape_error (fail s c).
Proof. intros _ H4 H5. split; cbn; intros [= E]; congruence. Qed.
Lemma nse_keep (s s' : state) : st s' = st s -> no_shape_error s -> no_shape_error s'.
Proof. unfold no_shape_error. intros ->. auto. Qed.

Lemma nse_wr s o v : no_shape_error s -> no_shape_error (wr s o v).
Proof.
  intros H. unfold wr. destruct (oreg s o), v; try (split; cbn; discriminate).
  apply (nse_keep s); [reflexivity|exact H].
Qed.
Lemma nse_effect s k a : no_shape_error s -> no_shape_error (effect s k a).
Proof. intros H. unfold effect. destruct a; [apply (nse_keep s); [reflexivity|exact H]|split; cbn; discriminate]. Qed.
Lemma nse_jump_abs s v l : no_shape_error s -> no_shape_error (jump_abs A s v l).
Proof.
  intros H. unfold jump_abs. destruct (v_to_Z A v); [|split; cbn; discriminate].
  destruct (0 <=? z)%Z; [|split; cbn; discriminate]. destruct l; apply (nse_keep s); try reflexivity; exact H.
Qed.
Lemma nse_jump_rel s v l : no_shape_error s -> no_shape_error (jump_rel A s v l).
Proof.
  intros H. unfold jump_rel. destruct (v_to_Z A v); [|split; cbn; discriminate].
  destruct (0 <=? _)%Z; [|split; cbn; discriminate]. destruct l; apply (nse_keep s); try reflexivity; exact H.
Qed.
Lemma nse_branch s c t r a : no_shape_error s -> no_shape_error (branch A s c t r a).
Proof.
  intros H. unfold branch. destruct t; [|split; cbn; discriminate].
  destruct c; [|apply (nse_keep s); [reflexivity|exact H]].
  destruct r; [apply nse_jump_rel|apply nse_jump_abs]; exact H.
Qed.

Ltac leaf H :=
  first [ apply nse_wr; first [exact H | apply (nse_keep _ _ eq_refl H) | (apply (nse_keep _); [reflexivity|exact H])]
        | apply nse_effect; exact H
        | apply nse_branch; exact H
        | (split; cbn; discriminate)
        | (apply (nse_keep _); [reflexivity|exact H]) ].

Ltac brk :=
  repeat match goal with
  | |- no_shape_error (match ?x with _ => _ end) => destruct x
  | |- no_shape_error (if ?x then _ else _) => destruct x
  end.

Theorem exec_no_shape_error O p s op args :
  no_shape_error s -> wf_instr op args = true -> no_shape_error (exec A O p s op args).
Proof.
  intros H W. unfold wf_instr in W.
  destruct op; cbn [arity] in W; try discriminate W;
    destruct args as [|a1 [|a2 [|a3 [|a4 [|a5 [|a6 [|a7 r]]]]]]]; try discriminate W; cbn [exec].
  all: try (destruct a1; try discriminate W).
  all: brk; try leaf H.
  all: try (apply nse_wr; apply (nse_keep s); [reflexivity|exact H]).
  all: try (apply (nse_keep s); [reflexivity|exact H]).
  all: try (cbn in W; rewrite ?andb_false_r in W; discriminate W).
Qed.

Theorem step_no_shape_error O p s :
  wf_program p = true -> no_shape_error s -> no_shape_error (step A O p s).
Proof.
  intros W H. unfold step. destruct (st s) eqn:E; try exact H.
  destruct (nth_error p (pc s)) as [[id|op args]|] eqn:N.
  - apply (nse_keep s); [reflexivity|exact H].
  - apply exec_no_shape_error; [exact H|].
    unfold wf_program in W. rewrite forallb_forall in W. apply nth_error_In in N. exact (W _ N).
  - split; cbn; discriminate.
Qed.

Theorem run_no_shape_error O p fuel : wf_program p = true ->
  forall s, no_shape_error s -> no_shape_error (run A O p fuel s).
Proof.
  intros W. induction fuel as [|k IH]; intros s H; cbn [run]; [exact H|].
  destruct (st s); try exact H. apply IH. apply step_no_shape_error; assumption.
Qed.
End P.
