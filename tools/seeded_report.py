#!/venv/bin/python
"""Print a markdown table of the seeded changes and which checks report them (from seeded/*/meta.json
and seeded/*/result.json)."""
import json
from pathlib import Path

V = Path(__file__).resolve().parents[1]
rows = []
for d in sorted((V / "seeded").iterdir()):
    if not (d / "meta.json").exists():
        continue
    m = json.loads((d / "meta.json").read_text())
    r = json.loads((d / "result.json").read_text()) if (d / "result.json").exists() else {}
    caught = [c for c, v in r.items() if v.get("caught")]
    missed = [c for c, v in r.items() if not v.get("caught")]
    first = ""
    for c in caught:
        vs = r[c].get("violations") or []
        if vs:
            first = (vs[0].get("what") or "")[:110]
            if vs[0].get("no_failing_input"):
                first += " (no-failing-input-found)"
            break
    status = "obsolete" if m.get("obsolete") else ("caught by " + ", ".join(caught) if caught else "MISSED by " + ", ".join(missed))
    rows.append((d.name, (m.get("title") or "")[:90], status, first))
print("| change | what it does | result | first report |")
print("|---|---|---|---|")
for r in rows:
    print("| " + " | ".join(x.replace("|", "/") for x in r) + " |")
