#!/venv/bin/python
"""tools/confirm_seed.py <Cxx> <k> — confirm a sub-agent's change in its scratch worktree /tmp/wt_<Cxx>
(patch applies to the clean tree, existing suite passes with it, demo exits 1 with it and 0 without),
then store it as /verif/seeded/<Cxx>-m<k>/ (patch.diff, demo.py, meta.json incl. the confirmation)."""
import json
import os
import shutil
import subprocess
import sys
from pathlib import Path

V = Path(__file__).resolve().parents[1]


def sh(cmd, **kw):
    return subprocess.run(cmd, capture_output=True, text=True, **kw)


def main():
    pid, k = sys.argv[1], sys.argv[2]
    rnd = sys.argv[3] if len(sys.argv) > 3 else ""          # "2": second round (/tmp/wt2_<id>, /tmp/out2_<id>, stored as <id>-r2)
    wt = Path(f"/tmp/wt{rnd}_{pid}")
    src = Path(f"/tmp/out{rnd}_{pid}/m{k}")
    env = dict(os.environ, PYTHONPATH=str(wt / "src"), PYTHONHASHSEED="0")
    env.pop("PYTRAPIC_VERIF", None)
    ver = wt / "src/stationeers_pytrapic/_version.py"
    if not ver.exists():
        shutil.copy("/repo/src/stationeers_pytrapic/_version.py", ver)
    sh(["git", "-C", str(wt), "checkout", "--", "."])
    conf = {}
    r = sh(["/venv/bin/python", str(src / "demo.py")], env=env, cwd=str(src))
    conf["demo_unchanged_exit"] = r.returncode
    a = sh(["git", "-C", str(wt), "apply", str(src / "patch.diff")])
    conf["applies"] = a.returncode == 0
    if a.returncode == 0:
        t = sh(["/venv/bin/python", "-m", "pytest", "-q", "-p", "no:cacheprovider", "--timeout=900"], env=env, cwd=str(wt))
        tail = [l for l in t.stdout.splitlines() if l.strip()][-1:] if t.stdout else []
        if t.returncode != 0:      # constexpr tests are timing sensitive: one more try
            t = sh(["/venv/bin/python", "-m", "pytest", "-q", "-p", "no:cacheprovider", "--timeout=900"], env=env, cwd=str(wt))
            tail = [l for l in t.stdout.splitlines() if l.strip()][-1:]
        conf["tests_rc"] = t.returncode
        conf["tests_tail"] = tail
        r = sh(["/venv/bin/python", str(src / "demo.py")], env=env, cwd=str(src))
        conf["demo_changed_exit"] = r.returncode
        conf["demo_changed_output"] = (r.stdout + r.stderr)[-1500:]
    sh(["git", "-C", str(wt), "checkout", "--", "."])
    ok = conf.get("applies") and conf.get("tests_rc") == 0 and conf.get("demo_changed_exit") == 1 and conf["demo_unchanged_exit"] == 0
    conf["confirmed"] = bool(ok)
    print(json.dumps(conf, indent=1)[:2500])
    if ok:
        dst = V / "seeded" / (f"{pid}-r{rnd}" if rnd else f"{pid}-m{k}")
        dst.mkdir(parents=True, exist_ok=True)
        shutil.copy(src / "patch.diff", dst / "patch.diff")
        shutil.copy(src / "demo.py", dst / "demo.py")
        meta = json.loads((src / "meta.json").read_text())
        meta["property"] = pid
        meta["confirmation"] = {k2: v for k2, v in conf.items() if k2 != "demo_changed_output"}
        (dst / "meta.json").write_text(json.dumps(meta, indent=1) + "\n")
        print("stored", dst)
    return 0 if ok else 1


if __name__ == "__main__":
    sys.exit(main())
