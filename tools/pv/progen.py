"""Grammar-directed generator of source-dialect programs.  Every program comes with its Python
text (what the compiler sees) and its abstract syntax for Src.Sem (what the reference semantics
runs); both are printed from the same tree.  All choices come from the given PRNG."""
from __future__ import annotations

import zlib
from functools import lru_cache

from . import core
from .ic10 import coq_float, signed_crc

BINOPS = {"+": "Badd", "-": "Bsub", "*": "Bmul", "/": "Bdiv", "%": "Bmod", "and": "Band", "or": "Bor",
          "&": "Band", "^": "Bxor", "<<": "Bsll", ">>": "Bsrl", "**": "Bpow"}
CMPS = {"==": "Ceq", "!=": "Cne", "<": "Clt", "<=": "Cle", ">": "Cgt", ">=": "Cge"}
INTR1 = {"abs": "Uabs", "floor": "Ufloor", "ceil": "Uceil", "round": "Uround", "trunc": "Utrunc",
         "sqrt": "Usqrt"}
MATH1 = {"sin": "Usin", "cos": "Ucos", "exp": "Uexp", "log": "Ulog", "tan": "Utan", "atan": "Uatan"}
INTR2 = {"max": "Bmax", "min": "Bmin"}
LOGIC = ["Setting", "On", "Temperature", "Pressure", "Open", "Lock", "Mode", "Activate", "Ratio", "Power",
         "Horizontal", "Vertical", "Charge"]
BATCH = ["Average", "Sum", "Minimum", "Maximum"]
PLURALS = [("WallLights", "StructureWallLight"), ("ActiveVents", "StructureActiveVent"),
           ("SolarPanels", "StructureSolarPanel"), ("Autolathes", "StructureAutolathe")]
SLOTTED = [("AdvancedFurnace", 0, "Occupied"), ("AdvancedFurnace", 1, "Quantity"), ("Autolathe", 0, "Occupied")]
NAMES = ["Some Name", "n", "Main Light", "x1"]


@lru_cache(maxsize=1)
def enums():
    from pyt2coq import tables
    return {n: dict(m) for n, m in tables.read_enums(core.PKG)}


@lru_cache(maxsize=None)
def plural_logic(pl):
    """logic types valid on a plural structure (by reflection on the generated tables)"""
    core.setup_impl_import()
    import stationeers_pytrapic.structures_generated as SG
    import stationeers_pytrapic.types as T
    obj = getattr(SG, pl)
    out = []
    for n in sorted(enums()["LogicType"]):
        if n in ("Maximum", "Minimum", "Average", "Sum"):
            continue
        try:
            v = getattr(obj, n)
        except Exception:
            continue
        if isinstance(v, T._DevicesLogicType):
            out.append(n)
    pref = [n for n in out if n in ("On", "Power", "Lock", "Open", "Setting", "Mode", "Activate", "Charge", "Ratio", "Vertical", "Horizontal", "Temperature", "Pressure")]
    return pref or out[:4]


def LT(n): return enums()["LogicType"][n]
def LST(n): return enums()["LogicSlotType"][n]
def BM(n): return enums()["LogicBatchMethod"][n]


class Fn:
    def __init__(self, name, nparams):
        self.name, self.nparams = name, nparams
        self.locals = [f"p{i}" for i in range(nparams)]
        self.globals_written = []
        self.body = []
        self.returns_value = False
        self.calls = 0
        self.has_effects = False
        self.reads_globals = False


class Prog:
    def __init__(self):
        self.globals = []
        self.funcs = []
        self.main = []
        self.devvars = []   # (name, pin)
        self.features = set()

    # ---------------------------------------------------------------- (de)serialisation
    def dump(self) -> str:
        d = {"devvars": self.devvars, "globals": self.globals, "main": self.main,
             "features": sorted(self.features),
             "funcs": [{"name": f.name, "nparams": f.nparams, "locals": f.locals,
                        "globals_written": f.globals_written, "body": f.body,
                        "returns_value": f.returns_value} for f in self.funcs]}
        return repr(d)

    @staticmethod
    def load(text: str) -> "Prog":
        import ast as _ast
        d = _ast.literal_eval(text)
        P = Prog()
        P.devvars = [tuple(x) for x in d["devvars"]]
        P.globals = list(d["globals"])
        P.main = d["main"]
        P.features = set(d.get("features", []))
        for fd in d["funcs"]:
            f = Fn(fd["name"], fd["nparams"])
            f.locals = list(fd["locals"])
            f.globals_written = list(fd["globals_written"])
            f.body = fd["body"]
            f.returns_value = fd.get("returns_value", False)
            P.funcs.append(f)
        return P

    # ---------------------------------------------------------------- python text
    def text(self) -> str:
        out = []
        for name, pin in self.devvars:
            out.append(f"{name} = Device(d{pin})")
        for f in self.funcs:
            out.append(f"def {f.name}({', '.join(f.locals[:f.nparams])}):")
            if f.globals_written:
                out.append("    global " + ", ".join(f.globals_written))
            out += self._py_block(f.body, 1) or ["    pass"]
        out += self._py_block(self.main, 0)
        return "\n".join(out) + "\n"

    def _py_block(self, ss, ind):
        out = []
        pad = "    " * ind
        for s in ss:
            k = s[0]
            if k == "assign":
                out.append(f"{pad}{s[1]} = {py(s[2])}")
            elif k == "aug":
                out.append(f"{pad}{s[1]} {s[2]}= {py(s[3])}")
            elif k == "effect":
                out.append(pad + s[2].format(*[py(a) for a in s[3]]))
            elif k == "memput":
                out.append(f"{pad}stack[{py(s[1])}] = {py(s[2])}")
            elif k == "push":
                out.append(f"{pad}push({py(s[1])})")
            elif k == "expr":
                out.append(pad + py(s[1]))
            elif k == "if":
                for i, (c, body) in enumerate(s[1]):
                    out.append(f"{pad}{'if' if i == 0 else 'elif'} {py(c)}:")
                    out += self._py_block(body, ind + 1) or [pad + "    pass"]
                if s[2] is not None:
                    out.append(f"{pad}else:")
                    out += self._py_block(s[2], ind + 1) or [pad + "    pass"]
            elif k == "while":
                out.append(f"{pad}while {py(s[1])}:")
                out += self._py_block(s[2], ind + 1) or [pad + "    pass"]
            elif k == "forrange":
                args = [py(a) for a in s[2]]
                out.append(f"{pad}for {s[1]} in range({', '.join(args)}):")
                out += self._py_block(s[3], ind + 1) or [pad + "    pass"]
            elif k == "forlist":
                out.append(f"{pad}for {s[1]} in [{', '.join(pynum(v) for v in s[2])}]:")
                out += self._py_block(s[3], ind + 1) or [pad + "    pass"]
            elif k in ("break", "continue", "pass"):
                out.append(pad + k)
            elif k == "return":
                out.append(pad + ("return" if s[1] is None else f"return {py(s[1])}"))
            else:
                raise ValueError(k)
        return out

    # ---------------------------------------------------------------- Gallina term
    def coq(self) -> str:
        gidx = {g: i for i, g in enumerate(self.globals)}
        fidx = {f.name: i for i, f in enumerate(self.funcs)}
        fs = []
        for f in self.funcs:
            lidx = {l: i for i, l in enumerate(f.locals)}
            env = (gidx, lidx, fidx, set(f.globals_written))
            fs.append(f"{{| f_nparams := {f.nparams}; f_nlocals := {len(f.locals)}; f_body := {cq_block(f.body, env)} |}}")
        env = (gidx, None, fidx, set())
        return (f"{{| p_nglobals := {len(self.globals)}; p_funcs := [{'; '.join(fs)}]; "
                f"p_main := {cq_block(self.main, env)} |}}")


def pynum(v):
    if isinstance(v, float):
        return repr(v)
    return str(v)


def py(e) -> str:
    k = e[0]
    if k == "num":
        return pynum(e[1]) if e[1] >= 0 else f"({pynum(e[1])})"
    if k == "var":
        return e[1]
    if k == "hash":
        return 'HASH("' + e[1] + '")'
    if k == "bin":
        return f"({py(e[2])} {e[1]} {py(e[3])})"
    if k == "neg":
        return f"(-{py(e[1])})"
    if k == "not":
        return f"(not {py(e[1])})"
    if k == "cmp":
        return f"({py(e[2])} {e[1]} {py(e[3])})"
    if k == "sel":
        return f"({py(e[2])} if {py(e[1])} else {py(e[3])})"
    if k == "devtest":                       # ("devtest", "sdse" | "sdns", pin)
        return f"{e[1]}(d{e[2]})"
    if k == "read":
        return e[2].format(*[py(a) for a in e[3]])
    if k == "memget":
        return f"stack[{py(e[1])}]"
    if k == "pop":
        return "pop()"
    if k == "peek":
        return "peek()"
    if k == "call":
        return f"{e[1]}({', '.join(py(a) for a in e[2])})"
    if k == "index":
        return f"[{', '.join(pynum(v) for v in e[1])}][{py(e[2])}]"
    if k == "intr1":
        return f"{e[1]}({py(e[2])})"
    if k == "intr2":
        return f"{e[1]}({py(e[2])}, {py(e[3])})"
    if k == "select":
        return f"select({py(e[1])}, {py(e[2])}, {py(e[3])})"
    raise ValueError(k)


def cq_num(v) -> str:
    return f"(ENum {coq_float(float(v))})"


def cq_var(name, env) -> str:
    gidx, lidx, fidx, gw = env
    if lidx is not None and name in lidx and name not in gw:
        return f"(VL {lidx[name]})"
    return f"(VG {gidx[name]})"


def cq(e, env) -> str:
    k = e[0]
    if k == "num":
        return cq_num(e[1])
    if k == "var":
        return f"(EVar {cq_var(e[1], env)})"
    if k == "hash":
        from .ic10 import signed_crc
        return cq_num(signed_crc(e[1]))
    if k == "bin":
        return f"(EBin {BINOPS[e[1]]} {cq(e[2], env)} {cq(e[3], env)})"
    if k == "neg":
        return f"(EBin Bsub {cq_num(0)} {cq(e[1], env)})"
    if k == "not":
        return f"(ENot {cq(e[1], env)})"
    if k == "cmp":
        return f"(ECmp {CMPS[e[1]]} {cq(e[2], env)} {cq(e[3], env)})"
    if k == "sel":
        return f"(ESel {cq(e[1], env)} {cq(e[2], env)} {cq(e[3], env)})"
    if k == "devtest":
        return f"({'ESdse' if e[1] == 'sdse' else 'ESdns'} [{cq_num(0)}; {cq_num(e[2])}])"
    if k == "read":
        args = "[" + "; ".join(cq(a, env) for a in e[3]) + "]"
        return f"(ERead {e[1]} {args})"
    if k == "memget":
        return f"(EMemGet {cq(e[1], env)})"
    if k == "pop":
        return "EPop"
    if k == "peek":
        return "EPeek"
    if k == "call":
        return f"(ECall {env[2][e[1]]} [{'; '.join(cq(a, env) for a in e[2])}])"
    if k == "index":
        return f"(EIndex [{'; '.join(coq_float(float(v)) for v in e[1])}] {cq(e[2], env)})"
    if k == "intr1":
        return f"(EUn {dict(INTR1, **MATH1)[e[1]]} {cq(e[2], env)})"
    if k == "intr2":
        return f"(EBin {INTR2[e[1]]} {cq(e[2], env)} {cq(e[3], env)})"
    if k == "select":
        return f"(ESel {cq(e[1], env)} {cq(e[2], env)} {cq(e[3], env)})"
    raise ValueError(k)


def cq_block(ss, env) -> str:
    out = []
    for s in ss:
        k = s[0]
        if k == "assign":
            out.append(f"SAssign {cq_var(s[1], env)} {cq(s[2], env)}")
        elif k == "aug":
            out.append(f"SAssign {cq_var(s[1], env)} (EBin {BINOPS[s[2]]} (EVar {cq_var(s[1], env)}) {cq(s[3], env)})")
        elif k == "effect":
            out.append(f"SEffect {s[1]} [{'; '.join(cq(a, env) for a in s[3])}]")
        elif k == "memput":
            out.append(f"SMemPut {cq(s[1], env)} {cq(s[2], env)}")
        elif k == "push":
            out.append(f"SPush {cq(s[1], env)}")
        elif k == "expr":
            out.append(f"SExpr {cq(s[1], env)}")
        elif k == "if":
            def chain(arms, els):
                (c, body), rest = arms[0], arms[1:]
                e = cq_block(els, env) if (not rest and els is not None) else ("[]" if not rest else "[" + chain(rest, els) + "]")
                return f"SIf {cq(c, env)} {cq_block(body, env)} {e}"
            out.append(chain(s[1], s[2]))
        elif k == "while":
            out.append(f"SWhile {cq(s[1], env)} {cq_block(s[2], env)}")
        elif k == "forrange":
            a = s[2]
            start, stop, step = (("num", 0), a[0], ("num", 1)) if len(a) == 1 else \
                                ((a[0], a[1], ("num", 1)) if len(a) == 2 else (a[0], a[1], a[2]))
            down = "true" if (step[0] == "num" and step[1] < 0) else "false"
            out.append(f"SForRange {cq_var(s[1], env)} {cq(start, env)} {cq(stop, env)} {cq(step, env)} {down} {cq_block(s[3], env)}")
        elif k == "forlist":
            out.append(f"SForList {cq_var(s[1], env)} [{'; '.join(coq_float(float(v)) for v in s[2])}] {cq_block(s[3], env)}")
        elif k == "break":
            out.append("SBreak")
        elif k == "continue":
            out.append("SContinue")
        elif k == "pass":
            out.append("SPass")
        elif k == "return":
            out.append("SReturn None" if s[1] is None else f"SReturn (Some {cq(s[1], env)})")
        else:
            raise ValueError(k)
    return "[" + "; ".join(out) + "]"


# ----------------------------------------------------------------------------------------
class Profile:
    """Which constructs the stream may use.  The clean stream leaves out the constructs of
    open known findings (DESIGN section 9); the findings stream turns them on one at a time."""
    def __init__(self, **kw):
        self.functions = True
        self.loops = True
        self.user_stack = True
        self.const_lists = True
        self.long_lists = False         # >= 6 entries -> jump table (finding #4)
        self.bool_const_fold = False    # and/or/not on constants (findings #9-#11)
        self.transcendental = True
        self.big_numbers = True
        self.for_list = True
        self.ifexp_call_in_else = False
        self.global_writes = True
        self.max_stmts = 5
        self.fn_names = None            # pool of function names (identifier adversary of C05)
        self.name_strings = None        # device-name strings to use in named batch accesses
        self.hash_names = None          # strings compared against as HASH("...") literals in conditions
        self.max_depth = 2
        self.__dict__.update(kw)


class Gen:
    def __init__(self, rng, profile: Profile):
        self.r = rng
        self.pf = profile
        self.P = Prog()
        self.loopvars = 0

    # ------------------------------------------------------------ numbers
    def num(self):
        r = self.r.random()
        if r < 0.55:
            return ("num", self.r.randint(0, 9))
        if r < 0.7:
            return ("num", self.r.choice([0.5, 0.25, 1.5, 2.75, 0.1, 0.001, 3.14159, 100.5, 1e-05]))
        if r < 0.8:
            return ("num", -self.r.randint(1, 9))
        if r < 0.9 and self.pf.big_numbers:
            return ("num", self.r.choice([10000, 10001, 65536, 123456789, 2**31, 2**40 + 1, 2**53 - 1, 99999.5, -20000]))
        return ("num", self.r.randint(10, 300))

    # ------------------------------------------------------------ reads
    def read(self, sc, depth):
        r = self.r
        k = r.randint(1, 10)
        if k == 1 or k == 2:
            pin, lt = r.randint(0, 5), r.choice(LOGIC)
            return ("read", "RKl", f"d{pin}.{lt}", [("num", 0), ("num", pin), ("num", LT(lt))])
        if k == 3:
            lt = r.choice(LOGIC)
            return ("read", "RKl", f"db.{lt}", [("num", 0), ("num", 6), ("num", LT(lt))])
        if k == 4 and self.P.devvars:
            name, pin = r.choice(self.P.devvars)
            lt = r.choice(LOGIC)
            return ("read", "RKl", f"{name}.{lt}", [("num", 0), ("num", pin), ("num", LT(lt))])
        if k == 5:
            (pl, prefab), bm = r.choice(PLURALS), r.choice(BATCH)
            lt = r.choice(plural_logic(pl))
            form = f"{pl}.{lt}.{bm}" if r.random() < 0.7 else f"{pl}.{bm}.{lt}"
            if bm in ("Maximum", "Minimum") and form.startswith(f"{pl}.{bm}") and False:
                pass
            return ("read", "RKlb", form, [("num", signed_crc(prefab)), ("num", LT(lt)), ("num", BM(bm))])
        if k == 6:
            (pl, prefab), bm, nm = r.choice(PLURALS), r.choice(BATCH), r.choice(self.pf.name_strings or NAMES)
            lt = r.choice(plural_logic(pl))
            return ("read", "RKlbn", f'{pl}["{nm}"].{lt}.{bm}',
                    [("num", signed_crc(prefab)), ("num", signed_crc(nm)), ("num", LT(lt)), ("num", BM(bm))])
        if k == 7:
            cls, idx, slt = r.choice(SLOTTED)
            pin = r.randint(0, 5)
            return ("read", "RKls", f"{cls}(d{pin}).slot{idx}.{slt}",
                    [("num", 0), ("num", pin), ("num", idx), ("num", LST(slt))])
        if k == 8:
            pin = r.randint(0, 5)
            a = self.simple(sc)
            return ("read", "RKget", f"Stack(d{pin})[{{2}}]", [("num", 0), ("num", pin), a])
        if k == 9:
            a = self.simple(sc) if r.random() < 0.5 else ("num", r.choice([1234, 7, 99999]))
            lt = r.choice(LOGIC)
            return ("read", "RKl", f"Device(ref_id={{1}}).{lt}", [("num", 1), a, ("num", LT(lt))])
        if k == 10:
            return ("read", "RKrand", "rand()", [])
        pin, lt = r.randint(0, 5), r.choice(LOGIC)
        return ("read", "RKl", f"d{pin}.{lt}", [("num", 0), ("num", pin), ("num", LT(lt))])

    def simple(self, sc):
        """a variable or small constant (no side effects, no temporaries)"""
        vs = sc["readable"]
        if vs and self.r.random() < 0.6:
            return ("var", self.r.choice(vs))
        return ("num", self.r.randint(0, 9))

    # ------------------------------------------------------------ expressions
    def expr(self, sc, depth=None, allow_call=True):
        r = self.r
        depth = self.pf.max_depth if depth is None else depth
        if depth <= 0 or r.random() < 0.25:
            c = r.random()
            if c < 0.4 and sc["readable"]:
                return ("var", r.choice(sc["readable"]))
            if c < 0.7:
                return self.num()
            return self.read(sc, depth)
        c = r.randint(1, 20)
        if c <= 7:
            op = r.choice(["+", "-", "*", "+", "-", "*", "/", "%"])
            a = self.expr(sc, depth - 1, allow_call)
            if op == "/":
                b = ("num", r.choice([2, 4, 5, 0.5, 3, 10]))
            elif op == "%":
                b = ("num", r.choice([2, 3, 5, 7, 10]))
            else:
                b = self.expr(sc, depth - 1, allow_call)
            if not self.nonconst(a) and not self.nonconst(b) and op in ("/", "%"):
                a = self.read(sc, depth)
            return ("bin", op, a, b)
        if c == 8:
            op = r.choice(["and", "or"])
            a, b = self.expr(sc, depth - 1, allow_call), self.expr(sc, depth - 1, allow_call)
            if not self.pf.bool_const_fold and not (self.nonconst(a) or self.nonconst(b)):
                a = self.read(sc, depth)
            return ("bin", op, a, b)
        if c == 9:
            op = r.choice(["&", "^", "<<", ">>"])
            a = ("intr1", "abs", ("intr1", "floor", self.expr(sc, depth - 1, allow_call)))
            b = ("num", r.randint(0, 6))
            self.P.features.add("bitwise")
            return ("bin", op, a, b)
        if c == 10:
            a = self.expr(sc, depth - 1, allow_call)
            if not self.nonconst(a):
                return ("neg", self.read(sc, depth))
            return ("neg", a)
        if c == 11:
            a = self.expr(sc, depth - 1, allow_call)
            if not self.pf.bool_const_fold and not self.nonconst(a):
                a = self.read(sc, depth)
            return ("not", a)
        if c in (12, 13):
            return ("cmp", r.choice(list(CMPS)), self.expr(sc, depth - 1, allow_call), self.expr(sc, depth - 1, allow_call))
        if c == 14:
            self.P.features.add("ifexp")
            els = self.expr(sc, depth - 1, allow_call and self.pf.ifexp_call_in_else)
            return ("sel", self.cond(sc, depth - 1), self.expr(sc, depth - 1, allow_call), els)
        if c == 15:
            f = r.choice(list(INTR1))
            if f == "sqrt":
                # sqrt of a negative number is NaN; comparisons with NaN are the open finding C01-nan-comparison,
                # which has its own witness: the exploration stays off it
                return ("intr1", f, ("intr1", "abs", self.expr(sc, depth - 1, allow_call)))
            return ("intr1", f, self.expr(sc, depth - 1, allow_call))
        if c == 16:
            f = r.choice(list(INTR2))
            return ("intr2", f, self.expr(sc, depth - 1, allow_call), self.expr(sc, depth - 1, allow_call))
        if c == 17 and self.pf.transcendental:
            # uninterpreted functions: only on operands the folder cannot evaluate
            self.P.features.add("transcendental")
            return ("intr1", r.choice(list(MATH1)), ("bin", "+", self.read(sc, depth), self.expr(sc, depth - 1, allow_call)))
        if c == 18 and self.pf.const_lists:
            n = r.randint(2, 5) if not self.pf.long_lists else r.randint(6, 9)
            vals = [self.num()[1] for _ in range(n)]
            idx = ("bin", "%", ("intr1", "abs", ("intr1", "floor", self.expr(sc, depth - 1, allow_call))), ("num", n))
            self.P.features.add("const_index" if n < 6 else "jump_table")
            return ("index", vals, idx)
        if c == 19 and allow_call and sc["callable"]:
            f = r.choice(sc["callable"])
            if f.returns_value:
                f.calls += 1
                self.P.features.add("call_in_expr")
                return ("call", f.name, [self.expr(sc, depth - 1, False) for _ in range(f.nparams)])
        if c == 20 and self.pf.user_stack:
            self.P.features.add("stack_index")
            # addresses 100..139: away from both calling conventions (sp-relative pushes, slots 511-..)
            return ("memget", ("num", r.randint(100, 139)) if r.random() < 0.6 else
                    ("bin", "+", ("bin", "%", ("intr1", "abs", ("intr1", "floor", self.simple(sc))), ("num", 40)), ("num", 100)))
        return self.read(sc, depth)

    def has_call(self, e):
        if not isinstance(e, tuple):
            return False
        if e and e[0] == "call":
            return True
        for x in e[1:]:
            if isinstance(x, tuple) and self.has_call(x):
                return True
            if isinstance(x, list) and any(self.has_call(y) for y in x):
                return True
        return False

    def nonconst(self, e):
        k = e[0]
        if k in ("num",):
            return False
        if k in ("var", "read", "memget", "pop", "peek", "call"):
            return True
        return any(self.nonconst(x) for x in e[1:] if isinstance(x, tuple))

    def cond(self, sc, depth=2):
        r = self.r
        if self.pf.hash_names and r.random() < 0.35:
            return ("cmp", r.choice(["==", "!="]), self.read(sc, 1), ("hash", r.choice(self.pf.hash_names)))
        c = r.random()
        if c < 0.6:
            return ("cmp", r.choice(list(CMPS)), self.expr(sc, depth - 1), self.expr(sc, depth - 1))
        if c < 0.7 and sc["readable"]:
            return ("var", r.choice(sc["readable"]))
        if c < 0.8:
            return ("not", ("cmp", r.choice(list(CMPS)), self.expr(sc, depth - 1), self.expr(sc, depth - 1)))
        if c < 0.9:
            return ("bin", r.choice(["and", "or"]),
                    ("cmp", r.choice(list(CMPS)), self.expr(sc, depth - 1), self.expr(sc, depth - 1)),
                    ("cmp", r.choice(list(CMPS)), self.expr(sc, depth - 1), self.expr(sc, depth - 1)))
        pin, lt = r.randint(0, 5), r.choice(LOGIC)
        return ("read", "RKl", f"d{pin}.{lt}", [("num", 0), ("num", pin), ("num", LT(lt))])

    # ------------------------------------------------------------ statements
    def effect(self, sc):
        r = self.r
        k = r.randint(1, 9)
        e = self.expr(sc)
        if k <= 3:
            pin, lt = r.randint(0, 5), r.choice(LOGIC)
            return ("effect", "EKs", f"d{pin}.{lt} = {{3}}", [("num", 0), ("num", pin), ("num", LT(lt)), e])
        if k == 4:
            lt = r.choice(LOGIC)
            return ("effect", "EKs", f"db.{lt} = {{3}}", [("num", 0), ("num", 6), ("num", LT(lt)), e])
        if k == 5 and self.P.devvars:
            name, pin = r.choice(self.P.devvars)
            lt = r.choice(LOGIC)
            return ("effect", "EKs", f"{name}.{lt} = {{3}}", [("num", 0), ("num", pin), ("num", LT(lt)), e])
        if k == 6:
            (pl, prefab) = r.choice(PLURALS)
            lt = r.choice(plural_logic(pl))
            return ("effect", "EKsb", f"{pl}.{lt} = {{2}}", [("num", signed_crc(prefab)), ("num", LT(lt)), e])
        if k == 7:
            (pl, prefab), nm = r.choice(PLURALS), r.choice(self.pf.name_strings or NAMES)
            lt = r.choice(plural_logic(pl))
            return ("effect", "EKsbn", f'{pl}["{nm}"].{lt} = {{3}}',
                    [("num", signed_crc(prefab)), ("num", signed_crc(nm)), ("num", LT(lt)), e])
        if k == 8:
            pin = r.randint(0, 5)
            # Python evaluates the right-hand side before the subscript: keep the address free of
            # anything a call inside the value could change
            a = self.simple(sc) if not self.has_call(e) else ("num", r.randint(0, 9))
            return ("effect", "EKput", f"Stack(d{pin})[{{2}}] = {{3}}", [("num", 0), ("num", pin), a, e])
        pin, lt = r.randint(0, 5), r.choice(LOGIC)
        return ("effect", "EKs", f"d{pin}.{lt} = {{3}}", [("num", 0), ("num", pin), ("num", LT(lt)), e])

    def new_var(self, sc, prefix):
        if sc["fn"] is None:
            name = f"{prefix}{len(self.P.globals)}"
            self.P.globals.append(name)
        else:
            name = f"{prefix}{len(sc['fn'].locals)}"
            sc["fn"].locals.append(name)
        return name

    def block(self, sc, n, depth, in_loop=False, in_listloop=False):
        out = []
        for _ in range(n):
            out += self.stmt(sc, depth, in_loop, in_listloop)
        return out

    def stmt(self, sc, depth, in_loop, in_listloop):
        r = self.r
        c = r.randint(1, 30)
        fn = sc["fn"]
        if c <= 7:
            # assignment to a new or an existing variable
            writable = [v for v in sc["writable"] if v not in sc["frozen"]]
            e = self.expr(sc)
            if writable and r.random() < 0.5:
                v = r.choice(writable)
            else:
                if fn is None and len(self.P.globals) >= 3:
                    if not writable:
                        return [self.effect(sc)]
                    v = r.choice(writable)
                else:
                    v = self.new_var(sc, "g" if fn is None else "l")
            st = [("assign", v, e)]
            if v not in sc["readable"]:
                sc["readable"].append(v)
                sc["writable"].append(v)
            return st
        if c <= 9:
            writable = [v for v in sc["writable"] if v not in sc["frozen"] and v in sc["readable"]]
            if writable:
                return [("aug", r.choice(writable), r.choice(["+", "-", "*"]), self.expr(sc, 2))]
            return [self.effect(sc)]
        if c <= 17:
            return [self.effect(sc)]
        if c == 18:
            return [("effect", "EKyield", "yield_()", [])]
        if c == 19:
            e = self.simple(sc)
            return [("effect", "EKsleep", "sleep({0})", [e])]
        if c <= 22 and depth > 0:
            self.P.features.add("if")
            arms = [(self.cond(sc), self.branch_block(sc, depth, in_loop, in_listloop))]
            while r.random() < 0.3 and len(arms) < 3:
                arms.append((self.cond(sc), self.branch_block(sc, depth, in_loop, in_listloop)))
                self.P.features.add("elif")
            els = self.branch_block(sc, depth, in_loop, in_listloop) if r.random() < 0.5 else None
            return [("if", arms, els)]
        if c == 23 and depth > 0 and self.pf.loops:
            # counted while loop:  v = a ; while v < b: body ; v += 1
            self.P.features.add("while")
            v = self.new_var(sc, "w" if fn is None else "lw")
            lim = r.randint(1, 4)
            sc["readable"].append(v)
            sc["frozen"].add(v)
            body = self.branch_block(sc, depth, True, False, nonempty=True)
            # `continue` would skip the increment: do it first
            body = [("aug", v, "+", ("num", 1))] + body
            sc["frozen"].discard(v)
            return [("assign", v, ("num", 0)), ("while", ("cmp", "<", ("var", v), ("num", lim)), body)]
        if c == 24 and depth > 0 and self.pf.loops:
            self.P.features.add("for_range")
            v = self.new_var(sc, "i" if fn is None else "li")
            k = r.randint(1, 3)
            if k == 1:
                args = [("num", r.randint(0, 4))]
            elif k == 2:
                args = [("num", r.randint(0, 2)), ("num", r.randint(1, 5))]
            else:
                step = r.choice([1, 2, -1, -2])
                a, b = r.randint(0, 3), r.randint(3, 6)
                args = [("num", a), ("num", b), ("num", step)] if step > 0 else [("num", b), ("num", a), ("num", step)]
            if r.random() < 0.3:
                # a run-time bound held in a variable that the body does not modify
                bv = self.new_var(sc, "n" if fn is None else "ln")
                pre = [("assign", bv, ("intr2", "min", ("intr1", "abs", ("intr1", "floor", self.read(sc, 1))), ("num", 4)))]
                sc["frozen"].add(bv)
                sc["readable"].append(bv)
                args = [("var", bv)] if len(args) == 1 else [args[0], ("var", bv)] + args[2:3]
                if len(args) == 3 and args[2][1] < 0:
                    args = [("var", bv), ("num", 0), args[2]]
            else:
                pre = []
            sc["readable"].append(v)
            sc["frozen"].add(v)
            body = self.branch_block(sc, depth, True, False, nonempty=True)
            sc["readable"].remove(v)          # the loop variable is not read after the loop (finding #2)
            return pre + [("forrange", v, args, body)]
        if c == 25 and depth > 0 and self.pf.loops and self.pf.for_list and not in_listloop and fn is None:
            self.P.features.add("for_list")
            v = self.new_var(sc, "e")
            vals = [self.num()[1] for _ in range(r.randint(1, 4))]
            sc["readable"].append(v)
            sc["frozen"].add(v)
            body = self.branch_block(sc, depth, False, True, nonempty=True)
            sc["readable"].remove(v)
            return [("forlist", v, vals, body)]
        if c == 26 and in_loop:
            return [("if", [(self.cond(sc), [(r.choice(["break", "continue"]),)])], None)]
        if c == 27 and sc["callable"]:
            f = r.choice(sc["callable"])
            f.calls += 1
            self.P.features.add("call_stmt")
            return [("expr", ("call", f.name, [self.expr(sc, 2, False) for _ in range(f.nparams)]))]
        if c == 28 and self.pf.user_stack:
            self.P.features.add("stack_index")
            return [("memput", ("num", r.randint(100, 139)), self.expr(sc, 2))]
        if c == 29 and self.pf.user_stack and not sc["callable"] and fn is None and not in_listloop:
            # balanced push/pop in code without calls
            self.P.features.add("push_pop")
            v = self.new_var(sc, "g")
            sc["readable"].append(v)
            sc["writable"].append(v)
            return [("push", self.expr(sc, 2)), ("assign", v, ("pop",))]
        return [self.effect(sc)]

    def branch_block(self, sc, depth, in_loop, in_listloop, nonempty=False):
        # variables first assigned inside a branch are not definitely assigned afterwards
        saved_r, saved_w = list(sc["readable"]), list(sc["writable"])
        b = self.block(sc, self.r.randint(1 if nonempty else 0, 3), depth - 1, in_loop, in_listloop)
        sc["readable"][:] = saved_r
        sc["writable"][:] = saved_w
        return b

    # ------------------------------------------------------------ functions / program
    def function(self, idx, callable_):
        r = self.r
        if self.pf.fn_names:
            used = {g.name for g in self.P.funcs}
            cands = [n for n in self.pf.fn_names if n not in used]
            nm = r.choice(cands) if cands else f"f{idx}"
        else:
            nm = f"f{idx}" if r.random() < 0.7 else f"fn_{idx}"
        f = Fn(nm, r.randint(0, 3))
        gread = list(self.P.globals_initial)
        sc = {"fn": f, "readable": list(f.locals) + gread, "writable": list(f.locals), "frozen": set(gread),
              "callable": callable_}
        if self.pf.global_writes and gread and r.random() < 0.3:
            g = r.choice(gread)
            f.globals_written.append(g)
            sc["writable"].append(g)
            sc["frozen"].discard(g)
            self.P.features.add("global_write")
        f.returns_value = r.random() < 0.6
        body = self.block(sc, r.randint(1, 3), 1)
        if f.returns_value:
            if r.random() < 0.4:
                # early return inside a branch
                self.P.features.add("early_return")
                body.append(("if", [(self.cond(sc), [("return", self.expr(sc, 2, False))])], None))
            body.append(("return", self.expr(sc, 2, False)))
        elif r.random() < 0.3:
            self.P.features.add("early_return")
            # the test may stand anywhere in the body: it reads only what is assigned on entry
            # (parameters and the globals initialised before the first call), never a local defined further down
            sc_entry = dict(sc, readable=list(f.locals[:f.nparams]) + gread, writable=[])
            body.insert(r.randint(0, len(body)), ("if", [(self.cond(sc_entry), [("return", None)])], None))
        f.body = body
        return f

    def program(self) -> Prog:
        r = self.r
        P = self.P
        for i in range(r.randint(0, 2)):
            P.devvars.append((f"dev{i}", r.randint(0, 5)))
        # globals initialised at the top of main so that functions may read them
        ninit = r.randint(0, 2)
        init = []
        sc0 = {"fn": None, "readable": [], "writable": [], "frozen": set(), "callable": []}
        for i in range(ninit):
            g = f"g{len(P.globals)}"
            P.globals.append(g)
            init.append(("assign", g, self.expr(sc0, 1)))
            sc0["readable"].append(g)
            sc0["writable"].append(g)
        P.globals_initial = list(P.globals)
        nf = r.choice([0, 0, 1, 1, 2, 3]) if self.pf.functions else 0
        for i in range(nf):
            P.funcs.append(self.function(i, list(P.funcs)))
        if nf:
            P.features.add("functions")
        written_by_funcs = {g for f in P.funcs for g in f.globals_written}
        sc = {"fn": None, "readable": list(sc0["readable"]), "writable": [g for g in sc0["writable"]],
              "frozen": set(), "callable": list(P.funcs)}
        body = self.block(sc, r.randint(1, self.pf.max_stmts), self.pf.max_depth)
        shape = r.random()
        if shape < 0.45:
            loop = self.block(sc, r.randint(1, 5), 2, in_loop=True)
            loop.append(("effect", "EKyield", "yield_()", []))
            body.append(("while", ("num", 1), loop))
            P.features.add("main_loop")
        P.main = init + body
        # make every function called at least once so that it is compiled
        for f in P.funcs:
            if f.calls == 0:
                f.calls += 1
                args = [self.num() for _ in range(f.nparams)]
                call = ("call", f.name, args)
                pos = len(init)
                if f.returns_value:
                    P.main.insert(pos, ("effect", "EKs", "db.Setting = {3}",
                                        [("num", 0), ("num", 6), ("num", LT("Setting")), call]))
                else:
                    P.main.insert(pos, ("expr", call))
        for f in P.funcs:
            P.features.add("inlined_fn" if f.calls == 1 else "called_fn")
        return P


def fix_while_true(P: Prog):
    return P


def generate(rng, n, profile: Profile | None = None):
    out = []
    for _ in range(n):
        g = Gen(rng, profile or Profile())
        p = g.program()
        out.append(p)
    return out
