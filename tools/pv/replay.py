"""./check replay <file> — show a recorded violation, recompile its program (when it carries one)
against the current /repo, and re-run the property's check with the recorded seed and tier (evidence
is not rewritten).  Exit 1 if the violation is reproduced, 0 otherwise."""
import importlib
import io
import json
import os
import re
import sys
from contextlib import redirect_stdout
from pathlib import Path

from . import core, impl

SOURCE_KEYS = ("source", "request_source", "program_text", "text", "src")
OPTION_KEYS = ("options", "request_options", "opts", "vector")


def main(path):
    if not path or not Path(path).exists():
        print("usage: ./check replay <replay file>")
        return 2
    rec = json.loads(Path(path).read_text())
    prop = rec.get("property", "?")
    print(f"property : {prop}")
    print(f"what     : {rec.get('what')}")
    print(f"seed/tier: {rec.get('seed')} / {rec.get('tier')}")
    if rec.get("broken_obligation") or rec.get("kind") == "obligation":
        print(f"obligation that no longer checks: {rec.get('broken_obligation') or rec.get('obligation')}")
        print((rec.get("detail") or "")[-1500:])
    src = next((rec[k] for k in SOURCE_KEYS if isinstance(rec.get(k), (str, dict))), None)
    opts = next((rec[k] for k in OPTION_KEYS if isinstance(rec.get(k), dict)), None)
    if src is not None:
        core.setup_impl_import()
        o = {k: v for k, v in (opts or {}).items() if k in impl.OPTION_NAMES}
        o.setdefault("append_version", False)
        r = impl.compile_one((src, impl.vec(**o)))
        print("---- program ----")
        print(src if isinstance(src, str) else json.dumps(src, indent=1))
        print("---- options ----")
        print({k: v for k, v in o.items()})
        print("---- current result ----")
        print(r.get("code") if "code" in r else json.dumps({k: v for k, v in r.items() if k not in ("_verif",)}, indent=1)[:3000])
    for k in ("expected", "direct", "model", "impl", "got", "verdict", "flags"):
        if k in rec:
            print(f"{k:9}: {str(rec[k])[:800]}")
    if not re.fullmatch(r"C\d\d", str(prop)):
        return 2
    print(f"---- re-running ./check {prop} --tier {rec.get('tier', 'quick')} --seed {rec.get('seed')} ----", flush=True)
    os.environ["PV_REPLAY"] = "1"
    mod = importlib.import_module(f"pv.props.{prop.lower()}")
    buf = io.StringIO()
    with redirect_stdout(buf):
        mod.main(rec.get("tier", "quick"), int(rec.get("seed", 20260923)))
    out = buf.getvalue()
    digest = Path(path).stem
    lines = [l for l in out.splitlines() if l.startswith(("VIOLATION", "KNOWN-FINDING"))]
    for l in lines:
        print(l)
    again = any(digest in l for l in lines if l.startswith("VIOLATION"))
    same_kind = any(l.startswith("VIOLATION") for l in lines)
    if again:
        print(f"REPRODUCED: the same violation record ({digest}) was produced again")
        return 1
    if same_kind:
        print("NOT IDENTICAL: the check still reports violations, but not this exact record")
        return 1
    print("NOT REPRODUCED on the current tree")
    return 0
