"""./check setup : regenerate coq/gen from /repo and build the whole development (full .vo)."""
import sys
import time
from . import core, gen


def main():
    t0 = time.time()
    with core.Lock():
        errs = gen.gen_all(strict=False)
        for name, e in errs:
            print(f"setup: generator {name} failed: {e}")
        ok, failing, log = core.coq_make(None, timeout=3400)
        if not ok:
            print(log[-3000:])
            print(f"setup: coq build failed at {failing} (checks will report it)")
    try:
        from . import extract
        extract.build()
    except ImportError:
        pass
    print(f"setup done in {time.time()-t0:.0f}s")
    return 0
