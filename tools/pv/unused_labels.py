"""Correspondence for generate_code.remove_unused_labels: the real function against the Coq model
`Model/UnusedLabels.v` (`rul`) on emitted texts with comment options, variants of them with extra
(unused, indented, commented) label lines and trailing comments, and hand-written adversarial texts.
A disagreement is reported with the text; when the real function leaves a reference without its label,
that text is a failing input of C05."""
from . import core

ADVERSARIAL = [
    "lbwhile1:\n  yield\n  j lbwhile.end1   # break\n  j lbwhile1\nlbwhile.end1:\nlbunused2:\n",
    "move r0 lbfor1  # for v in [1, 2]:\nlbfor1:\n  jal lbfor.body1\n  j lbfor.end1\nlbfor.body1:\n  j ra\nlbfor.end1:\n",
    "a:\nb:\n  j a\n",
    "  indented:\n  j indented\nother:\n",
    "  indented2:\nplain:\n",
    "x: # comment\n  j x\n",
    "# only mentioned here: ghost\nghost:\n",
    "end:\n  beqz r0 end # end\nend2:\n  s db Setting 1 # end2 is mentioned only in a comment\n",
    "j:\n  j j\n",
    "l1:\nl1:\n  j l1\n",
    "dup:\ndup:\n",
    ":\n  j :\n",
    "a.b:\n  jal a.b\na.bend:\n",
    "tab:\n\tj\ttab\n",
    "\n\nlone:\n\n",
    "f:\n  push ra\n  jal g  # call\n  pop ra\n  j ra\ng:\n  j ra\nh:\n  j ra\n",
]


def _variants(rng, code):
    lines = code.split("\n")
    out = [code]
    # extra label lines that nothing refers to, plain and indented, and a comment behind every third line
    v = list(lines)
    for k in range(3):
        v.insert(rng.randrange(len(v) + 1), f"lbnever{k}:")
    v.insert(rng.randrange(len(v) + 1), "  lbindented:")
    out.append("\n".join(v))
    w = [(l + "   # note") if (i % 3 == 0 and l.strip() and not l.strip().endswith(":")) else l for i, l in enumerate(lines)]
    out.append("\n".join(w))
    # labels mentioned only in a comment
    labs = [l.strip()[:-1] for l in lines if l.strip().endswith(":") and " " not in l.strip()]
    if labs:
        x = list(lines)
        x.append("# see " + rng.choice(labs))
        x.insert(0, "lbfront9:")
        out.append("\n".join(x))
    return out


def _coq_case(text, expected):
    from pyt2coq.common import coq_str
    ls = []
    for raw in text.splitlines():
        toks = raw.split()
        ls.append("{| raw := %s; toks := [%s] |}" % (coq_str(raw), "; ".join(coq_str(t) for t in toks)))
    # the function returns "\n".join(kept lines): split at "\n" only (splitlines() would drop a final empty line)
    if expected == "":
        # no line kept, or exactly one empty line kept (an empty line is never a label line)
        exp_lines = [""] if any(l == "" for l in text.splitlines()) else []
    else:
        exp_lines = expected.split("\n")
    exp = "[" + "; ".join(coq_str(r) for r in exp_lines) + "]"
    return "([" + "; ".join(ls) + "], " + exp + ")"


def correspondence(run, texts, name="c05ul"):
    """texts: list of code strings.  Returns number of compared texts."""
    core.setup_impl_import()
    from stationeers_pytrapic.generate_code import remove_unused_labels
    from pyt2coq.common import TranslateError
    cases, meta = [], []
    for t in texts:
        try:
            out = remove_unused_labels(t)
        except Exception as e:  # noqa
            run.violation("remove_unused_labels raised", {"kind": "unused_labels", "text": t[:1500], "exception": repr(e)})
            continue
        # Python's splitlines also splits at form feeds etc.; the model is line based on exactly that splitting
        try:
            cases.append(_coq_case(t, out))
            meta.append((t, out))
        except TranslateError:
            continue
    try:
        bad = core.coq_mismatches(name, "From Coq Require Import String.\nFrom PV Require Import Model.UnusedLabels.\nLocal Open Scope string_scope.",
                                  "agrees", cases, shard=40)
    except core.CoqEvalError as e:
        run.obligation_broken("remove_unused_labels correspondence (model evaluation)", str(e))
        return len(cases)
    for i in bad[:6]:
        t, out = meta[i]
        defined_in = {l.split()[0][:-1] for l in t.splitlines() if len(l.split()) == 1 and l.split()[0].endswith(":")}
        defined_out = {l.split()[0][:-1] for l in out.splitlines() if len(l.split()) == 1 and l.split()[0].endswith(":")}
        lost = sorted(x for x in defined_in - defined_out
                      if any(x in l.split("#")[0].split() for l in out.splitlines()))
        run.violation("remove_unused_labels differs from its model (a label line that is referred to was dropped, or another line was)"
                      if lost else "remove_unused_labels differs from its model",
                      {"kind": "unused_labels", "text": t[:2500], "result": out[:2500], "labels_referenced_but_no_longer_defined": lost})
    return len(cases)
