"""Shrinking of failing generated programs: statement deletion, block flattening, expression
replacement by operands/constants.  Candidates of one round are evaluated as one batch."""
from __future__ import annotations

import copy

from . import progen


def _blocks(P):
    """yield (container list) for every statement list in the program"""
    def walk(ss):
        yield ss
        for s in ss:
            if s[0] == "if":
                for c, b in s[1]:
                    yield from walk(b)
                if s[2] is not None:
                    yield from walk(s[2])
            elif s[0] in ("while",):
                yield from walk(s[2])
            elif s[0] in ("forrange", "forlist"):
                yield from walk(s[3])
    for f in P.funcs:
        yield from walk(f.body)
    yield from walk(P.main)


def _count_calls(P):
    def cnt(e, name):
        if not isinstance(e, tuple):
            return 0
        n = 1 if (e and e[0] == "call" and e[1] == name) else 0
        for x in e[1:]:
            if isinstance(x, tuple):
                n += cnt(x, name)
            elif isinstance(x, list):
                n += sum(cnt(y, name) for y in x)
        return n
    return cnt


def candidates(P):
    """single-step reductions of P (deep copies)"""
    out = []
    nblocks = len(list(_blocks(P)))
    for bi in range(nblocks):
        blk = list(_blocks(P))[bi]
        for si in range(len(blk)):
            Q = copy.deepcopy(P)
            qb = list(_blocks(Q))[bi]
            s = qb[si]
            del qb[si]
            out.append(Q)
            # flatten compound statements: replace by their first body
            if s[0] in ("if", "while", "forrange", "forlist"):
                Q2 = copy.deepcopy(P)
                qb2 = list(_blocks(Q2))[bi]
                body = s[1][0][1] if s[0] == "if" else (s[2] if s[0] == "while" else s[3])
                if s[0] == "if" or all(x[0] not in ("break", "continue") for x in body):
                    qb2[si:si + 1] = copy.deepcopy(body)
                    out.append(Q2)
                if s[0] == "if" and s[2]:
                    Q3 = copy.deepcopy(P)
                    qb3 = list(_blocks(Q3))[bi]
                    qb3[si:si + 1] = copy.deepcopy(s[2])
                    out.append(Q3)
    # expression reductions
    def paths(e, pre=()):
        if isinstance(e, tuple) and e and isinstance(e[0], str):
            yield pre
            for i, x in enumerate(e[1:], 1):
                if isinstance(x, tuple) and x and isinstance(x[0], str):
                    yield from paths(x, pre + (i,))
                elif isinstance(x, list):
                    for j, y in enumerate(x):
                        if isinstance(y, tuple) and y and isinstance(y[0], str) and y[0] in EXPR_KINDS:
                            yield from paths(y, pre + (i, j))
    def get(e, p):
        for i in p:
            e = e[i]
        return e
    def setp(e, p, v):
        if not p:
            return v
        l = list(e)
        l[p[0]] = setp(e[p[0]], p[1:], v)
        return tuple(l) if isinstance(e, tuple) else l
    for bi in range(nblocks):
        blk = list(_blocks(P))[bi]
        for si, s in enumerate(blk):
            for slot in range(1, len(s)):
                e = s[slot]
                if s[0] == "effect" and slot == 2:
                    continue
                if s[0] == "effect" and slot == 3:
                    exprs = [(slot, j) for j in range(len(e))]
                elif isinstance(e, tuple) and e and isinstance(e[0], str) and e[0] in EXPR_KINDS:
                    exprs = [(slot,)]
                else:
                    continue
                for base in exprs:
                    root = get(s, base)
                    for p in paths(root):
                        sub = get(root, p)
                        if sub[0] in ("num", "var"):
                            continue
                        repls = [("num", 1), ("num", 0)]
                        for x in sub[1:]:
                            if isinstance(x, tuple) and x and isinstance(x[0], str) and x[0] in EXPR_KINDS:
                                repls.insert(0, x)
                        for rep in repls[:3]:
                            Q = copy.deepcopy(P)
                            qb = list(_blocks(Q))[bi]
                            qb[si] = setp(qb[si], base + p, rep)
                            out.append(Q)
    # drop unused functions
    cnt = _count_calls(P)
    for fi, f in enumerate(P.funcs):
        total = sum(cnt(s, f.name) for blk in _blocks(P) for s in blk)
        if total == 0:
            Q = copy.deepcopy(P)
            del Q.funcs[fi]
            out.append(Q)
    return out


EXPR_KINDS = {"num", "var", "bin", "neg", "not", "cmp", "sel", "read", "memget", "pop", "peek", "call", "index",
              "intr1", "intr2", "select"}


def _refresh_effect(s):
    """the python text of an effect embeds the value expression: rebuild it"""
    kind, text, args = s[1], s[2], s[3]
    if " = " in text:
        lhs = text.split(" = ", 1)[0]
        if kind == "EKput":
            # Stack(dN)[a] = e
            head = lhs.split("[", 1)[0]
            return ("effect", kind, f"{head}[{progen.py(args[2])}] = {progen.py(args[-1])}", args)
        return ("effect", kind, f"{lhs} = {progen.py(args[-1])}", args)
    if text.startswith("sleep("):
        return ("effect", kind, f"sleep({progen.py(args[0])})", args)
    return s


def shrink(P, still_fails, max_rounds=40, batch=48, budget_s=None):
    """still_fails(list of Prog) -> list of bool.  Greedy: take the first failing candidate.
    budget_s: wall-clock budget; shrinking stops (keeping the best so far) when it is used up."""
    import time
    t0 = time.time()
    cur = P
    for _ in range(max_rounds):
        if budget_s is not None and time.time() - t0 > budget_s:
            break
        cands = candidates(cur)
        if not cands:
            break
        found = None
        for i in range(0, len(cands), batch):
            if budget_s is not None and time.time() - t0 > budget_s:
                break
            chunk = cands[i:i + batch]
            try:
                flags = still_fails(chunk)
            except Exception:
                flags = [False] * len(chunk)
            for c, fl in zip(chunk, flags):
                if fl:
                    found = c
                    break
            if found is not None:
                break
        if found is None:
            break
        cur = found
    return cur
