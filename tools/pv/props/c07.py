"""C07 — when the top-level script finishes, nothing else runs."""
from .. import core, gen, impl, progen, pipeline
from ..ic10 import Parsed

TRUST = [
    "IC10/Machine.v (trusted machine semantics); tools/pv/ic10.py reader",
    "region boundaries come from the hook's per-line owner export (PYTRAPIC_VERIF=1), aligned with the emitted text",
    "dynamic part (no effect after the main code ends) is differential execution: bounded, sampled",
]


def coq_closed(run, items):
    """items: [(ic10 text, [entries])] -> list of bool (closed?) evaluated in Coq"""
    cases = [f"({Parsed(t).coq()} : @program float, [{'; '.join(str(e) for e in es)}]%nat)" for t, es in items]
    bad = core.coq_mismatches("c07", "From Coq Require Import PrimFloat.\nFrom PV Require Import IC10.Values IC10.Machine Model.Layout.",
                              "fun c => closed (fst c) (snd c)", cases, shard=40)
    flags = [True] * len(items)
    for i in bad:
        flags[i] = False
    return flags


def main(tier, seed):
    run = core.Run("C07", tier, seed, "proof")
    core.setup_impl_import()
    ass = core.standard_proof_phase(run, "C07", None, "PV.Props.C07", extra_targets=["theories/Valid/Diff.vo"])
    rng = run.rng
    n = 60 if tier == "quick" else 800
    # programs that keep at least one non-inlined function; half with a terminating main
    progs = []
    tries = 0
    while len(progs) < n and tries < n * 20:
        tries += 1
        p = progen.generate(rng, 1, progen.Profile(max_stmts=4))[0]
        if p.funcs:
            progs.append((f"gen/{len(progs)}", p))
    from .c01 import load_corpus
    progs += load_corpus("findings") + load_corpus("clean")
    vns = ["noinline", "tail", "pushpop", "default", "tailinline"]
    cases = pipeline.compile_cases(progs, vns if tier == "thorough" else None) if tier == "thorough" else \
        _rot(progs, vns)
    from .. import idioms
    cases += pipeline.compile_cases([(n, p) for n, p in idioms.programs(rng) if p.funcs], vns + ["pushpopinline", "all"])
    oks = [c for c in cases if c.ok]
    items, keep = [], []
    for c in oks:
        entries, ow = pipeline.region_entries(c.result)
        c.entries = entries
        if entries:
            items.append((c.result["code"], entries))
            keep.append(c)
    try:
        flags = coq_closed(run, items)
    except core.CoqEvalError as e:
        run.obligation_broken("closure check (model evaluation)", str(e))
        flags = [True] * len(items)
    dist = {"closed": 0, "open": 0, "no_function_region": len(oks) - len(keep)}
    for c, fl in zip(keep, flags):
        c.closed = fl
        dist["closed" if fl else "open"] += 1
        run.count("evaluations")
        if not fl:
            code_lines = c.result["code"].split("\n")
            e = next(e for e in c.entries if True)
            bad_e = [e for e in c.entries if not _is_term(code_lines[e - 1])]
            # the line before an entry is not a jump, but it is dead code behind one (the load of a result
            # after a call that became a tail jump): no execution enters the region there
            live = reachable_lines(c.result["code"])
            if bad_e and all((e - 1) not in live for e in bad_e):
                dist["open_only_behind_dead_code"] = dist.get("open_only_behind_dead_code", 0) + 1
                c.closed = True
                continue
            rec = {"kind": "closure", "closed": False, "main_can_terminate": pipeline.main_can_terminate(c.prog),
                   "entries": c.entries, "open_entries": bad_e,
                   "line_before_entry": [code_lines[e - 1].strip() for e in bad_e][:3],
                   "after_main_only": all(_owner_before(c, e) == "" for e in bad_e),
                   "option_set": c.vname, "options": c.opts, "source": c.prog.text(), "code": c.result["code"]}
            run.violation("a function region can be entered by sequential flow (layout not closed)", rec)
    # function bodies are entered through calls only: the top-level code never *jumps* to a function's
    # entry label (a jump leaves no return address; the function's 'j ra' would then go to line 0 or to
    # a stale address)
    for c in oks:
        ow = pipeline.line_owners(c.result)
        lines = c.result["code"].split("\n")
        labels = {}
        from ..ic10 import tokenize as _tok
        for i, ln in enumerate(lines):
            t = _tok(ln)
            if t and t[0].endswith(":") and len(t) == 1:
                labels[t[0][:-1]] = i
        entry_labels = {lines[e].strip()[:-1] for e in getattr(c, "entries", []) if e < len(lines) and lines[e].strip().endswith(":")}
        for i, ln in enumerate(lines):
            t = _tok(ln)
            if not t or t[0] in ("jal",) or not (t[0] == "j" or t[0].startswith("b")):
                continue
            tgt = t[-1]
            numeric_entry = tgt.isdigit() and int(tgt) in set(getattr(c, "entries", []))
            if (tgt in entry_labels or numeric_entry) and i < len(ow) and ow[i] == "":
                run.violation("the top-level code jumps (not calls) into a function body",
                              {"kind": "jump_into_function", "line": i, "instruction": ln.strip(), "option_set": c.vname, "options": c.opts,
                               "source": c.prog.text(), "code": c.result["code"]})
    # dynamic: execution past the end of the main code
    try:
        pipeline.diff_cases(keep, name="c07")
    except core.CoqEvalError as e:
        run.obligation_broken("differential execution", str(e))
    for c in keep:
        b = pipeline.bad_verdict(c) if c.verdicts else None
        if b is None:
            continue
        k, t = b
        rec = pipeline.describe(c, k, t, with_traces=False)
        rec["kind"] = "closure_dynamic"
        rec["closed"] = getattr(c, "closed", None)
        rec["main_can_terminate"] = pipeline.main_can_terminate(c.prog)
        if rec["after_main_finished"] and run.classify(rec) is None:
            rec = pipeline.describe(c, k, t, with_traces=True)
            rec["kind"] = "closure_dynamic"
            rec["closed"] = getattr(c, "closed", None)
            rec["main_can_terminate"] = pipeline.main_can_terminate(c.prog)
        if rec["after_main_finished"]:
            run.violation("the chip keeps running / produces effects after the top-level code ended", rec)
    # text programs outside the generator's grammar (devices and batch names built from function results);
    # their main code never ends, so every emitted layout must be closed and execution must stay out of
    # functions that are not called
    import glob as _glob
    tjobs, tmeta = [], []
    for f in sorted(_glob.glob(str(core.VERIF / "corpus" / "c07" / "texts" / "*.py"))):
        src = open(f).read()
        for vn in ("default", "noinline", "tailinline", "pushpop"):
            tjobs.append((src, pipeline.VECTORS[vn])); tmeta.append((f.split("/")[-1][:-3], vn, src))
    titems, tkeep = [], []
    for (nm, vn, src), r in zip(tmeta, impl.compile_many(tjobs)):
        if "code" not in r:
            continue
        ents, _ = pipeline.region_entries(r)
        if ents:
            titems.append((r["code"], ents)); tkeep.append((nm, vn, src, r, ents))
    try:
        tflags = coq_closed(run, titems)
    except core.CoqEvalError as e:
        run.obligation_broken("closure check of text programs (model evaluation)", str(e))
        tflags = [True] * len(titems)
    for (nm, vn, src, r, ents), fl in zip(tkeep, tflags):
        run.count("evaluations")
        if not fl:
            lines_ = r["code"].split("\n")
            live = reachable_lines(r["code"])
            bad_e = [e for e in ents if not _is_term(lines_[e - 1]) and (e - 1) in live]
            if bad_e:
                run.violation("a function region can be entered by sequential flow (layout not closed) although the main code never ends",
                              {"kind": "closure_text", "program": nm, "option_set": vn, "source": src, "code": r["code"], "open_entries": bad_e,
                               "line_before_entry": [lines_[e - 1].strip() for e in bad_e][:3]})
    # scripts that end and whose functions all have a single live call (calls from dead code and from
    # never-called functions do not count): with inlining on, no function body is placed after the main code,
    # so the chip must produce exactly CPython's effects and then stop
    import glob
    import os
    from .. import pyref
    ends = [(os.path.basename(f)[:-3], open(f).read()) for f in sorted(glob.glob(str(core.VERIF / "corpus" / "c07" / "ends" / "*.py")))]
    pyref.stream(run, ends, {k: pipeline.VECTORS[k] for k in ("default", "compact", "tailinline", "pushpopinline")},
                 name="c07ends", kind="script_end")
    run.cov["terminating_scripts_against_cpython"] = len(ends)
    for f in run.findings.open_for("C07"):
        if f["id"] not in run.known_hits:
            run.note(f"known finding {f['id']} did not reproduce in this run")
    run.cov["distinct_nontrivial"] = len({c.result["code"] for c in keep})
    run.cov["traces_validated_against_impl"] = len(keep)
    run.cov["rule"] = "generated programs with at least one function, rotated over option sets that keep functions (noinline, tail, pushpop) and the default; one evaluation = closure check of one emitted program whose layout has a function region + execution past the end of main; distinct by emitted text"
    run.cov["input_distribution"] = dist
    if keep:
        run.sample({"code": keep[0].result["code"][:500], "entries": keep[0].entries, "closed": keep[0].closed})
    return run.finish(assumptions_text=ass, trusted_extra=TRUST)


def reachable_lines(code):
    """conservative reachability over the emitted text (line 0 is the start): labels fall through, `j`
    goes to its target, `jal` to its target and to the next line (the return), a branch to its target and to
    the next line, `jr` / relative branches / numeric or register targets to every line (over-approximation),
    `hcf` nowhere.  Only used to tell dead code after an unconditional jump from a real way into a region."""
    from ..ic10 import tokenize
    lines = code.split("\n")
    n = len(lines)
    toks = [tokenize(l) for l in lines]
    label_at = {t[0][:-1]: i for i, t in enumerate(toks) if len(t) == 1 and t[0].endswith(":")}
    everything = False
    succ = [[] for _ in range(n)]
    for i, t in enumerate(toks):
        if not t or (len(t) == 1 and t[0].endswith(":")):
            succ[i].append(i + 1)
            continue
        op = t[0]
        if op == "hcf":
            continue
        if op in ("j", "jal"):
            tgt = t[1] if len(t) > 1 else None
            if tgt == "ra":
                pass
            elif tgt in label_at:
                succ[i].append(label_at[tgt])
            else:
                everything = True
            if op == "jal":
                succ[i].append(i + 1)
            continue
        if op == "jr" or (op.startswith("br") and op not in ("brnaz",)):
            everything = True
            continue
        if op.startswith("b") and op not in ("bnez_",):
            tgt = t[-1]
            if tgt in label_at:
                succ[i].append(label_at[tgt])
            else:
                everything = True
            succ[i].append(i + 1)
            continue
        succ[i].append(i + 1)
    if everything:
        return set(range(n))
    seen, todo = set(), [0]
    while todo:
        i = todo.pop()
        if i in seen or i >= n:
            continue
        seen.add(i)
        todo += succ[i]
    return seen


def _is_term(line):
    from ..ic10 import tokenize
    t = tokenize(line)
    return bool(t) and t[0] in ("j", "jr", "hcf")


def _owner_before(c, e):
    ow = pipeline.line_owners(c.result)
    return ow[e - 1] if 0 < e <= len(ow) else None


def _rot(progs, vns):
    from .c01 import compile_rot
    return compile_rot([((name, p), [vns[i % len(vns)], vns[(i + 1) % len(vns)]]) for i, (name, p) in enumerate(progs)])
