"""C02 — every combination of compile options preserves program behaviour."""
from .. import core, gen, impl, progen, pipeline, diffrun

TRUST = [
    "IC10/Machine.v (trusted); tools/pv/ic10.py reader (comments are dropped by the reader: '#' to end of line outside quotes)",
    "pairwise comparison by vm_compute of the machine definitions: bounded by fuel, sampled programs/oracles",
    "known finding C07 (fall-through after a terminating main) is factored out by the guarded run (run_guard) so that it does not mask other differences",
]

BASE = impl.vec(append_version=False)


def vec_name(v):
    return ",".join(k for k in impl.OPTION_NAMES if v[k]) or "none"


def pragma_source(src, v):
    tags = [(k if v[k] else "no-" + k).replace("_", "-") for k in impl.OPTION_NAMES]
    return "# pytrapic: " + ", ".join(tags) + "\n" + src


def main(tier, seed):
    run = core.Run("C02", tier, seed, "translation_validation")
    core.setup_impl_import()
    ass = core.standard_proof_phase(run, "C02", gen.gen_pragma, "PV.Props.C02", extra_targets=["theories/Valid/Diff.vo"])
    rng = run.rng
    ng = 40 if tier == "quick" else 300
    progs = [(f"gen/{i}", p.text()) for i, p in enumerate(progen.generate(rng, ng))]
    progs += [(n, s) for n, s in impl.repo_programs() if "constexpr" not in n and "error" not in n]
    from .. import idioms
    progs += [(n, p.text()) for n, p in idioms.programs(rng)]
    allv = impl.all_vectors()
    pw = impl.pairwise_vectors()
    beh = impl.behaviour_vectors()
    jobs, meta = [], []
    for i, (name, src) in enumerate(progs):
        if name.startswith("idiom/"):
            # directed shapes: all eight combinations of inlining x calling convention x tail calls
            vs = [v for v in beh if not v["remove_labels"] and not v["compact"]] if tier == "quick" else beh
        elif tier == "quick":
            vs = [pw[(i + k) % len(pw)] for k in range(3)] + [beh[(7 * i + 3) % len(beh)]]
        elif i < 20:
            vs = allv
        else:
            vs = beh + pw
        jobs.append((src, BASE)); meta.append((name, src, BASE, "base"))
        if uses_chip_stack(src):
            # user code that addresses the chip's own stack is outside the domain in which the
            # push/pop calling convention can be compared (both use the same memory)
            vs = [v for v in vs if not v["use_push_pop_functions"]] or [BASE]
        for v in vs:
            jobs.append((src, v)); meta.append((name, src, v, "api"))
        # one vector also delivered through '# pytrapic:' lines on top of the default options
        v = vs[i % len(vs)]
        if isinstance(src, str):
            jobs.append((pragma_source(src, v), impl.vec())); meta.append((name, src, v, "pragma"))
            jobs.append((src, v)); meta.append((name, src, v, "pragma_ref"))
    res = impl.compile_many(jobs)
    run.note(f"compiled {len(jobs)} (program, options) pairs")
    # group by program
    by = {}
    for m, r in zip(meta, res):
        by.setdefault(m[0], []).append((m, r))
    quads, qmeta = [], []
    kinds = {"error_both": 0, "error_one": 0, "pairs": 0, "pragma_checked": 0}
    for name, items in by.items():
        base = next(r for m, r in items if m[3] == "base")
        prag = {}
        for m, r in items:
            if m[3] == "pragma":
                prag["p"] = (m, r)
            elif m[3] == "pragma_ref":
                prag["r"] = (m, r)
        if "p" in prag and "r" in prag:
            a, b = prag["p"][1], prag["r"][1]
            kinds["pragma_checked"] += 1
            ca = a.get("code"); cb = b.get("code")
            # the directive line shifts source line numbers only; emitted code must be identical
            # except for source comments
            if ("code" in a) != ("code" in b) or (ca is not None and _strip(ca) != _strip(cb)):
                run.violation("options given by '# pytrapic:' lines give a different result than the same options through the API",
                              {"kind": "pragma", "program": name, "options": prag["p"][0][2], "source": prag["p"][0][1],
                               "with_pragma": (ca or str(a))[:1500], "through_api": (cb or str(b))[:1500]})
        for m, r in items:
            if m[3] != "api":
                continue
            if "code" not in base and "code" not in r:
                kinds["error_both"] += 1
                continue
            if ("code" in base) != ("code" in r):
                kinds["error_one"] += 1
                eb = base.get("error", {}); er = r.get("error", {})
                desc = (er if "code" in base else eb)
                desc = desc.get("description", str(desc)) if isinstance(desc, dict) else str(desc)
                # running out of registers is a documented, option-dependent resource limit
                if "Running out of registers" in desc:
                    kinds["error_registers"] = kinds.get("error_registers", 0) + 1
                    continue
                run.violation("one option vector compiles the program and another one rejects it",
                              {"kind": "error_mismatch", "program": name, "options": m[2], "source": m[1],
                               "error": desc[:500], "vector": vec_name(m[2])})
                continue
            e1, _ = pipeline.region_entries(base)
            e2, _ = pipeline.region_entries(r)
            quads.append((base["code"], e1, r["code"], e2))
            qmeta.append((name, m[1], m[2], base, r))
    kinds["pairs"] = len(quads)
    try:
        vs = diffrun.tgt_vs_tgt_guard(quads, pipeline.SEEDS[:2], fuel=pipeline.FT, name="c02")
    except core.CoqEvalError as e:
        run.obligation_broken("pairwise machine execution (model evaluation)", str(e))
        vs = []
    # one run ended in a machine error while the other was still running with fewer effects: undecided within
    # the fuel -- those pairs are run again with six times the fuel
    again = [i for i, verd in enumerate(vs)
             if any(t[0] == 0 and ((t[4] == 0 and t[5] >= 10) or (t[5] == 0 and t[4] >= 10)) for t in verd)]
    if again:
        try:
            vs2 = diffrun.tgt_vs_tgt_guard([quads[i] for i in again], pipeline.SEEDS[:2], fuel=pipeline.FT * 6, name="c02long")
            for i, v2 in zip(again, vs2):
                vs[i] = v2
            kinds["pairs_rerun_with_more_fuel"] = len(again)
        except core.CoqEvalError as e:
            run.obligation_broken("pairwise machine execution (longer runs)", str(e))
    # both runs were cut by the fuel and agree on the common prefix, but one has far fewer effects: it may have
    # stopped making progress (a return into the wrong place that loops without effects).  Run the pair with six
    # times the fuel: if the lagging side then still has fewer effects than the other one had at the first fuel,
    # it is at least six times slower, which no option does to a program -- reported as divergence
    lag = [i for i, verd in enumerate(vs)
           if any(t[0] == 0 and t[4] == 0 and t[5] == 0 and min(t[2], t[3]) * 3 + 20 < max(t[2], t[3]) for t in verd)]
    if lag:
        try:
            vs3 = diffrun.tgt_vs_tgt_guard([quads[i] for i in lag], pipeline.SEEDS[:2], fuel=pipeline.FT * 6, name="c02lag")
            for i, v3 in zip(lag, vs3):
                new_verd = []
                for t1, t6 in zip(vs[i], v3):
                    if t6[0] != 0:
                        new_verd.append(t6)
                    elif t1[0] == 0 and t1[4] == 0 and t1[5] == 0 and (
                            (t1[2] > t1[3] and t6[3] < t1[2] and t6[5] == 0) or (t1[3] > t1[2] and t6[2] < t1[3] and t6[4] == 0)):
                        new_verd.append((6, min(t6[2], t6[3]), t6[2], t6[3], t6[4], t6[5]))
                    else:
                        new_verd.append(t1)
                vs[i] = new_verd
            kinds["pairs_rerun_for_lag"] = len(lag)
        except core.CoqEvalError as e:
            run.obligation_broken("pairwise machine execution (lagging runs)", str(e))
    nshown = 0
    for (name, src, v, base, r), verd in zip(qmeta, vs):
        run.count("evaluations")
        bad = [(k, t) for k, t in enumerate(verd) if t[0] != 0]
        if not bad:
            continue
        k, t = bad[0]
        rec = {"kind": "pair", "verdict": t[0], "first_difference_at_event": t[1], "events_base": t[2], "events_variant": t[3],
               "status_base": t[4], "status_variant": t[5], "program": name, "source": src, "options": v, "vector": vec_name(v),
               "tail_call": v["tail_call_optimization"], "push_pop": v["use_push_pop_functions"],
               "tail_after_call": tail_after_call(r), "uses_chip_stack": uses_chip_stack(src),
               "tail_end_label_unterminated": pipeline.end_label_unterminated(r) if v["tail_call_optimization"] else False,
               "inline": v["inline_functions"], "base_code": base["code"], "variant_code": r["code"], "oracle_seed": pipeline.SEEDS[k]}
        if run.classify(rec) is None and nshown < 4:
            nshown += 1
            try:
                rec["base_trace"] = diffrun.show_tgt_trace(base["code"], pipeline.SEEDS[k], pipeline.FT)[-700:]
                rec["variant_trace"] = diffrun.show_tgt_trace(r["code"], pipeline.SEEDS[k], pipeline.FT)[-700:]
            except Exception:
                pass
        run.violation(f"option vector [{vec_name(v)}] changes the behaviour of the program", rec)
    for f in run.findings.open_for("C02"):
        if f["id"] not in run.known_hits:
            run.note(f"known finding {f['id']} did not reproduce in this run")
    run.cov["programs"] = len(by)
    run.cov["disagreements_checked"] = sum(1 for verd in vs if any(t[0] != 0 for t in verd))
    run.cov["distinct_nontrivial"] = len({q[2] for q in quads})
    run.cov["rule"] = "each program (generated + the repository's tests, examples and library scripts) compiled under the baseline and under option vectors (quick: 4 per program from a pairwise-covering set and the 32 behaviour vectors; thorough: all 256 on 20 programs, 44 on the rest); each variant executed against the baseline on the machine under 2 oracles; distinct by variant text"
    run.cov["input_distribution"] = kinds
    if quads:
        run.sample({"program": qmeta[0][0], "vector": vec_name(qmeta[0][2]), "variant_code": quads[0][2][:400]})
    return run.finish(assumptions_text=ass, trusted_extra=TRUST)


def tail_after_call(result):
    """structural precondition of finding C02-tailcall-after-call in the variant: a function
    region that contains a jal, ends in a tail jump to another function and saves no ra"""
    import re
    ow = pipeline.line_owners(result)
    lines = result["code"].split("\n")
    regions = {}
    for o, l in zip(ow, lines):
        if o:
            regions.setdefault(o, []).append(l.split("#")[0].strip())
    final = (result.get("_verif") or {}).get("final") or []
    for o, ls in regions.items():
        ops = [x.split() for x in ls if x]
        has_jal = any(t[0] == "jal" for t in ops)
        saves = any(t[:2] == ["push", "ra"] for t in ops)
        tail = any(t[0] == "j" and len(t) > 1 and t[1] != "ra" and not t[1].startswith("lb") and not t[1].endswith("end")
                   and not re.fullmatch(r"-?\d+", t[1]) for t in ops)
        if not tail:
            # label-free output: a final 'j <n>' that is not 'j ra' at the end of the region
            tail = bool(ops) and ops[-1][0] == "j" and len(ops[-1]) > 1 and ops[-1][1] != "ra"
        if has_jal and tail and not saves:
            return True
    return False


def uses_chip_stack(src):
    text = src if isinstance(src, str) else "\n".join(src.values())
    import re
    return bool(re.search(r"\bstack\b|\bpush\(|\bpop\(|\bpeek\(|\bpoke\(|\bsp\b|get\(db|put\(db", text))


def _strip(code):
    from ..ic10 import strip_comment
    return "\n".join(strip_comment(l).rstrip() for l in code.split("\n"))
