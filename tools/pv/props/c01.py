"""C01 — compiled IC10 behaves exactly like the Python source it came from."""
import glob
import os

from .. import core, gen, impl, progen, pipeline

TRUST = [
    "IC10/Machine.v and Src/Sem.v are the trusted reference semantics of the target and of the source dialect; IC10/FloatAlg.v the IEEE-754 value algebra (transcendentals and pow uninterpreted, shared by both sides)",
    "tools/pv/ic10.py decides how emitted text denotes a machine program (tokens, numeric literals, HASH/STR, enum names by operand position)",
    "tools/pv/progen.py prints each generated program both as Python text and as Src.Sem syntax from one tree",
    "differential execution is evaluated by vm_compute from the same Coq definitions the theorems are about (no extraction); it is bounded by fuel and samples programs and oracles: a test, not a proof",
    "observed values are compared up to relative 2^-30 (literal printing keeps 16 significant digits, property C09)",
    "tools/pv/pyref.py executes the device-read-free programs of corpus/c01/pyref under CPython with recording stubs for db/d0..d5, yield_, sleep (the expected effects of that stream do not depend on Src/Sem.v)",
]

CORPUS = core.VERIF / "corpus" / "c01"


def load_corpus(sub="clean"):
    out = []
    for f in sorted(glob.glob(str(CORPUS / sub / "*.prog"))):
        out.append((f"corpus/{sub}/{os.path.basename(f)[:-5]}", progen.Prog.load(open(f).read())))
    return out


def judge_cases(run, cases, shrink_budget):
    nfail = 0
    for c in cases:
        if not c.ok:
            run.count("compile_errors")
            continue
        run.count("programs")
        b = pipeline.bad_verdict(c)
        src_fail = any(t[0] == 5 for t in (c.verdicts or []))
        if src_fail:
            run.count("source_runs_outside_domain")
        if b is None:
            continue
        k, t = b
        rec = pipeline.describe(c, k, t, with_traces=False)
        known = run.classify(rec)
        if known is None and shrink_budget[0] > 0:
            shrink_budget[0] -= 1
            c2, k2, t2 = pipeline.shrink_case(c, k, t)
            rec = pipeline.describe(c2, k2, t2)
            rec["original_source"] = c.prog.text()
            rec["prog_dump"] = c2.prog.dump()
        elif known is None:
            rec = pipeline.describe(c, k, t)
            rec["prog_dump"] = c.prog.dump()
        if run.violation(f"effect traces differ ({rec['verdict_text']}) under option set {c.vname}", rec):
            nfail += 1
    return nfail


def main(tier, seed):
    run = core.Run("C01", tier, seed, "translation_validation")
    core.setup_impl_import()
    ass = core.standard_proof_phase(run, "C01", lambda: (gen.gen_ops(), gen.gen_forrange(), gen.gen_iftest()), "PV.Props.C01", extra_targets=["theories/Valid/Diff.vo"])
    rng = run.rng
    n = 70 if tier == "quick" else 1500
    from .. import idioms
    progs = load_corpus("clean") + idioms.programs(rng) + [(f"gen/{i}", p) for i, p in enumerate(progen.generate(rng, n))]
    vn_all = list(pipeline.VECTORS)
    budget = [2 if tier == "quick" else 10]
    feats = {}
    if tier == "quick":
        cases = []
        # every program under two option sets, rotating through all six
        nv = len(vn_all)
        jobs = [((name, p), vn_all if name.startswith(("idiom/", "corpus/")) else [vn_all[i % nv], vn_all[(i + 3) % nv]])
                for i, (name, p) in enumerate(progs)]
        cases = compile_rot(jobs)
    else:
        cases = pipeline.compile_cases(progs, vn_all)
    run.note(f"compiled {len(cases)} cases")
    try:
        pipeline.diff_cases(cases, name="c01")
        run.note("differential execution done")
    except core.CoqEvalError as e:
        run.obligation_broken("differential execution (model evaluation)", str(e))
    judge_cases(run, cases, budget)
    for c in cases:
        if c.ok:
            for f in c.prog.features:
                feats[f] = feats.get(f, 0) + 1
    # findings stream: the stored witness of every open finding must still reproduce
    wit = load_corpus("findings")
    if wit:
        wcases = pipeline.compile_cases(wit, vn_all)
        try:
            pipeline.diff_cases(wcases, name="c01w")
        except core.CoqEvalError as e:
            run.obligation_broken("differential execution (findings stream)", str(e))
        judge_cases(run, wcases, [0])
    # for-range with a step that is only known at run time (held in the chip's own memory, so that it is
    # the same under every oracle) against the same loop with the step written as a literal
    from .. import diffrun
    rs_jobs, rs_meta = [], []
    for a, b, st in [(0, 7, 2), (1, 6, 1), (9, 0, -1), (8, 1, -3), (5, 5, 1), (2, 9, 3)]:
        body = f"    db.Setting = i\n    d1.Setting = i * 2\nwhile True:\n    yield_()\n"
        rt = f"stack[100] = {st}\nst = stack[100]\nfor i in range({a}, {b}, st):\n" + body
        lit = f"stack[100] = {st}\nst = stack[100]\nfor i in range({a}, {b}, {st}):\n" + body
        rs_jobs += [(rt, pipeline.VECTORS["default"]), (lit, pipeline.VECTORS["default"])]
        rs_meta.append((a, b, st, rt, lit))
    rs_res = impl.compile_many(rs_jobs)
    rs_pairs, rs_keep = [], []
    for k, m in enumerate(rs_meta):
        x, y = rs_res[2 * k], rs_res[2 * k + 1]
        if "code" in x and "code" in y:
            rs_pairs.append((x["code"], y["code"])); rs_keep.append((m, x, y))
    try:
        rs_v = diffrun.tgt_vs_tgt(rs_pairs, [1], fuel=3000, name="c01rs")
    except core.CoqEvalError as e:
        run.obligation_broken("machine evaluation (run-time step)", str(e))
        rs_v = []
    for (m, x, y), v in zip(rs_keep, rs_v):
        run.count("evaluations")
        if v[0][0] != 0:
            a, b, st, rt, lit = m
            run.violation("a for-range loop whose step is known only at run time does not iterate like the same loop with the step written out",
                          {"kind": "runtime_step", "step_sign": "negative" if st < 0 else "positive", "start": a, "stop": b, "step": st,
                           "source": rt, "literal_source": lit, "code": x["code"], "literal_code": y["code"], "verdict": v[0][0]})
    # Python-reference stream: device-read-free programs whose expected effects come from CPython itself
    from .. import pyref
    ptexts = pyref.load_corpus()
    pyref.stream(run, ptexts, pipeline.VECTORS, name="c01py")
    run.cov["python_reference_programs"] = len(ptexts)
    for f in run.findings.open_for("C01"):
        if f["id"] not in run.known_hits:
            run.note(f"known finding {f['id']} did not reproduce in this run")
    okc = [c for c in cases if c.ok]
    run.cov["programs"] = len(okc)
    run.cov["disagreements_checked"] = sum(1 for c in okc if pipeline.bad_verdict(c))
    run.cov["evaluations"] = len(okc) * len(pipeline.SEEDS)
    run.cov["distinct_nontrivial"] = len({c.result["code"] for c in okc if len(c.result["code"].split("\n")) > 3})
    run.cov["rule"] = "generated programs (grammar-directed, typed, definite assignment, acyclic calls) x option sets x 3 device oracles; non-trivial = emitted program longer than 3 lines, distinct by emitted text"
    run.cov["input_distribution"] = {"features": feats, "option_sets": {v: sum(1 for c in okc if c.vname == v) for v in vn_all},
                                     "compile_errors": sum(1 for c in cases if not c.ok)}
    for c in okc[:2]:
        run.sample({"source": c.prog.text()[:600], "options": c.vname, "code": c.result["code"][:400], "verdicts": c.verdicts})
    return run.finish(assumptions_text=ass, trusted_extra=TRUST,
                      assumptions=["source programs stay inside the dialect's domain (Src/Sem.v failure codes are inconclusive, counted)",
                                   "no NaN operands in comparisons (premise of C01_negated_branch_correct)"])


def compile_rot(jobs):
    """jobs: [((name, prog), [vnames])] -> cases, compiled in one pool"""
    flat, meta = [], []
    for (name, p), vs in jobs:
        for vn in vs:
            flat.append((p.text(), pipeline.VECTORS[vn]))
            meta.append((name, p, vn))
    res = impl.compile_many(flat)
    return [pipeline.Case(n, p, vn, pipeline.VECTORS[vn], r) for (n, p, vn), r in zip(meta, res)]
