"""C10 — compile_code always returns a verdict, promptly, and cleans up."""
import multiprocessing as mp
import os
import time

from .. import core, gen, impl

TRUST = [
    "Model/SkelSem.v skeleton semantics; assumptions of Model/SkelEnvs.v: inside the try of Compiler.compile anything may raise any Exception subclass; the exception handlers themselves (str(e), attribute reads of the caught error, traceback.format_exc()) do not raise; BaseException-only exceptions are outside the model",
    "domain of compile_code: the source is a str (or a mapping with the key \"\") and options a CompileOptions value or None",
    "wall-clock behaviour and OS process state are runtime: each call is run under a time limit and followed by a /proc scan for live child processes (fault enumeration, not proof)",
    "translator tools/pyt2coq/skeletons.py",
]

LIMIT_S = 25.0


def probe(job):
    """run one compile in this (forked) worker; report verdict, time and surviving children"""
    src, opts = job
    if isinstance(src, str):
        src = src.replace("PV_WORKER_TOKEN", f"pv_started_under_{os.getpid()}")
    core.setup_impl_import()
    from stationeers_pytrapic.compiler import compile_code
    from stationeers_pytrapic.compile_pass import CompileOptions
    t0 = time.time()
    out = {}
    try:
        o = CompileOptions(**opts) if opts is not None else None
        r = compile_code(src, o)
        out["result"] = r if isinstance(r, dict) else {"__nondict__": repr(r)[:200]}
    except BaseException as e:  # noqa
        out["raised"] = f"{type(e).__name__}: {e}"[:500]
    out["wall"] = time.time() - t0
    # child processes of this worker that are still alive (not zombies)
    me = os.getpid()
    alive = []
    time.sleep(0.05)
    for d in os.listdir("/proc"):
        if not d.isdigit():
            continue
        try:
            st = open(f"/proc/{d}/stat").read()
            rest = st[st.rindex(")") + 2:].split()
            state, ppid = rest[0], int(rest[1])
            cmd = open(f"/proc/{d}/cmdline").read().replace("\0", " ")
            # direct children, and anything a helper started before it went away (such a process is
            # re-parented; the programs of this check mark what they start with a token naming this worker)
            if (ppid == me or f"pv_started_under_{me}" in cmd) and state != "Z" and int(d) != me:
                alive.append((int(d), state, cmd[:80]))
        except Exception:
            continue
    out["children_alive"] = alive
    for pid, _, _ in alive:
        try:
            os.kill(pid, 9)
        except Exception:
            pass
    try:
        import json
        json.dumps(out.get("result"), default=repr)
    except Exception as e:
        out["unserialisable"] = repr(e)
    if "result" in out:
        r = out["result"]
        out["result"] = {k: (v if k != "_verif" else None) for k, v in r.items()}
    return out


def probe_sequence(jobs):
    """several compiles one after the other in ONE worker process (an editor session): each verdict must
    be about the text submitted with it"""
    return [probe(j) for j in jobs]


def sequences():
    pad = "# a comment line\n\n" * 3
    loop = "@constexpr\ndef g(a):\n    while True:\n        pass\n"
    boom = "@constexpr\ndef g(a):\n    return 1 // a\n"
    seqs = []
    seqs.append(("timeout_then_shorter_text", [pad + loop + pad + "db.Setting = g(1)\n", loop + "db.Setting = g(1)\n", "db.Setting = 1\n",
                                                loop + "\n\n\ndb.Setting = g(1)\n"]))
    seqs.append(("error_then_shorter_text", [pad + boom + pad + "db.Setting = g(0)\n", boom + "db.Setting = g(0)\n", boom + "db.Setting = g(1)\n"]))
    seqs.append(("syntax_error_then_valid", ["def f(:\n", "db.Setting = 1\n", "x = (\n\n\n", "db.Setting = undefined_name\n", "db.Setting = 2\n"]))
    seqs.append(("unknown_name_positions", ["\n\n\n\n\ndb.Setting = nope\n", "db.Setting = nope\n"]))
    return seqs


def run_probes(jobs, workers=8):
    ctx = mp.get_context("fork")
    res = [None] * len(jobs)
    with ctx.Pool(workers, maxtasksperchild=50) as pool:
        asyncs = [pool.apply_async(probe, (j,)) for j in jobs]
        for i, a in enumerate(asyncs):
            try:
                res[i] = a.get(timeout=LIMIT_S * 3)
            except mp.TimeoutError:
                res[i] = {"hang": True}
            except Exception as e:
                res[i] = {"worker_error": repr(e)}
        pool.terminate()
    return res


UNSUPPORTED = [
    "class A:\n    x = 1\n", "f = lambda x: x\n", "try:\n    x = 1\nexcept Exception:\n    pass\n", "with open('f') as f:\n    pass\n",
    "import os\nos.system('true')\n", "def g():\n    yield 1\ng()\n", "async def h():\n    pass\n", "x = [i for i in range(3)]\n",
    "x = f'{1}'\n", "del x\n", "assert 1\n", "x = (y := 2)\n", "match 1:\n    case 1:\n        pass\n", "a, b = 1, 2\n", "x = {1: 2}\n",
    "x = {1, 2}\n", "x = 1 if 2 else 3 if 4 else 5\ndb.Setting = x\n", "a = b = 3\n", "x = 1\nx.y = 2\n", "print('x')\n", "global q\nq = 1\n",
    "def f(*a):\n    pass\nf(1)\n", "def f(**k):\n    pass\nf(a=1)\n", "def f(a=1):\n    return a\ndb.Setting = f()\n", "x = 1 < 2 < 3\ndb.Setting = x\n",
    "db.Setting = d0.NoSuchThing.x\n", "db.Setting = WallLights.Nope\n", "db.Setting = 'text'\n", "x = None\ndb.Setting = x\n",
    "while d0.On:\n    pass\n", "for i in d0:\n    pass\n", "for i in range(1, 2, 3, 4):\n    pass\n", "return 5\n", "break\n", "continue\n",
    "db.Setting = 1 +\n", "db.Setting = )\n", "\tdb.Setting = 1\n  x = 2\n", "def f():\nreturn 1\n", "x = 0x\n", "s = 'unterminated\n",
    "db.Setting = 10 ** 400\n", "db.Setting = 1e400\n", "db.Setting = 1 / 0\n", "db.Setting = -(2 ** 70)\n", "x = 1j\ndb.Setting = x\n",
    "db.Setting = " + "(" * 200 + "1" + ")" * 200 + "\n", "x = 1\n" + "if x:\n" + "".join("    " * i + "if x:\n" for i in range(1, 60)) + "    " * 60 + "x = 2\n",
    "db.Setting = " + " + ".join(["d0.On"] * 400) + "\n", "\x00\x01\x02", "\ufeffx = 1\n", "x = 1\r\ndb.Setting = x\r\n", "# pytrapic: compact\n" * 50,
]
RECURSION = [
    "def f(x):\n    return f(x - 1)\ndb.Setting = f(3)\n",
    "def a(x):\n    return b(x)\ndef b(x):\n    return a(x)\ndb.Setting = a(1)\ndb.Setting = b(2)\n",
    "def a():\n    b()\ndef b():\n    c()\ndef c():\n    a()\na()\n",
]
CONSTEXPR = [
    ("ok", "@constexpr\ndef g(a):\n    return a * 2\ndb.Setting = g(21)\n"),
    ("raises", "@constexpr\ndef g():\n    raise ValueError('boom')\ndb.Setting = g()\n"),
    ("prints", "@constexpr\ndef g():\n    print('noise')\n    return 3\ndb.Setting = g()\n"),
    ("loops", "@constexpr\ndef g():\n    while True:\n        pass\ndb.Setting = g()\n"),
    ("loops_twice", "@constexpr\ndef g(a):\n    while True:\n        pass\ndb.Setting = g(1)\ndb.Setting = g(2)\n"),
    ("sleeps", "@constexpr\ndef g():\n    import time\n    time.sleep(5)\n    return 1\ndb.Setting = g()\n"),
    ("object", "@constexpr\ndef g():\n    return object()\ndb.Setting = g()\n"),
    ("none", "@constexpr\ndef g():\n    return None\ndb.Setting = g()\n"),
    ("exits", "@constexpr\ndef g():\n    import sys\n    sys.exit(3)\ndb.Setting = g()\n"),
    ("forbidden", "@constexpr\ndef g():\n    return open('/etc/passwd').read()\ndb.Setting = g()\n"),
    ("huge", "@constexpr\ndef g():\n    return 'x' * 3000000\ndb.Setting = HASH(g())\n"),
    ("spawns", "@constexpr\ndef g():\n    import subprocess, sys\n    subprocess.Popen([sys.executable, '-c', 'import time; time.sleep(30)  # PV_WORKER_TOKEN'])\n    return 1\ndb.Setting = g()\n"),
    ("spawns_then_loops", "@constexpr\ndef g():\n    import subprocess, sys\n    subprocess.Popen([sys.executable, '-c', 'import time; time.sleep(30)  # PV_WORKER_TOKEN'])\n    while True:\n        pass\ndb.Setting = g()\n"),
]


def mutate(rng, text):
    toks = text.split(" ")
    k = rng.random()
    if k < 0.3 and len(toks) > 2:
        i = rng.randrange(len(toks))
        del toks[i]
        return " ".join(toks)
    if k < 0.5 and len(toks) > 2:
        i = rng.randrange(len(toks))
        toks.insert(i, toks[i])
        return " ".join(toks)
    if k < 0.7:
        i = rng.randrange(len(text) + 1)
        return text[:i] + rng.choice(["(", ")", ":", "\n", "    ", "'", '"', "#", "\\", "=", ".", ",", "\t", "\x0c", "é", "\u2028", "\U0001f600"]) + text[i:]
    if k < 0.85:
        i = rng.randrange(len(text) + 1)
        j = min(len(text), i + rng.randint(1, 12))
        return text[:i] + text[j:]
    lines = text.split("\n")
    rng.shuffle(lines)
    return "\n".join(lines)


def check_verdict(run, src, opts, out, kind, extra=None):
    rec = {"kind": kind, "source": src if isinstance(src, str) else src, "options": opts}
    if extra:
        rec.update(extra)
    if out.get("hang"):
        run.violation("compile_code did not return within the time limit", dict(rec, failure="hang"))
        return
    if "worker_error" in out:
        run.violation("the worker process died during compile_code", dict(rec, failure="worker", detail=out["worker_error"]))
        return
    if "raised" in out:
        run.violation(f"compile_code raised {out['raised'][:120]}", dict(rec, failure="raise", exception=out["raised"]))
        return
    r = out["result"]
    if out["wall"] > LIMIT_S:
        # wall-clock time under machine load says little: the same call is repeated alone
        again = run_probes([(src, opts)], workers=1)[0]
        if not again.get("hang") and "wall" in again and again["wall"] <= LIMIT_S:
            run.count("slow_only_under_load")
            out = dict(out, wall=again["wall"])
    if out["wall"] > LIMIT_S:
        run.violation(f"compile_code took {out['wall']:.1f} s", dict(rec, failure="slow", wall=out["wall"]))
    if out.get("children_alive"):
        run.violation("a helper process was still running after compile_code returned",
                      dict(rec, failure="orphan", children=out["children_alive"], wall=out["wall"]))
    if "__nondict__" in r:
        run.violation("compile_code returned a non-dictionary", dict(rec, failure="shape", result=r))
        return
    text = src if isinstance(src, str) else src.get("", "")
    if "code" in r:
        from .c17 import recount
        probs = recount(dict(r)) if isinstance(r.get("code"), str) else ["'code' is not a string"]
        for k in ("num_lines", "num_bytes", "num_registers"):
            if not isinstance(r.get(k), int):
                probs.append(f"{k} missing or not an integer")
        for p in probs:
            run.violation(f"successful result with inconsistent statistics: {p}", dict(rec, failure="stats", result={k: r.get(k) for k in ("code", "num_lines", "num_bytes", "num_registers")}))
    elif "error" in r:
        e = r["error"]
        if not isinstance(e, dict) or not isinstance(e.get("description"), str) or not e.get("description"):
            run.violation("error verdict without a description", dict(rec, failure="shape", result=repr(r)[:300]))
            return
        nlines = text.count("\n") + 1
        ln = e.get("line")
        if ln is not None and not (isinstance(ln, int) and 1 <= ln <= nlines):
            run.violation(f"error position line {ln!r} is outside the submitted text ({nlines} lines)",
                          dict(rec, failure="position", error={k: e.get(k) for k in ("line", "column", "line_end", "column_end")}, description=e["description"][:200]))
        col = e.get("column")
        if ln is not None and col is not None and isinstance(ln, int) and 1 <= ln <= nlines:
            ltxt = text.split("\n")[ln - 1] if ln - 1 < len(text.split("\n")) else ""
            if not (isinstance(col, int) and 0 <= col <= len(ltxt) + 1):
                run.violation(f"error position column {col!r} is outside line {ln} (length {len(ltxt)})",
                              dict(rec, failure="position", error={k: e.get(k) for k in ("line", "column")}, description=e["description"][:200]))
    else:
        run.violation("result has neither 'code' nor 'error'", dict(rec, failure="shape", result=repr(r)[:300]))


def main(tier, seed):
    run = core.Run("C10", tier, seed, "proof")
    core.setup_impl_import()
    ass = core.standard_proof_phase(run, "C10", gen.gen_skeletons, "PV.Props.C10")
    rng = run.rng
    jobs, meta = [], []
    vecs = impl.pairwise_vectors()

    def add(src, kind, opts=None, extra=None):
        jobs.append((src, opts if opts is not None else dict(rng.choice(vecs))))
        meta.append((kind, extra))
    repo = [(n, s) for n, s in impl.repo_programs() if isinstance(s, str)]
    # keystroke model: prefixes of the repository's programs
    step = 9 if tier == "quick" else 1
    for n, s in repo[: (12 if tier == "quick" else len(repo))]:
        for i in range(0, len(s) + 1, step):
            add(s[:i], "prefix", extra={"program": n, "prefix_length": i})
    for s in UNSUPPORTED:
        add(s, "construct")
    for s in RECURSION:
        add(s, "recursion")
    for name, s in CONSTEXPR:
        add(s, "constexpr", extra={"constexpr_kind": name})
        add({"": "from library import m\ndb.Setting = m.g(1) if False else 0\n" + s, "m": s.replace("db.Setting", "x")}, "constexpr_lib", extra={"constexpr_kind": name})
    nm = 250 if tier == "quick" else 4000
    for _ in range(nm):
        n, s = rng.choice(repo)
        t = s
        for _ in range(rng.randint(1, 3)):
            t = mutate(rng, t)
        add(t, "mutation", extra={"program": n})
    for _ in range(40 if tier == "quick" else 400):
        add("".join(chr(rng.choice([rng.randint(32, 126), rng.randint(0, 0x2fff), rng.randint(0x1f300, 0x1f5ff), 10, 10, 32])) for _ in range(rng.randint(1, 80))), "random_text")
    add("", "empty"); add("\n\n\n", "empty"); add("   ", "empty")
    add({"": "x = 1\n"}, "mapping"); add("db.Setting = 1\n", "options_none", opts=None)
    jobs2 = [(j[0], j[1]) for j in jobs]
    # constexpr jobs are timing sensitive: run them with few workers
    res = run_probes(jobs2, workers=8)
    kinds = {}
    verdicts = {"code": 0, "error": 0, "other": 0}
    for (src, opts), out, (kind, extra) in zip(jobs2, res, meta):
        kinds[kind] = kinds.get(kind, 0) + 1
        run.count("evaluations")
        if out and "result" in out:
            r = out["result"]
            verdicts["code" if "code" in r else "error" if "error" in r else "other"] += 1
        check_verdict(run, src, opts, out or {"worker_error": "no result"}, kind, extra)
    # editor sessions: sequences of compiles in one process
    ctx = mp.get_context("fork")
    for name, srcs in sequences():
        with ctx.Pool(1) as pool:
            try:
                outs = pool.apply_async(probe_sequence, ([(x, impl.vec(append_version=False)) for x in srcs],)).get(timeout=LIMIT_S * 3 * len(srcs))
            except Exception as e:  # noqa
                outs = [{"worker_error": repr(e)}]
        for pos, (x, out) in enumerate(zip(srcs, outs)):
            kinds["sequence"] = kinds.get("sequence", 0) + 1
            run.count("evaluations")
            # the same text compiled alone in a fresh process must give the same verdict position
            with ctx.Pool(1) as pool1:
                try:
                    alone = pool1.apply_async(probe, ((x, impl.vec(append_version=False)),)).get(timeout=LIMIT_S * 3)
                except Exception as e:  # noqa
                    alone = {"worker_error": repr(e)}
            pa = ((alone.get("result") or {}).get("error") or {}) if isinstance(alone.get("result"), dict) else {}
            ps = ((out.get("result") or {}).get("error") or {}) if isinstance(out.get("result"), dict) else {}
            def _spurious(e):
                # the evaluation child has one second of wall-clock time: a text without an endless loop or a sleep
                # that is reported as timed out was starved by the machine's load
                return isinstance(e, dict) and "Timeout during evaluating constexpr" in str(e.get("description", "")) \
                    and "while True" not in x and "sleep" not in x
            tries = 0
            while (_spurious(pa) or _spurious(ps)) and tries < 3:
                tries += 1
                run.count("inconclusive_constexpr_timeouts")
                time.sleep(1.0)
                with ctx.Pool(1) as poolr:
                    try:
                        outs_r = poolr.apply_async(probe_sequence, ([(y, impl.vec(append_version=False)) for y in srcs[:pos + 1]],)).get(timeout=LIMIT_S * 3 * (pos + 1))
                        out = outs_r[pos]
                    except Exception:  # noqa
                        break
                with ctx.Pool(1) as poola:
                    try:
                        alone = poola.apply_async(probe, ((x, impl.vec(append_version=False)),)).get(timeout=LIMIT_S * 3)
                    except Exception:  # noqa
                        break
                pa = ((alone.get("result") or {}).get("error") or {}) if isinstance(alone.get("result"), dict) else {}
                ps = ((out.get("result") or {}).get("error") or {}) if isinstance(out.get("result"), dict) else {}
            if _spurious(pa) or _spurious(ps):
                continue
            if isinstance(pa, dict) and isinstance(ps, dict) and (pa.get("line"), pa.get("column")) != (ps.get("line"), ps.get("column")):
                run.violation("the verdict of a text depends on what was compiled before it in the same process",
                              {"kind": "sequence", "failure": "stale_verdict", "sequence": name, "position_in_sequence": pos, "source": x,
                               "earlier_sources": srcs[:pos], "in_session": ps, "alone": pa, "expects_timeout": True})
            check_verdict(run, x, impl.vec(append_version=False), out, "sequence",
                          {"sequence": name, "position_in_sequence": pos, "earlier_sources": srcs[:pos], "expects_timeout": True})
    run.cov["distinct_nontrivial"] = len({(repr(j[0])) for j in jobs2})
    run.cov["rule"] = "one evaluation = one compile_code call in a forked worker under a wall-clock limit followed by a /proc scan: prefixes of the repository's programs (keystroke model), token/character mutations, random Unicode text, every unsupported construct, recursion, constexpr bodies that fail / print / never end / sleep / exit / return non-JSON / spawn; verdict shape, statistics, error position and surviving children are checked; distinct by source text"
    run.cov["input_distribution"] = {"kinds": kinds, "verdicts": verdicts}
    run.sample({"source": jobs2[50][0] if isinstance(jobs2[50][0], str) else "mapping", "verdict": list((res[50] or {}).get("result", {}).keys())})
    for f in run.findings.open_for("C10"):
        if f["id"] not in run.known_hits:
            run.note(f"known finding {f['id']} did not reproduce in this run")
    return run.finish(assumptions_text=ass, trusted_extra=TRUST)
