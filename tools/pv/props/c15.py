"""C15 — '# pytrapic:' directives set exactly the named options."""
import dataclasses
import json

from .. import core, gen, impl

TRUST = [
    "Python str methods (splitlines, strip, startswith, split, replace, in) modelled by Base/PyStr.v; model compared with the implementation on generated sources each run",
    "translator tools/pyt2coq/pragma.py (option fields and defaults, literals and shape of the scanner loop)",
]

SPACES = [" ", "\t", "  ", "\xa0", " ", "\x1f", ""]
TAG_POOL = ["compact", "inline-functions", "inline_functions", "remove-labels", "append-version", "append_version",
            "tail-call-optimization", "use-push-pop-functions", "original-code-as-comment", "generated_comments",
            "no-compact", "no_compact", "no-inline-functions", "no_remove_labels", "no-append-version",
            "no- compact", "no_  inline_functions", "no-no-compact", "Compact", "COMPACT", "compac", "compact2",
            "inline functions", "", " ", "no-", "no_", "foo", "no-foo", "options", "__doc__", "__module__",
            "__init__", "__eq__", "__repr__", "__dataclass_fields__", "__class__", "__dict__", "__hash__",
            "__annotations__", "_x", "compact#x", "compact:", "pytrapic:", "remove-labels pytrapic: compact"]
CODE_LINES = ['x = 1', 's = "# pytrapic: compact"', 'db.Setting = 1  # pytrapic: compact',
              'y = 2 # pytrapic: no-inline-functions', "t = 'pytrapic: remove-labels'", "pass",
              '"""', "# just a comment", "#pytrapic:compact" , "    # pytrapic: remove-labels",
              "#  something # pytrapic: compact", "# pytrapic : compact", "# PYTRAPIC: compact", "# pytrapic:",
              "## pytrapic: no-append-version,compact", "x = '#'  # pytrapic: tail-call-optimization"]
SEPS = ["\n", "\n", "\n", "\r\n", "\r", "\x0c", "\x0b", "\x1c", "\x85", " ", "\n\n"]


def gen_source(rng):
    lines = []
    for _ in range(rng.randint(1, 7)):
        r = rng.random()
        if r < 0.55:
            tags = [rng.choice(TAG_POOL) for _ in range(rng.randint(1, 4))]
            sp = lambda: rng.choice(SPACES)
            lines.append(sp() + "#" + sp() + rng.choice(["pytrapic:", "pytrapic:", "pytrapic: ", " pytrapic:", "x pytrapic:"])
                         + ",".join(sp() + t + sp() for t in tags))
        else:
            lines.append(rng.choice(CODE_LINES))
    out = ""
    for l in lines:
        out += l + rng.choice(SEPS)
    if rng.random() < 0.3:
        out = out.rstrip("\n")
    return out


def impl_scan(src, base):
    """Options that reach the compiler for (src, base): Compiler is replaced by a recorder."""
    import stationeers_pytrapic.compiler as C
    from stationeers_pytrapic.compile_pass import CompileOptions
    seen = {}

    class Rec:
        def __init__(self, options):
            seen["o"] = options
        def compile(self, src):
            return {"code": ""}
    old = C.Compiler
    C.Compiler = Rec
    try:
        o = CompileOptions(**base)
        C.compile_code(src, o)
        got = seen["o"]
        return {f.name: getattr(got, f.name) for f in dataclasses.fields(got)}, None
    except BaseException as e:  # noqa
        return None, f"{type(e).__name__}: {e}"
    finally:
        C.Compiler = old


def cp(s):
    return core.coq_N_list([ord(c) for c in s])


def main(tier, seed):
    run = core.Run("C15", tier, seed, "proof")
    core.setup_impl_import()
    ass = core.standard_proof_phase(run, "C15", gen.gen_pragma, "PV.Props.C15")
    rng = run.rng
    names = impl.OPTION_NAMES
    n = 1500 if tier == "quick" else 20000
    cases, recs = [], []
    kinds = {}
    for i in range(n):
        src = gen_source(rng)
        base = {k: rng.random() < 0.5 for k in names}
        got, err = impl_scan(src, base)
        run.count("evaluations")
        if err is not None:
            kinds["raised"] = kinds.get("raised", 0) + 1
            run.violation(f"compile_code raised while scanning directives: {err}",
                          {"kind": "raise", "source": src, "base": base, "error": err,
                           "tags": [t for t in TAG_POOL if t and t in src and t.startswith("__")]})
            continue
        if not all(isinstance(v, bool) for v in got.values()):
            run.violation("an option received a non-boolean value", {"kind": "value", "source": src, "base": base, "got": got})
            continue
        kinds["changed" if got != base else "unchanged"] = kinds.get("changed" if got != base else "unchanged", 0) + 1
        o0 = "[" + "; ".join(f"({cp(k)}, {'true' if base[k] else 'false'})" for k in names) + "]"
        exp = "[" + "; ".join('true' if got[k] else 'false' for k in names) + "]"
        cases.append(f"({cp(src)}, {o0}, {exp})")
        recs.append((src, base, got))
    try:
        bad = core.coq_mismatches(
            "c15", "From PV Require Import Base.PyStr Model.Pragma.",
            "fun c => match c with (src, o, e) => list_eqb Bool.eqb (map snd (scan src o)) e end",
            cases, shard=250)
    except core.CoqEvalError as e:
        run.obligation_broken("model evaluation (cases)", str(e))
        bad = []
    for i in bad:
        src, base, got = recs[i]
        run.violation("directive scanner model and implementation disagree on the resulting options",
                      {"kind": "correspondence", "source": src, "base": base, "implementation": got}, no_input=True)
    run.cov["traces_validated_against_impl"] = len(cases)
    # --- spec-level checks on the implementation itself (the property as stated)
    for src, base, got in recs[: (300 if tier == "quick" else 3000)]:
        exp = dict(base)
        for line in src.splitlines():
            st = line.lstrip()
            if not st.startswith("#") or "pytrapic:" not in line:
                continue
            for tag in line.strip().split("#", 1)[1].split("pytrapic:", 1)[1].strip().split(","):
                t = tag.strip().replace("-", "_")
                val = True
                if t.startswith("no_"):
                    val, t = False, t[3:].strip()
                if t in exp:
                    exp[t] = val
        if exp != got:
            run.violation("options differ from the reading of the property (last directive wins, unknown ignored, unnamed untouched)",
                          {"kind": "spec", "source": src, "base": base, "implementation": got, "expected": exp})
    # --- OBSERVE: result with directives == result with the option values passed through the API
    progs = [("a = d0.Setting\ndb.Setting = a + 1\n", ), ("def f(x):\n    return x * 2\ndb.Setting = f(d0.Setting)\ndb.Setting = f(3)\n",),
             ("d = Device(d0)\nwhile True:\n    if d.On > 0:\n        db.Setting = HASH('abc')\n    yield_()\n",)]
    jobs, meta = [], []
    for k in range(60 if tier == "quick" else 600):
        body = rng.choice(progs)[0]
        tags = [rng.choice(TAG_POOL[:24]) for _ in range(rng.randint(1, 3))]
        dline = "# pytrapic: " + ", ".join(tags)
        base = {k2: rng.random() < 0.5 for k2 in names}
        src = dline + "\n" + body
        got, err = impl_scan(src, base)
        if got is None:
            continue
        jobs.append((src, base)); jobs.append(("#\n" + body, got)); meta.append((src, base, got))
    res = impl.compile_many(jobs)
    for k, (src, base, got) in enumerate(meta):
        a, b = res[2 * k], res[2 * k + 1]
        fa = {x: a.get(x) for x in ("code", "num_lines", "num_bytes", "num_registers")} if "code" in a else {"error": a.get("error", a).get("description") if isinstance(a.get("error"), dict) else str(a)}
        fb = {x: b.get(x) for x in ("code", "num_lines", "num_bytes", "num_registers")} if "code" in b else {"error": b.get("error", b).get("description") if isinstance(b.get("error"), dict) else str(b)}
        run.count("evaluations")
        if fa != fb:
            run.violation("result with directives differs from result with the same option values given through the API",
                          {"kind": "observe", "source": src, "base": base, "scanned": got, "with_directives": fa, "through_api": fb})
    run.cov["distinct_nontrivial"] = len({(s, json.dumps(b, sort_keys=True)) for s, b, g in recs if g != b})
    run.cov["rule"] = "generated sources (1-7 lines: directive lines with 1-4 tags from a pool of known/unknown/attribute-like names, code lines carrying the key in strings or after code; mixed line separators and Unicode spaces) x random caller option vectors; non-trivial = the directives change at least one option, distinct by (source, base)"
    run.cov["input_distribution"] = kinds
    if recs:
        run.sample({"source": recs[0][0], "base": recs[0][1], "result": recs[0][2]})
    return run.finish(assumptions_text=ass, trusted_extra=TRUST)
