"""C17 — reported size statistics describe the emitted program."""
from .. import core, gen, impl

TRUST = [
    "Python str.splitlines / len are modelled by Base/PyStr.v (list of code points)",
    "translator tools/pyt2coq/stats.py (reads the three statistics expressions of get_code)",
    "hook PYTRAPIC_VERIF=1 exports the virtual->physical register map used for the recount",
]


def recount(res):
    """Independent recount of one successful result. Returns list of problems."""
    probs = []
    code = res["code"]
    lines = code.split("\n")
    if res.get("num_lines") != len(lines) or code == "":
        if not (code == "" and res.get("num_lines") == 0):
            probs.append(f"num_lines={res.get('num_lines')} but the text has {len(lines)} lines")
    crlf = len(code.replace("\n", "\r\n"))
    if res.get("num_bytes") != crlf:
        probs.append(f"num_bytes={res.get('num_bytes')} but the text with two-byte line ends has {crlf} characters")
    v = res.get("_verif")
    if v and v.get("regalloc"):
        image = sorted({int(r[1:]) for r in v["regalloc"]["mapping"].values()})
        used = v.get("used_registers")
        if res.get("num_registers") != len(image):
            probs.append(f"num_registers={res.get('num_registers')} but {len(image)} distinct registers were allocated: {image}")
        if used is not None and sorted(used) != image:
            probs.append(f"used register list {used} differs from the allocation image {image}")
        if any(not (0 <= r <= 15) for r in image):
            probs.append(f"allocated register outside r0-r15: {image}")
    return probs


def check_results(run, jobs, results, names):
    for (src, opts), r, name in zip(jobs, results, names):
        if "code" not in r:
            continue
        run.count("programs")
        for p in recount(r):
            run.violation(p, {"kind": "stats", "program": name, "options": opts, "source": src,
                              "result": {k: r.get(k) for k in ("code", "num_lines", "num_bytes", "num_registers")}})


def main(tier, seed):
    run = core.Run("C17", tier, seed, "proof")
    core.setup_impl_import()
    ass = core.standard_proof_phase(run, "C17", gen.gen_stats, "PV.Props.C17")
    progs = impl.repo_programs()
    try:
        from .. import progen
        n = 120 if tier == "quick" else 600
        progs += [(f"gen/{i}", p.text()) for i, p in enumerate(progen.generate(run.rng, n))]
    except ImportError:
        pass
    vectors = impl.pairwise_vectors() if tier == "quick" else impl.all_vectors()[::5]
    jobs, names = [], []
    for i, (name, src) in enumerate(progs):
        vs = vectors if tier == "thorough" else [vectors[(i + k) % len(vectors)] for k in range(4)]
        for v in vs:
            jobs.append((src, v))
            names.append(name)
    results = impl.compile_many(jobs)
    check_results(run, jobs, results, names)
    ok = sum(1 for r in results if "code" in r)
    run.cov["evaluations"] = len(jobs)
    run.cov["distinct_nontrivial"] = len({r["code"] for r in results if "code" in r and "\n" in r["code"]})
    run.cov["rule"] = "one evaluation = one (program, option vector) compile whose statistics are recounted independently; non-trivial = successful result with more than one line, distinct by emitted text"
    run.cov["compiles_ok"] = ok
    for r in results:
        if "code" in r and "\n" in r["code"]:
            run.sample({"code_head": r["code"][:120], "num_lines": r["num_lines"], "num_bytes": r["num_bytes"],
                        "num_registers": r["num_registers"]})
            break
    run.cov["traces_validated_against_impl"] = ok
    return run.finish(assumptions_text=ass, trusted_extra=TRUST,
                      assumptions=["emitted text is a plain text (premise of C17_stats_meaning): non-empty, only '\\n' line boundaries; checked per result by the recount"])
