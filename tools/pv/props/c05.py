"""C05 — every jump lands on the instruction the source construct meant."""
import re

from .. import core, gen, impl, progen, pipeline, diffrun
from ..ic10 import Parsed, tokenize
from .sigtable import SIG

TRUST = [
    "IC10/Machine.v label semantics (a label is the index of its own line; label lines are no-ops)",
    "tools/pv/ic10.py reader; the glue equality resolve(parse(labelled)) = parse(label-free) is evaluated in Coq on the two real outputs",
    "that a target is the location of the construct it was generated for is decided by differential execution (C01 engine), bounded and sampled",
]

FAMILIES = [
    ["update", "update_display", "update_display_all"],
    ["f", "fend", "f_end", "fendend"],
    ["range2", "range2_const", "range"],
    ["main", "mainend", "main_loop"],
    ["a_b", "a", "b", "a_b_c"],
    ["loop", "loop_end", "loopend", "lbloop"],
    ["lbwhile1", "lbfor1", "lbend2", "lbelse3"],
    ["x", "x1", "x10", "x_1"],
    ["step", "step2", "step_2", "end"],
    ["n", "Some", "Name", "Main", "Light"],
    ["r", "r_0", "sp1", "ra_", "db1", "d_0"],
    ["label", "j_", "jal_", "s_", "l_"],
]


def adversarial_profile(rng):
    from ..progen import Profile
    fam = rng.choice(FAMILIES)
    names = list(fam)
    rng.shuffle(names)
    # function names double as device-name strings (substitution must not reach into strings)
    # strings that look like comments / labels / several tokens are compared against as HASH("...") literals:
    # the label passes work on the text of a line and must not be misled by what stands inside a string
    tricky = ["Pump #1", "a # b", "#", names[0] + ":", "x # " + names[-1], "lbelse1 lbend1", "j " + names[0]]
    return Profile(fn_names=names, name_strings=[names[0], names[-1], "Some Name", "Pump #1"], hash_names=tricky,
                   max_stmts=4, const_lists=False)


def finding_witnesses():
    """deterministic witnesses of the two open label-name findings (so that each run reports them)"""
    from ..idioms import fn, prog, wr, rd, num, var, bin_, call
    out = []
    # <name>end is both the end label of `loop` and the entry label of `loopend`
    lp = fn("loop", 1, [], [("if", [(("cmp", ">", var("p0"), num(3)), [("return", num(1))])], None), ("return", bin_("+", var("p0"), num(1)))], True)
    le = fn("loopend", 1, [], [("return", bin_("*", var("p0"), num(2)))], True)
    out.append(("witness/function_end_label", prog([], [lp, le], [wr(call("loop", rd(0))), wr(call("loop", num(5))), wr(call("loopend", rd(1)), 1),
                                                                 wr(call("loopend", num(2)), 1)], ["witness"])))
    # a function named like a label the compiler generates for an if / else of this very program: the
    # label number is read off a first compile (names do not influence the numbering)
    def build(fname):
        f = fn(fname, 1, [], [("return", bin_("+", var("p0"), num(7)))], True)
        main = [wr(call(fname, rd(0))), wr(call(fname, num(2))),
                ("if", [(("cmp", ">", rd(0), num(1)), [wr(num(1), 1)])], [wr(num(2), 1)])]
        return prog([], [f], main, ["witness"])
    # a function named like a logic type that the program also writes: label removal replaces the operand
    st = fn("Setting", 1, [], [wr(var("p0")), wr(num(1), 6, "On")], False)
    out.append(("witness/function_named_like_logic_type", prog([], [st], [("expr", call("Setting", rd(0))), ("expr", call("Setting", num(4)))], ["witness"])))
    first = impl.compile_one((build("zz0").text(), impl.vec(append_version=False, inline_functions=False)))
    m = re.search(r"^(lbelse\d+):", first.get("code", ""), re.M)
    if m:
        out.append(("witness/generated_label_lookalike", build(m.group(1))))
    return out


def static_labels(code):
    """(a) every control transfer names exactly one existing location; labels defined once"""
    P = Parsed(code)
    probs = []
    for name in P.dup_labels:
        probs.append(f"label '{name}' is defined more than once")
    nlines = len([l for l in P.lines])
    for i, ln in enumerate(P.lines):
        if ln[0] != "instr":
            continue
        op, args = ln[1], ln[2]
        sig = SIG.get(op)
        if not sig or len(sig) != len(args):
            continue
        for kind, tok in zip(sig, args):
            if kind != "t":
                continue
            k, v = P.classify(tok)
            if k == "lbl" or k == "reg" or k == "name":
                continue
            if k == "num":
                rel = op.startswith("br") or op == "jr"
                if not rel and not (0 <= v <= nlines) or float(v) != int(v):
                    probs.append(f"line {i}: '{op}' jumps to line {v} outside the program (0..{nlines})")
                continue
            probs.append(f"line {i}: jump target '{tok}' of '{op}' is neither a defined label nor a line number")
    return probs


def main(tier, seed):
    run = core.Run("C05", tier, seed, "proof")
    core.setup_impl_import()
    ass = core.standard_proof_phase(run, "C05", None, "PV.Props.C05", extra_targets=["theories/Valid/Diff.vo", "theories/Valid/ResolveSem.vo", "theories/Valid/ResolveCalls.vo"])
    rng = run.rng
    n = 50 if tier == "quick" else 700
    progs = []
    tries = 0
    while len(progs) < n and tries < n * 30:
        tries += 1
        p = progen.Gen(rng, adversarial_profile(rng)).program()
        if len(p.funcs) >= 2 or (p.funcs and rng.random() < 0.3):
            progs.append((f"adv/{len(progs)}", p.text(), p))
    progs += [(nm, p.text(), p) for nm, p in finding_witnesses()]
    progs += [(nm, s, None) for nm, s in impl.repo_programs() if "error" not in nm and "constexpr" not in nm]
    jobs = []
    variants = [dict(inline_functions=False), dict(inline_functions=True), dict(inline_functions=False, compact=True),
                # comment options put text behind the operands of a line (label references included)
                dict(inline_functions=False, original_code_as_comment=True, generated_comments=True),
                dict(inline_functions=True, original_code_as_comment=True)]
    if tier == "thorough":
        variants += [dict(inline_functions=False, use_push_pop_functions=True), dict(inline_functions=False, tail_call_optimization=True)]
    for name, src, p in progs:
        for var in variants:
            for rl in (False, True):
                jobs.append((src, impl.vec(append_version=False, remove_labels=rl, **var)))
    res = impl.compile_many(jobs)
    kinds = {"pairs": 0, "errors": 0}
    glue_cases, glue_meta, quads = [], [], []
    k = 0
    for name, src, p in progs:
        for var in variants:
            L, N = res[k], res[k + 1]
            opts = jobs[k][1]
            k += 2
            if "code" not in L or "code" not in N:
                kinds["errors"] += 1
                if ("code" in L) != ("code" in N):
                    run.violation("remove_labels changes whether the program compiles",
                                  {"kind": "error_mismatch", "program": name, "source": src, "options": opts,
                                   "labelled": str(L.get("code", L.get("error")))[:300], "label_free": str(N.get("code", N.get("error")))[:300]})
                continue
            kinds["pairs"] += 1
            run.count("evaluations")
            for code, which in ((L["code"], "labelled"), (N["code"], "label-free")):
                for what in static_labels(code):
                    run.violation(f"{which} output: {what}",
                                  {"kind": "static", "which": which, "clash_kind": clash_kind(what, p), "problem": re.sub(r"line \d+: ", "", what)[:60], "program": name, "source": src, "options": opts,
                                   "code": code[:2500], "function_names": sorted(f.name for f in p.funcs) if p else None})
            glue_cases.append(f"({Parsed(L['code']).coq()} : @program float, {Parsed(_strip(N['code'])).coq()} : @program float)")
            glue_meta.append((name, src, opts, L["code"], N["code"], p))
            e1, _ = pipeline.region_entries(L)
            e2, _ = pipeline.region_entries(N)
            quads.append((L["code"], e1, N["code"], e2))
    # (b) glue: the label-free text is the renumbering of the labelled text
    try:
        bad = core.coq_mismatches("c05g", "From Coq Require Import PrimFloat.\nFrom PV Require Import IC10.Values IC10.Machine IC10.FloatAlg Valid.Resolve.",
                                  "fun c => match glue FloatAlg (fst c) (snd c) with None => true | Some _ => false end",
                                  glue_cases, shard=25)
    except core.CoqEvalError as e:
        run.obligation_broken("glue evaluation (resolve (parse labelled) = parse label-free)", str(e))
        bad = []
    # how many of the compiles are decided by the semantic theorem (call-free fragment + glue equality)?
    try:
        notfrag = core.coq_mismatches("c05f", "From Coq Require Import PrimFloat.\nFrom PV Require Import IC10.Values IC10.Machine IC10.FloatAlg Valid.Resolve Valid.ResolveSem.",
                                      "fun c => frag (fst c)", glue_cases, shard=25)
        notcalls = core.coq_mismatches("c05fc", "From Coq Require Import PrimFloat.\nFrom PV Require Import IC10.Values IC10.Machine IC10.FloatAlg Valid.Resolve.\nFrom PV Require Valid.ResolveCalls.",
                                       "fun c => ResolveCalls.frag (fst c)", glue_cases, shard=25)
        infrag = (set(range(len(glue_cases))) - set(notfrag)) | (set(range(len(glue_cases))) - set(notcalls))
        kinds["pairs_in_call_free_fragment"] = len(glue_cases) - len(notfrag)
        kinds["pairs_in_leaf_call_fragment"] = len(glue_cases) - len(notcalls)
        kinds["pairs_decided_by_semantic_theorem"] = len(infrag - set(bad))
    except core.CoqEvalError as e:
        run.note("fragment evaluation failed: " + str(e)[-200:])
    for i in bad:
        name, src, opts, lc, nc, p = glue_meta[i]
        d = first_text_diff(lc, nc)
        run.violation("the label-free output is not the line-for-line renumbering of the labelled output",
                      {"kind": "glue", "program": name, "source": src, "options": opts, "labelled": lc[:2500], "label_free": nc[:2500],
                       "first_difference": d, "clash_kind": dup_clash(lc, p), "function_names": sorted(f.name for f in p.funcs) if p else None})
    # dynamic: both outputs behave alike
    try:
        vs = diffrun.tgt_vs_tgt_guard(quads, pipeline.SEEDS[:2], fuel=pipeline.FT, name="c05d")
    except core.CoqEvalError as e:
        run.obligation_broken("pairwise machine execution", str(e))
        vs = []
    for (name, src, opts, lc, nc, p), verd in zip(glue_meta, vs):
        b = [t for t in verd if t[0] != 0]
        if b:
            run.violation("labelled and label-free outputs behave differently",
                          {"kind": "dynamic", "verdict": b[0][0], "clash_kind": dup_clash(lc, p), "program": name, "source": src, "options": opts,
                           "labelled": lc[:2500], "label_free": nc[:2500]})
    # (e) remove_unused_labels against its Coq model: labelled outputs (comment options included), variants with
    # extra / indented label lines and trailing comments, adversarial texts
    from .. import unused_labels
    ul_texts = list(unused_labels.ADVERSARIAL)
    seen_ul = set()
    for m in glue_meta:
        if m[3] not in seen_ul and len(seen_ul) < (60 if tier == "quick" else 600):
            seen_ul.add(m[3])
            ul_texts += unused_labels._variants(rng, m[3])
    for t in list(unused_labels.ADVERSARIAL):
        ul_texts += unused_labels._variants(rng, t)[1:]
    kinds["unused_label_texts"] = unused_labels.correspondence(run, ul_texts)
    for f in run.findings.open_for("C05"):
        if f["id"] not in run.known_hits:
            run.note(f"known finding {f['id']} did not reproduce in this run")
    run.cov["distinct_nontrivial"] = len({m[3] for m in glue_meta if "\n" in m[3] and ":" in m[3]})
    run.cov["traces_validated_against_impl"] = len(glue_meta)
    run.cov["rule"] = "programs whose function names come from adversarial families (prefixes of one another, '<name>end', '_'/'.' collisions, generated-label look-alikes, opcode/register look-alikes; the same names also used as device-name strings) plus the repository's programs; each compiled with labels kept and removed under 3-5 option variants; one evaluation = one (labelled, label-free) pair: static label check, glue equality in Coq, execution of both; non-trivial = labelled output contains a label"
    run.cov["input_distribution"] = kinds
    if glue_meta:
        run.sample({"labelled": glue_meta[0][3][:400], "label_free": glue_meta[0][4][:400]})
    return run.finish(assumptions_text=ass, trusted_extra=TRUST)


def clash_kind(what, p):
    """which of the two known naming collisions (if any) explains a doubly defined label"""
    m = re.search(r"label '([^']+)' is defined more than once", what)
    if not m or p is None:
        return None
    lab = m.group(1)
    fn_labels = {f.name.replace("_", ".") for f in p.funcs}
    if re.fullmatch(r"lb[a-z.]+\d+", lab) and lab in fn_labels:
        return "generated_label_lookalike"
    if lab.endswith("end") and lab in fn_labels and lab[:-3] in fn_labels:
        return "function_end_label"
    if lab in fn_labels and sum(1 for f in p.funcs if f.name.replace("_", ".") == lab) > 1:
        return "underscore_dot"
    return None


def dup_clash(labelled_code, p):
    P = Parsed(labelled_code)
    for d in P.dup_labels:
        k = clash_kind(f"label '{d}' is defined more than once", p)
        if k:
            return k
    if p is not None:
        from ..ic10 import enum_tables
        bare = enum_tables()[0]
        if any(f.name in bare for f in p.funcs):
            return "function_named_like_logic_type"
    return None


def _strip(code):
    return code


def first_text_diff(lc, nc):
    """reference renumbering in Python, for the replay text"""
    P = Parsed(lc)
    idx, n = {}, 0
    for ln in P.lines:
        if ln[0] == "label":
            idx[ln[1]] = n
        elif ln[0] == "instr":
            n += 1
    exp = []
    for ln in P.lines:
        if ln[0] == "instr":
            exp.append(" ".join([ln[1]] + [str(idx[t]) if t in idx else t for t in ln[2]]))
    got = [" ".join(tokenize(l)) for l in nc.split("\n") if tokenize(l)]
    for i, (a, b) in enumerate(zip(exp, got)):
        if a != b:
            return {"line": i, "expected": a, "emitted": b}
    if len(exp) != len(got):
        return {"line": min(len(exp), len(got)), "expected_lines": len(exp), "emitted_lines": len(got)}
    return None
