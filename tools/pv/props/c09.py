"""C09 — emitted text is loadable IC10."""
import re
from fractions import Fraction

from .. import core, gen, impl, progen
from ..ic10 import Parsed, tokenize, literal_value, enum_tables
from .sigtable import SIG

TRUST = [
    "IC10 signature table (coq/theories/IC10/Sig.v and its Python copy, one hand-written spec): opcodes, operand counts and kinds",
    "tools/pv/ic10.py token classes; the numeric-literal grammar accepted as IC10: -?digits(.digits)?, $HEX, %binary, HASH(\"..\"), STR(\"..\"), enum names",
    "hook PYTRAPIC_VERIF=1 exports the operand values the transpiler computed, against which literals are read back",
    "'%.16g' / fixed notation of CPython is taken as correctly rounded; read-back is checked with exact rationals",
]

FORBIDDEN = [(r"__register", "virtual register name"), (r"\bNone\b", "None"), (r"\bTrue\b|\bFalse\b", "Python bool"),
             (r"<[^>]*object at|<class|<function", "object repr"), (r"\bnan\b|\binf\b", "nan/inf"),
             (r"(?<![\w.$])-?\d+(\.\d+)?[eE][-+]?\d+", "exponent notation")]
REG = re.compile(r"r([0-9]|1[0-5])$|sp$|ra$")
DEV = re.compile(r"d[0-5]$|db$")
IDENT = re.compile(r"[A-Za-z_][A-Za-z0-9_.]*$")


def operand_ok(kind, tok, P):
    k, _ = P.classify(tok)
    if kind == "r":
        return k == "reg" or (k == "name")
    if kind == "d":
        return k in ("dev", "name", "reg", "num")
    if kind == "v":
        return k in ("reg", "num", "name", "lbl")
    if kind == "t":
        return k in ("lbl", "num", "reg", "name")
    if kind == "n":
        return bool(IDENT.match(tok))
    if kind == "x":
        return k in ("reg", "dev", "name")
    return False


def check_text(code):
    """-> list of (line_no, problem, class) for one emitted program text"""
    probs = []
    if code == "":
        return probs
    P = Parsed(code)
    lines = code.split("\n")
    for i, (raw, ln) in enumerate(zip(lines, P.lines)):
        body = raw.split("#")[0] if '"' not in raw else raw
        for pat, what in FORBIDDEN:
            if re.search(pat, _nocomment(raw)):
                probs.append((i, f"{what} in emitted line: {raw.strip()!r}", "spelling"))
        if ln[0] == "blank":
            if raw.strip() == "" or raw.strip().startswith("#"):
                if raw.strip() == "":
                    probs.append((i, "empty line", "blank"))
            continue
        if ln[0] == "label":
            if not IDENT.match(ln[1]):
                probs.append((i, f"malformed label {ln[1]!r}", "label"))
            continue
        op, args = ln[1], ln[2]
        sig = SIG.get(op)
        if sig is None:
            probs.append((i, f"'{op}' is not an IC10 instruction: {raw.strip()!r}", "opcode:" + op))
            continue
        if len(args) != len(sig):
            probs.append((i, f"'{op}' takes {len(sig)} operands, {len(args)} given: {raw.strip()!r}", "arity:" + op))
            continue
        for j, (kind, tok) in enumerate(zip(sig, args)):
            kk = P.classify(tok, op, j)[0]
            if kk == "bad" or not operand_ok(kind, tok, P):
                probs.append((i, f"operand {j + 1} of '{op}' ({tok!r}) is not a {_kind_name(kind)}: {raw.strip()!r}", "operand:" + kind))
    for name in P.dup_labels:
        probs.append((-1, f"label {name!r} defined more than once", "duplabel"))
    return probs


def _nocomment(raw):
    from ..ic10 import strip_comment
    return strip_comment(raw)


def _kind_name(k):
    return {"r": "register", "d": "device", "v": "value", "t": "jump target", "n": "name", "x": "register or device"}[k]


def check_readback(res):
    """literal operands vs the values the transpiler computed (hook)"""
    probs = []
    v = res.get("_verif") or {}
    final = v.get("final") or []
    code = res["code"]
    if code == "":
        return probs
    lines = [tokenize(l) for l in code.split("\n")]
    j = 0
    for fin in final:
        op = fin["op"].strip()
        # find the text line of this instruction
        k = j
        while k < len(lines) and not (lines[k] and lines[k][0] == op.split()[0] if op else False):
            k += 1
        if k >= len(lines):
            continue
        toks = lines[k]
        j = k + 1
        ins = fin["in"]
        off = 1 + (1 if fin.get("out") else 0)
        for n, operand in enumerate(ins):
            if off + n >= len(toks):
                break
            tok = toks[off + n]
            if "val" in operand and operand.get("type") in ("int", "float"):
                val = operand["val"]
                lit = literal_value(tok)
                if lit is None:
                    continue  # reported by the grammar check
                if isinstance(val, int) or float(val).is_integer():
                    iv = int(val)
                    ok = (Fraction(lit) == iv) if abs(iv) <= 2 ** 53 else abs(Fraction(lit) - iv) <= Fraction(abs(iv), 10 ** 15)
                else:
                    ok = abs(Fraction(str(lit) if False else lit) - Fraction(val)) <= abs(Fraction(val)) * Fraction(1, 10 ** 15)
                if not ok:
                    probs.append((k, f"literal {tok!r} does not read back as the computed value {val!r}", "readback"))
    return probs


def float_format_corr(run, tier):
    from stationeers_pytrapic.types import IC10Operand
    rng = run.rng
    vals = []
    for e in range(-320, 309, 3 if tier == "quick" else 1):
        for m in (1.0, 1.5, 9.999999999999999, 2.718281828459045, 1.0000000000000002):
            try:
                vals.append(m * 10.0 ** e)
            except OverflowError:
                pass
    vals += [0.1, 0.09999999999999999, 0.30000000000000004, 1 / 3, 2 / 3, 1e-5, 1.0000000000000001e-05, 123456.789, 99999.5,
             0.001, 5e-324, 2.2250738585072014e-308, 1e22 + 0.5, 4503599627370496.5, 0.5, -0.25, -1e-7, 1e16 - 1.0]
    vals += [rng.uniform(-1, 1) * 10 ** rng.randint(-12, 12) for _ in range(400 if tier == "quick" else 8000)]
    n = 0
    for v in vals:
        if v != v or v in (float("inf"), float("-inf")):
            continue
        try:
            s = IC10Operand(v).to_string()
        except Exception as e:
            run.violation(f"IC10Operand({v!r}).to_string() raised {type(e).__name__}", {"kind": "format", "value": repr(v), "error": repr(e)})
            continue
        n += 1
        lit = literal_value(s)
        bad = None
        if lit is None:
            bad = f"{s!r} is not an IC10 numeric literal"
        else:
            fv = Fraction(v)
            if float(v).is_integer() and abs(v) <= 2 ** 53:
                if Fraction(lit) != fv:
                    bad = f"{s!r} does not read back exactly"
            elif abs(Fraction(s.replace("$", "0x")) if False else Fraction(lit) - fv) > abs(fv) * Fraction(1, 10 ** 15):
                bad = f"{s!r} differs from the value beyond 16 significant digits"
        if bad:
            run.violation(f"literal for {v!r}: {bad}", {"kind": "format", "value": repr(v), "text": s,
                                                       "magnitude": "tiny" if abs(v) < 1e-300 else "normal"})
    return n


def main(tier, seed):
    run = core.Run("C09", tier, seed, "proof")
    core.setup_impl_import()
    ass = core.standard_proof_phase(run, "C09", lambda: (gen.gen_sites(), gen.gen_ops(), gen.gen_tables()), "PV.Props.C09")
    rng = run.rng
    progs = [(n, s) for n, s in impl.repo_programs()]
    progs += [(f"gen/{i}", p.text()) for i, p in enumerate(progen.generate(rng, 60 if tier == "quick" else 1200))]
    for f in sorted((core.VERIF / "corpus" / "c09").glob("*.py")):
        progs.append((f"corpus/c09/{f.stem}", f.read_text()))
    vectors = impl.pairwise_vectors()
    jobs, names = [], []
    for i, (name, src) in enumerate(progs):
        vs = vectors if tier == "thorough" else [vectors[(i + k) % len(vectors)] for k in range(3)]
        for v in vs:
            jobs.append((src, v))
            names.append(name)
    res = impl.compile_many(jobs)
    kinds = {}
    texts = []
    for (src, opts), r, name in zip(jobs, res, names):
        if "code" not in r:
            continue
        run.count("programs")
        code = r["code"]
        probs = check_text(code) + check_readback(r)
        # version note
        note = [l for l in code.split("\n") if "# Generated by PyTrapIC" in l]
        if opts["append_version"] and code and note:
            if len(note) != 1 or len(note[0]) > 90 or not re.search(r" # Generated by PyTrapIC v\S+$", note[0]):
                probs.append((0, f"version note malformed or line too long ({len(note[0])} chars): {note[0]!r}", "note"))
        if not opts["append_version"] and note:
            probs.append((0, "version note although append_version is off", "note"))
        for ln, what, cls in probs:
            kinds[cls.split(":")[0]] = kinds.get(cls.split(":")[0], 0) + 1
            run.violation(what, {"kind": "grammar", "class": cls, "line": ln, "program": name, "options": opts,
                                 "source": src, "code": code[:3000]})
        texts.append(code)
    # kernel-evaluated well-formedness of the parsed programs (a sample)
    sample = [t for t in dict.fromkeys(texts) if t][: (80 if tier == "quick" else 1500)]
    try:
        bad = core.coq_mismatches("c09wf", "From Coq Require Import PrimFloat.\nFrom PV Require Import IC10.Values IC10.Machine Valid.WfCode.",
                                  "fun p => wf_program p", [f"({Parsed(t).coq()} : @program float)" for t in sample], shard=25)
    except core.CoqEvalError as e:
        run.obligation_broken("wf_program evaluation", str(e))
        bad = []
    for i in bad:
        t = sample[i]
        if not check_text(t):
            run.violation("wf_program (Coq) rejects a text the grammar check accepts",
                          {"kind": "correspondence", "code": t[:2000]}, no_input=True)
    n3 = float_format_corr(run, tier)
    for f in run.findings.open_for("C09"):
        if f["id"] not in run.known_hits:
            run.note(f"known finding {f['id']} did not reproduce in this run")
    run.cov["evaluations"] = len(texts) + n3
    run.cov["distinct_nontrivial"] = len(set(texts))
    run.cov["traces_validated_against_impl"] = len(texts)
    run.cov["rule"] = "every line of every successful compile (repository + corpus + generated programs x option vectors) against the signature table, forbidden spellings, literal read-back against the hook's operand values, version note; plus IC10Operand.to_string on a float grid (all decades 1e-320..1e308, neighbours, random) read back with exact rationals"
    run.cov["input_distribution"] = {"problem_classes": kinds, "float_literals": n3, "wf_sample": len(sample)}
    if texts:
        run.sample({"code": texts[0][:300]})
    return run.finish(assumptions_text=ass, trusted_extra=TRUST)
