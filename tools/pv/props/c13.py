"""C13 — library modules behave like the same code written in the main file."""
import copy
import json
import re

from .. import core, gen, impl, progen, pipeline, diffrun

TRUST = [
    "IC10/Machine.v, Src/Sem.v (trusted semantics); the split and the merged program are printed from one syntax tree by the harness (tools/pv/props/c13.py)",
    "equivalence is decided per pair by differential execution (split vs source semantics, merged vs source semantics, split vs merged): bounded, sampled",
]

MODNAMES = ["lib", "m", "util", "a", "solar"]
ALIASES = [None, None, "L", "x", "helpers"]
# (first module, its alias, second module, its alias): aliases spelled like the other module's file name
PAIRS = [("pump_v2", "pump", "pump", "legacy"), ("a", "b", "b", "a"), ("lib", None, "m", "lib2"), ("util", "m", "m", "u"),
         ("solar", None, "solar_2", "sol"), ("x", "y", "y", "z")]


def rename(node, vmap, fmap):
    """rename variables / called functions in a statement or expression tree"""
    if isinstance(node, list):
        return [rename(x, vmap, fmap) for x in node]
    if not isinstance(node, tuple) or not node:
        return node
    k = node[0]
    if k == "var":
        return ("var", vmap.get(node[1], node[1]))
    if k == "call":
        return ("call", fmap.get(node[1], node[1]), rename(node[2], vmap, fmap))
    if k in ("assign",):
        return ("assign", vmap.get(node[1], node[1]), rename(node[2], vmap, fmap))
    if k == "aug":
        return ("aug", vmap.get(node[1], node[1]), node[2], rename(node[3], vmap, fmap))
    if k in ("forrange", "forlist"):
        return (k, vmap.get(node[1], node[1]), rename(node[2], vmap, fmap) if k == "forrange" else node[2], rename(node[3], vmap, fmap))
    if k == "if":
        return ("if", [(rename(c, vmap, fmap), rename(b, vmap, fmap)) for c, b in node[1]], rename(node[2], vmap, fmap) if node[2] is not None else None)
    if k in ("read", "effect"):
        return (k, node[1], node[2], rename(node[3], vmap, fmap))
    if k == "index":
        return ("index", node[1], rename(node[2], vmap, fmap))
    return tuple([k] + [rename(x, vmap, fmap) if isinstance(x, (tuple, list)) else x for x in node[1:]])


class Split:
    """one program in three renderings: Src tree (unique names), split texts, merged text"""

    def __init__(self, rng):
        self.rng = rng
        g = progen.Gen(rng, progen.Profile(max_stmts=4, for_list=False, const_lists=False))
        P = g.P
        self.mod = rng.choice(MODNAMES)
        self.alias = rng.choice(ALIASES)
        nlib = rng.randint(1, 2)
        # library globals (unique internal names LG0..), initialised by the library's top level
        self.lib_globals = [f"LG{i}" for i in range(nlib)]
        self.lib_init = []
        sc0 = {"fn": None, "readable": [], "writable": [], "frozen": set(), "callable": []}
        for v in self.lib_globals:
            P.globals.append(v)
            self.lib_init.append(("assign", v, g.expr(sc0, 1)))
            sc0["readable"].append(v)
        P.globals_initial = list(self.lib_globals)
        nf = rng.randint(1, 3)
        for i in range(nf):
            f = g.function(i, list(P.funcs))
            f.name = f"LF{i}"
            P.funcs.append(f)
        # optionally a second library with state of its own (one global that its function updates)
        self.second = rng.random() < 0.5
        self.lib2_fn = None
        if self.second:
            self.mod, self.alias, self.mod2, self.alias2 = rng.choice(PAIRS)
            P.globals.append("LH0")
            self.lib2_init = [("assign", "LH0", ("num", rng.randint(1, 9)))]
            f = progen.Fn("LK0", 1)
            f.globals_written = ["LH0"]
            f.body = [("assign", "LH0", ("bin", "+", ("var", "LH0"), ("var", "p0"))), ("return", ("bin", "*", ("var", "LH0"), ("num", 2)))]
            f.returns_value = True
            f.calls = 2
            P.funcs.append(f)
            self.lib2_fn = f
        else:
            self.lib2_init = []
        # optionally one function that lives in the main file (it may call into the libraries; it reads no library variable)
        self.main_fn = None
        if rng.random() < 0.5:
            saved = P.globals_initial
            P.globals_initial = []
            f = g.function(len(P.funcs), [x for x in P.funcs])
            P.globals_initial = saved
            f.name = "MF0"
            f.calls = 2
            P.funcs.append(f)
            self.main_fn = f
        # main: its own globals (some spelled like the library's), calls into the library
        sc = {"fn": None, "readable": [], "writable": [], "frozen": set(), "callable": list(P.funcs)}
        body = g.block(sc, rng.randint(2, 5), 2)
        for f in [x for x in (self.lib2_fn, self.main_fn) if x is not None]:
            for _ in range(2):
                call = ("call", f.name, [g.num() for _ in range(f.nparams)])
                st = ("effect", "EKs", "db.Setting = {3}", [("num", 0), ("num", 6), ("num", progen.LT("Setting")), call]) if f.returns_value else ("expr", call)
                body.insert(rng.randint(0, len(body)), st)
        for f in P.funcs:
            if f.calls < 2 and rng.random() < 0.7 or f.calls == 0:
                f.calls += 1
                call = ("call", f.name, [g.num() for _ in range(f.nparams)])
                if f.returns_value:
                    body.append(("effect", "EKs", "db.Setting = {3}", [("num", 0), ("num", 6), ("num", progen.LT("Setting")), call]))
                else:
                    body.append(("expr", call))
        if rng.random() < 0.6:
            body.append(("while", ("num", 1), [("effect", "EKyield", "yield_()", [])] + g.block(sc, rng.randint(0, 2), 1, in_loop=True)))
        self.main_body = body
        P.main = self.lib_init + self.lib2_init + body
        self.P = P
        self.main_globals = [v for v in P.globals if v not in self.lib_globals and v != "LH0"]
        # spelling
        self.lib_names = {v: f"gm{i}" for i, v in enumerate(self.lib_globals)}
        self.fn_names = {f.name: rng.choice([f"f{i}", f"calc_{i}", f"upd{i}"]) for i, f in enumerate(P.funcs)}
        if self.lib2_fn is not None:
            self.fn_names["LK0"] = rng.choice(["step", "bump", "f0"])
        if self.main_fn is not None:
            self.fn_names["MF0"] = rng.choice(["scaled", "mainfn", "f0"])
        self.main_names = {}
        for i, v in enumerate(self.main_globals):
            # provoke collisions between a main-level name and a library-level name
            self.main_names[v] = self.lib_names[self.lib_globals[0]] if (i == 0 and rng.random() < 0.5) else v

    def src_prog(self):
        return self.P

    def _fn_text(self, f, vmap, fmap, name):
        Q = progen.Prog()
        f2 = progen.Fn(name, f.nparams)
        f2.locals = list(f.locals)
        f2.globals_written = [vmap.get(x, x) for x in f.globals_written]
        f2.body = rename(f.body, vmap, fmap)
        Q.funcs = [f2]
        return Q.text()

    def split(self):
        vm_lib = dict(self.lib_names)
        fm_lib = dict(self.fn_names)
        lib = []
        Q = progen.Prog()
        Q.main = rename(self.lib_init, vm_lib, fm_lib)
        lib.append(Q.text())
        for f in self.P.funcs:
            if f is self.lib2_fn or f is self.main_fn:
                continue
            lib.append(self._fn_text(f, vm_lib, fm_lib, self.fn_names[f.name]))
        # never-called function and a __main__ block: must contribute nothing
        lib.append("def never_called(q):\n    d5.Setting = q + 12345\n    return q\n")
        lib.append('if __name__ == "__main__":\n    d4.Setting = 777\n    never_called(3)\n')
        al = self.alias or self.mod
        fm_main = {k: f"{al}.{v}" for k, v in self.fn_names.items()}
        mods = {}
        imp = f"from library import {self.mod}" + (f" as {self.alias}" if self.alias else "") + "\n"
        if self.lib2_fn is not None:
            al2 = self.alias2 or self.mod2
            fm_main["LK0"] = f"{al2}.{self.fn_names['LK0']}"
            imp += f"from library import {self.mod2}" + (f" as {self.alias2}" if self.alias2 else "") + "\n"
            Q2 = progen.Prog()
            Q2.main = rename(self.lib2_init, {"LH0": "state"}, {})
            mods[self.mod2] = Q2.text() + self._fn_text(self.lib2_fn, {"LH0": "state"}, {}, self.fn_names["LK0"])
        fn_text = ""
        if self.main_fn is not None:
            fm_main["MF0"] = self.fn_names["MF0"]
            fn_text = self._fn_text(self.main_fn, dict(self.main_names), fm_main, self.fn_names["MF0"])
        Q = progen.Prog()
        Q.devvars = list(self.P.devvars)
        Q.main = rename(self.main_body, dict(self.main_names), fm_main)
        mods[""] = imp + fn_text + Q.text()
        mods[self.mod] = "".join(lib)
        return mods

    def merged(self):
        pre = self.mod + "_"
        vm = {k: pre + v for k, v in self.lib_names.items()}
        vm.update(self.main_names)
        fm = {k: pre + v for k, v in self.fn_names.items()}
        if self.lib2_fn is not None:
            vm["LH0"] = self.mod2 + "__state"
            fm["LK0"] = self.mod2 + "__" + self.fn_names["LK0"]
        if self.main_fn is not None:
            fm["MF0"] = self.fn_names["MF0"]
        Q = progen.Prog()
        Q.devvars = list(self.P.devvars)
        for f in self.P.funcs:
            f2 = progen.Fn(fm[f.name], f.nparams)
            f2.locals = list(f.locals)
            f2.globals_written = [vm.get(x, x) for x in f.globals_written]
            f2.body = rename(f.body, vm, fm)
            Q.funcs.append(f2)
        Q.main = rename(self.lib_init + self.lib2_init + self.main_body, vm, fm)
        return Q.text()


def main(tier, seed):
    run = core.Run("C13", tier, seed, "translation_validation")
    core.setup_impl_import()
    ass = core.standard_proof_phase(run, "C13", gen.gen_skeletons, "PV.Props.C13", extra_targets=["theories/Valid/Diff.vo"])
    rng = run.rng
    n = 40 if tier == "quick" else 500
    splits = []
    for i in range(n):
        try:
            splits.append(Split(rng))
        except Exception as e:      # generator hiccup: skip
            run.note(f"generator skipped one case: {e!r}")
    vns = ["default", "noinline", "compact", "pushpop", "tail"]
    jobs, meta = [], []
    for i, s in enumerate(splits):
        for vn in ([vns[i % 5], vns[(i + 2) % 5]] if tier == "quick" else vns):
            jobs.append((s.split(), pipeline.VECTORS[vn])); meta.append((i, vn, "split"))
            jobs.append((s.merged(), pipeline.VECTORS[vn])); meta.append((i, vn, "merged"))
    res = impl.compile_many(jobs)
    kinds = {"pairs": 0, "both_error": 0, "one_error": 0}
    cases_split, cases_merged, quads, qmeta = [], [], [], []
    for k in range(0, len(jobs), 2):
        i, vn, _ = meta[k]
        a, b = res[k], res[k + 1]
        s = splits[i]
        if "code" not in a and "code" not in b:
            kinds["both_error"] += 1
            continue
        run.count("evaluations")
        if ("code" in a) != ("code" in b):
            kinds["one_error"] += 1
            ea = a.get("error", {}).get("description", str(a))[:300] if "code" not in a else None
            eb = b.get("error", {}).get("description", str(b))[:300] if "code" not in b else None
            if "Running out of registers" in str(ea or eb):
                kinds["registers"] = kinds.get("registers", 0) + 1
                continue
            run.violation("the split program and the merged single-file program do not both compile",
                          {"kind": "error_mismatch", "option_set": vn, "split": jobs[k][0], "merged": jobs[k + 1][0], "split_error": ea, "merged_error": eb})
            continue
        kinds["pairs"] += 1
        ca = pipeline.Case(f"split/{i}", s.src_prog(), vn, pipeline.VECTORS[vn], a)
        cb = pipeline.Case(f"merged/{i}", s.src_prog(), vn, pipeline.VECTORS[vn], b)
        cases_split.append(ca); cases_merged.append(cb)
        e1, _ = pipeline.region_entries(a)
        e2, _ = pipeline.region_entries(b)
        quads.append((a["code"], e1, b["code"], e2)); qmeta.append((i, vn, jobs[k][0], jobs[k + 1][0], a, b))
        # uncalled library function / __main__ block contribute nothing
        for marker, what in (("12345", "a library function that is never called"), ("777", "the library's __main__ block")):
            import re as _re
            if _re.search(r"(?<![\w.$-])" + marker + r"(?![\w.])", a["code"]):
                run.violation(f"{what} contributes instructions", {"kind": "dead_code", "option_set": vn, "split": jobs[k][0], "code": a["code"]})
    try:
        pipeline.diff_cases(cases_split + cases_merged, name="c13s")
    except core.CoqEvalError as e:
        run.obligation_broken("differential execution", str(e))
    for c in cases_split + cases_merged:
        b = pipeline.bad_verdict(c) if c.verdicts else None
        if b:
            rec = pipeline.describe(c, *b, with_traces=False)
            rec["kind"] = "trace"
            rec["which"] = c.name.split("/")[0]
            rec["push_pop"] = c.opts["use_push_pop_functions"]
            rec["tail_call"] = c.opts["tail_call_optimization"]
            from .c02 import tail_after_call
            rec["tail_after_call"] = tail_after_call(c.result)
            if run.classify(rec) is None:
                rec2 = pipeline.describe(c, *b, with_traces=True)
                rec2.update({k2: rec[k2] for k2 in ("kind", "which", "push_pop", "tail_call", "tail_after_call")})
                rec = rec2
            i = int(c.name.split("/")[1])
            rec["split_sources"] = splits[i].split()
            run.violation(f"the {rec['which']} program does not behave like the source", rec)
    try:
        vs = diffrun.tgt_vs_tgt_guard(quads, pipeline.SEEDS[:2], fuel=pipeline.FT, name="c13p")
    except core.CoqEvalError as e:
        run.obligation_broken("pairwise machine execution", str(e))
        vs = []
    for (i, vn, ssrc, msrc, a, b), verd in zip(qmeta, vs):
        bad = [t for t in verd if t[0] != 0]
        if bad:
            from .c02 import tail_after_call
            run.violation("split and merged programs behave differently",
                          {"kind": "pair", "verdict": bad[0][0], "option_set": vn, "split": ssrc, "merged": msrc,
                           "split_code": a["code"], "merged_code": b["code"], "push_pop": pipeline.VECTORS[vn]["use_push_pop_functions"],
                           "tail_call": pipeline.VECTORS[vn]["tail_call_optimization"],
                           "tail_after_call": tail_after_call(a) or tail_after_call(b),
                           "tail_end_label_unterminated": pipeline.VECTORS[vn]["tail_call_optimization"] and (pipeline.end_label_unterminated(a) or pipeline.end_label_unterminated(b))})
    # label naming across modules: '<module>.<function>' for library functions and '_' -> '.' for every
    # function name, so the main-file function lib_f0 and the function f0 of library lib get the same label
    from .c05 import static_labels
    lib = "def f0(p0):\n    return p0 * 2\n"
    mainsrc = ("from library import lib\ndef lib_f0(x):\n    return x + 100\ndb.Setting = lib.f0(d0.On)\ndb.Setting = lib.f0(3)\n"
               "d1.Setting = lib_f0(d0.On)\nd1.Setting = lib_f0(4)\nwhile True:\n    yield_()\n")
    wr_ = impl.compile_one(({"": mainsrc, "lib": lib}, pipeline.VECTORS["noinline"]))
    run.count("evaluations")
    if "code" in wr_:
        for what in static_labels(wr_["code"]):
            run.violation("library program: " + what,
                          {"kind": "label_clash", "clash": "module_function_vs_underscore_name" if "lib.f0" in what else "other",
                           "split": {"": mainsrc, "lib": lib}, "code": wr_["code"]})
    # compile-time functions of the same name in the main file and in libraries: each module's calls are answered by
    # its own function, exactly as in the merged single file where the library's function carries the module prefix
    split_c = {"": "from library import lib\nfrom library import other as o\n@constexpr\ndef scale(x):\n    return x * 2\nd0.Setting = scale(5)\nlib.show()\no.show()\nwhile True:\n    yield_()\n",
               "lib": "@constexpr\ndef scale(x):\n    return x * 3\ndef show():\n    d1.Setting = scale(5)\n",
               "other": "@constexpr\ndef scale(x):\n    return x + 100\ndef show():\n    d2.Setting = scale(5)\n"}
    merged_c = ("@constexpr\ndef scale(x):\n    return x * 2\n@constexpr\ndef lib_scale(x):\n    return x * 3\n@constexpr\ndef other_scale(x):\n    return x + 100\n"
                "def lib_show():\n    d1.Setting = lib_scale(5)\ndef other_show():\n    d2.Setting = other_scale(5)\n"
                "d0.Setting = scale(5)\nlib_show()\nother_show()\nwhile True:\n    yield_()\n")
    for vn in ("default", "noinline"):
        a_ = impl.compile_one((split_c, pipeline.VECTORS[vn]))
        b_ = impl.compile_one((merged_c, pipeline.VECTORS[vn]))
        run.count("evaluations")
        if "Timeout during evaluating constexpr" in json.dumps([a_.get("error"), b_.get("error")], default=str):
            run.count("inconclusive_constexpr_timeouts")
            continue
        def stores(r_):
            return sorted(re.findall(r"s (d\d) Setting (\S+)", r_.get("code", "")))
        if "code" not in a_ or "code" not in b_ or stores(a_) != stores(b_) or stores(a_) != [("d0", "10"), ("d1", "15"), ("d2", "105")]:
            run.violation("compile-time functions of the same name in different modules: the split program does not store what the merged program stores",
                          {"kind": "constexpr_namespaces", "option_set": vn, "split": split_c, "merged": merged_c,
                           "split_result": str(a_.get("code", a_.get("error")))[:800], "merged_result": str(b_.get("code", b_.get("error")))[:800]})
    for f in run.findings.open_for("C13"):
        if f["id"] not in run.known_hits:
            run.note(f"known finding {f['id']} did not reproduce in this run")
    run.cov["programs"] = kinds["pairs"]
    run.cov["disagreements_checked"] = sum(1 for v in vs if any(t[0] != 0 for t in v))
    run.cov["distinct_nontrivial"] = len({q[0] for q in quads})
    run.cov["rule"] = "generated programs with 1-3 library functions and 1-2 library globals (functions may write them through `global`), a never-called library function and a __main__ block; main-level names may collide with library-level names; module imported with or without alias; the split rendering and the merged rendering (module-name prefix) are compiled under 2-5 option sets, each executed against the source semantics and against each other"
    run.cov["input_distribution"] = kinds
    if qmeta:
        run.sample({"split": qmeta[0][2], "merged": qmeta[0][3][:600]})
    return run.finish(assumptions_text=ass, trusted_extra=TRUST)
