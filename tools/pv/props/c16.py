"""C16 — device, enum and instruction tables are internally consistent (exhaustive)."""
import zlib

from .. import core, gen

TRUST = [
    "IC10 signature table coq/theories/IC10/Sig.v (hand-written from the IC10 reference)",
    "CRC-32 model Base/CRC32.v (compared with zlib.crc32 on every run)",
    "translator tools/pyt2coq/tables.py, cross-checked by reflection against the imported package on every run",
]


def signed(c):
    return c - (1 << 32) if c >= (1 << 31) else c


class Dummy:
    def __init__(self, n): self.n = n


def reflect(run, tabs):
    """Independent re-check on the live objects + cross-check of the translator."""
    import stationeers_pytrapic.structures_generated as SG
    import stationeers_pytrapic.types_generated as TG
    import stationeers_pytrapic.intrinsics as INTR
    import stationeers_pytrapic.types as T
    n = 0
    # enums
    for name, members in tabs["enums"]:
        E = getattr(TG, name)
        live = [(m.name, int(m.value)) for m in E.__members__.values()]
        if live != [(a, b) for a, b in members]:
            # aliases (duplicate values) show up as a difference between __members__ and iteration
            run.violation(f"translator/implementation differ on enum {name}", {"kind": "translator", "table": "enum", "name": name}, no_input=True)
        # the name printed in verbose mode and the number printed in compact mode denote the same member
        import stationeers_pytrapic.utils as U
        saved = U._output_mode
        try:
            for mem in E.__members__.values():
                U.set_output_mode(U.OutputMode.VERBOSE)
                tv = U.format_enum(mem)
                U.set_output_mode(U.OutputMode.COMPACT)
                tc = U.format_enum(mem)
                if isinstance(tv, str):
                    cls_, _, mname = tv.rpartition(".")
                    owner = getattr(TG, cls_, None) if cls_ else E
                    denoted = int(owner.__members__[mname].value) if owner is not None and mname in owner.__members__ else None
                else:
                    denoted = tv
                if not (isinstance(tc, int) and tc == int(mem.value) and denoted == int(mem.value)):
                    run.violation(f"enum member {name}.{mem.name} (= {int(mem.value)}) is printed as {tv!r} in verbose mode (denotes {denoted}) and {tc!r} in compact mode",
                                  {"kind": "enum_print", "name": name, "member": mem.name, "value": int(mem.value), "verbose": tv, "compact": tc, "verbose_denotes": denoted})
        finally:
            U.set_output_mode(saved)
        seen = {}
        for m, v in live:
            if v in seen:
                run.violation(f"enum {name}: {seen[v]} and {m} share the number {v}",
                              {"kind": "enum", "name": name, "members": [seen[v], m], "value": v})
            seen[v] = m
            n += 1
    # structures
    classes = {c["name"]: c for c in tabs["classes"]}
    plural_targets = {}
    for c in tabs["classes"]:
        if c["hash"] is None:
            continue
        cls = getattr(SG, c["name"])
        n += 1
        if cls._hash != c["hash"] or cls._prefab_name != c["prefab"]:
            run.violation(f"translator/implementation differ on class {c['name']}",
                          {"kind": "translator", "table": "class", "name": c["name"]}, no_input=True)
        want = signed(zlib.crc32(cls._prefab_name.encode()))
        if cls._hash != want:
            run.violation(f"{c['name']}._hash = {cls._hash} is not the signed CRC-32 of '{cls._prefab_name}' ({want})",
                          {"kind": "hash", "name": c["name"], "stored": cls._hash, "crc": want, "prefab": cls._prefab_name})
        if issubclass(cls, T._BaseStructures):
            inst = cls("nm")
            tgt = None
            for m in ("Average", "Minimum", "Maximum", "Sum"):
                r = getattr(inst, m)
                if isinstance(r, T._BaseStructure):
                    bm = r._batch_mode
                    if bm is None or bm.name != m or r._name != "nm":
                        run.violation(f"{c['name']}.{m} does not select batch method {m}",
                                      {"kind": "plural", "name": c["name"], "method": m})
                    if type(r)._hash != cls._hash or type(r)._prefab_name != cls._prefab_name:
                        run.violation(f"{c['name']}.{m} yields {type(r).__name__} with a different hash",
                                      {"kind": "plural", "name": c["name"], "method": m})
                    tgt = type(r).__name__
                elif isinstance(r, T._DevicesLogicType) and r._logic_type.name == m:
                    pass  # logic type of the same name shadows the batch method
                else:
                    run.violation(f"{c['name']}.{m} is neither a batch device nor the logic type {m}",
                                  {"kind": "plural", "name": c["name"], "method": m})
            if tgt is None:
                run.violation(f"{c['name']} has no batch property leading to a singular class",
                              {"kind": "plural", "name": c["name"], "method": "*"})
            else:
                plural_targets.setdefault(tgt, []).append(c["name"])
            if type(inst["x"]) is not cls or inst["x"]._name != "x":
                run.violation(f"{c['name']}[name] does not give the named plural form",
                              {"kind": "plural", "name": c["name"], "method": "__getitem__"})
            sname = c["name"][1:]
            if not isinstance(getattr(SG, sname, None), cls):
                run.violation(f"no module-level singleton {sname} of class {c['name']}",
                              {"kind": "plural", "name": c["name"], "method": "singleton"})
        else:
            inst = cls("d0")
            if inst._dev_id._id != "d0":
                run.violation(f"{c['name']}('d0') does not address d0", {"kind": "singular", "name": c["name"]})
        # properties
        for pname, kind in c["props"]:
            k = kind.split(" ", 1)[0]
            if k == "PAlias" or k == "PSlot":
                v = getattr(inst, pname)
                target = pname if k == "PSlot" else kind.split('"')[1]
                num = int(target[4:]) if target.startswith("slot") and target[4:].isdigit() else None
                if num is None or int(v._slot_index) != num:
                    run.violation(f"{c['name']}.{pname} resolves to slot index {getattr(v, '_slot_index', None)}, expected {target}",
                                  {"kind": "slot", "name": c["name"], "prop": pname})
            elif k == "PLogic":
                v = getattr(inst, pname)
                lt = v._logic_type
                if getattr(lt, "name", lt) != pname:
                    run.violation(f"{c['name']}.{pname} carries logic type {lt}",
                                  {"kind": "logic", "name": c["name"], "prop": pname})
    for sname, c in classes.items():
        if c["hash"] is not None and not c["name"].startswith("_"):
            if len(plural_targets.get(sname, [])) != 1:
                run.violation(f"singular class {sname} has {len(plural_targets.get(sname, []))} plural forms",
                              {"kind": "singular", "name": sname})
    # intrinsics
    from .sigtable import SIG
    for name, op, params, ins, out in tabs["intrinsics"]:
        fn = getattr(INTR, name)
        args = [Dummy(i) for i in range(len(params))]
        r = fn(*args)
        n += 1
        got_ops = [o.value.n if isinstance(o.value, Dummy) else None for o in r.inputs]
        live = (r.op, got_ops, r.output is not None)
        if live != (op, [params.index(p) if p in params else None for p in ins], out):
            run.violation(f"translator/implementation differ on intrinsic {name}",
                          {"kind": "translator", "table": "intrinsic", "name": name}, no_input=True)
        sig = SIG.get(r.op)
        problems = []
        if r.op != name.rstrip("_"):
            problems.append(f"emits '{r.op}'")
        if got_ops != list(range(len(params))):
            problems.append(f"operands {got_ops} are not the parameters in order")
        if sig is None:
            problems.append("opcode is not an IC10 instruction")
        else:
            has_out = bool(sig) and sig[0] == "r"
            if has_out != (r.output is not None):
                problems.append(f"instruction {'has' if has_out else 'has no'} output register but the wrapper {'yields' if r.output is not None else 'yields no'} result")
            if len(r.inputs) + (1 if r.output is not None else 0) != len(sig):
                problems.append(f"{len(r.inputs) + (1 if r.output is not None else 0)} operands, instruction takes {len(sig)}")
        if problems:
            run.violation(f"intrinsic {name}: " + "; ".join(problems),
                          {"kind": "intrinsic", "name": name, "emitted": f"{r.op} out={r.output is not None} n_inputs={len(r.inputs)}",
                           "signature": sig})
    return n


def main(tier, seed):
    run = core.Run("C16", tier, seed, "proof")
    core.setup_impl_import()
    tabs = {}

    def g():
        tabs.update(gen.gen_tables())
    ass = core.standard_proof_phase(run, "C16", g, "PV.Props.C16",
                                    extra_targets=["theories/Props/C16_findings.vo"] )
    if run.build_failure and "C16_findings" in str(run.build_failure[0]) :
        # the refutation of a known finding no longer compiles: information only
        run.note("C16_findings.v no longer compiles: a known finding no longer reproduces in the model")
        run.build_failure = None
    if not tabs:
        try:
            from pyt2coq import tables
        except Exception:
            pass
    rows = 0
    if tabs:
        try:
            rows = reflect(run, tabs)
        except Exception as e:
            run.obligation_broken("reflection cross-check of the translator", repr(e))
        run.cov["rows_checked_by_reflection"] = rows
        run.cov["table_sizes"] = {"enums": len(tabs["enums"]), "enum_members": sum(len(m) for _, m in tabs["enums"]),
                                  "classes": len(tabs["classes"]),
                                  "structure_classes": sum(1 for c in tabs["classes"] if c["hash"] is not None),
                                  "intrinsics": len(tabs["intrinsics"]), "instructions": len(tabs["instructions"])}
        run.sample({"class": tabs["classes"][100]["name"], "hash": tabs["classes"][100]["hash"],
                    "prefab": tabs["classes"][100]["prefab"]})
        run.sample({"intrinsic": tabs["intrinsics"][46][:2]})
    # CRC model vs zlib
    rng = run.rng
    strs = ["", "a", "StructureAccessBridge"] + ["".join(chr(rng.randint(32, 126)) for _ in range(rng.randint(1, 40)))
                                                 for _ in range(200 if tier == "quick" else 3000)]
    cases = [f"({core.coq_N_list(s.encode())}, {zlib.crc32(s.encode())}%N)" for s in strs]
    try:
        bad = core.coq_mismatches("c16crc", "From PV Require Import Base.CRC32.",
                                  "fun c => N.eqb (crc32_bytes (fst c)) (snd c)", cases, shard=400)
        for i in bad:
            run.violation("CRC-32 model differs from zlib.crc32", {"kind": "correspondence", "string": strs[i]}, no_input=True)
    except core.CoqEvalError as e:
        run.obligation_broken("CRC model evaluation", str(e))
    run.cov["evaluations"] = rows + len(cases)
    run.cov["distinct_nontrivial"] = rows
    run.cov["exhaustive"] = True
    run.cov["rule"] = "every row of every regenerated table (structure classes, properties, singletons, enum members, intrinsic wrappers); a row is one class / member / wrapper"
    return run.finish(assumptions_text=ass, trusted_extra=TRUST)
