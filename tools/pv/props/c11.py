"""C11 — a compilation's result does not depend on what was compiled before."""
import copy
import dataclasses
import json
import multiprocessing as mp

from .. import core, gen, impl, progen

SPECIAL_FROM = 0
LISTS_FROM = 0

TRUST = [
    "Model/GlobalState.v: the compiler proper is an oracle that uses the constexpr evaluator only by calling it (hypothesis comp_ext); the evaluator is deterministic",
    "translator tools/pyt2coq/globals_.py (inventory of module-level mutable state: rebound globals, mutated containers, attribute writes through module objects)",
    "mutable state held in objects (device singletons of types.py / structures_generated.py) is not inventoried statically; it is covered by the history runs (module state snapshots, fresh-process comparison)",
]


def strip(r):
    if isinstance(r, dict):
        r = {k: v for k, v in r.items() if k not in ("_verif", "wall")}
        if isinstance(r.get("error"), dict):
            r["error"] = {k: v for k, v in r["error"].items() if k != "stack_trace"}
    return r


def fresh_one(job):
    core.setup_impl_import()
    from stationeers_pytrapic.compiler import compile_code
    from stationeers_pytrapic.compile_pass import CompileOptions
    src, opts = job
    try:
        return strip(json.loads(json.dumps(compile_code(src, CompileOptions(**opts)), default=repr)))
    except BaseException as e:  # noqa
        return {"raised": repr(e)}


def serve_history(reqs):
    """serve all requests in THIS (forked) process, in order; returns per request:
    (result, options_before, options_after, source_before, source_after, state snapshot)"""
    core.setup_impl_import()
    from stationeers_pytrapic.compiler import compile_code
    from stationeers_pytrapic.compile_pass import CompileOptions
    from stationeers_pytrapic import utils
    out = []
    for src, opts in reqs:
        o = CompileOptions(**opts)
        before = dataclasses.asdict(o)
        s_in = copy.deepcopy(src)
        s_before = copy.deepcopy(s_in)
        try:
            r = strip(json.loads(json.dumps(compile_code(s_in, o), default=repr)))
        except BaseException as e:  # noqa
            r = {"raised": repr(e)}
        out.append({"result": r, "opt_before": before, "opt_after": dataclasses.asdict(o),
                    "src_unchanged": s_in == s_before,
                    "state": {"mode": int(utils._output_mode), "cache": len(utils._eval_constexpr_cache),
                              "hashes": len(utils._all_hashes)}})
    return out


def request_pool(rng, tier):
    pool = []
    V = impl.vec
    base_srcs = ["db.Setting = d0.Setting + 1\n",
                 "x = HASH('Some Name')\ndb.Setting = x\nWallLights['Main Light'].On = LogicType.On\n",
                 "def f(a):\n    return a * 2\ndb.Setting = f(d0.On)\ndb.Setting = f(3)\n",
                 "@constexpr\ndef g(a):\n    return a * 7\ndb.Setting = g(6)\n",
                 "@constexpr\ndef g(a):\n    return a + 1\ndb.Setting = g(6)\n",
                 "db.Setting = 123456 + d0.On\nd1.Setting = 1298920475\n",
                 "def broken(:\n", "db.Setting = undefined_name\n", "while True:\n    yield_()\n    db.Setting = d0.Temperature\n"]
    for s in base_srcs:
        for c in (False, True):
            pool.append((s, V(compact=c, append_version=False)))
    # pragma-carrying sources with caller options that the pragmas contradict
    for tag, opt in [("compact", "compact"), ("no-inline-functions", "inline_functions"), ("remove-labels", "remove_labels"),
                     ("no-append-version", "append_version"), ("generated-comments, original-code-as-comment", "generated_comments")]:
        pool.append((f"# pytrapic: {tag}\ndef f(a):\n    return a + HASH('x')\ndb.Setting = f(d0.On)\n", V()))
    pool.append(({"": "from library import m\ndb.Setting = m.f(2)\ndb.Setting = m.f(d0.On)\n", "m": "def f(x):\n    return x * 3\n"}, V(append_version=False)))
    pool.append(({"": "# pytrapic: compact\nfrom library import m\ndb.Setting = m.f(2)\n", "m": "@constexpr\ndef f(x):\n    return x * 3\n"}, V(append_version=False)))
    # the same main text with two versions of a library's constexpr function (the library changed between requests)
    for body in ("x * 3", "x * 5 + 1"):
        pool.append(({"": "from library import recipes\ndb.Setting = recipes.batch(4)\nd1.Setting = recipes.batch(7) + d0.On\n",
                      "recipes": f"@constexpr\ndef batch(x):\n    return {body}\ndef other(y):\n    return y + 1\n"}, V(append_version=False)))
    # writes to the registers that the package also keeps as module-level objects
    for s in ["sp = 0\npush(5)\n", "db.Setting = sp\n", "ra = 3\ndb.Setting = ra\n", "db.Setting = ra + sp\n", "r0 = 5\ndb.Setting = r0\n", "db.Setting = r0\n",
              "pi2 = pi * 2\ndb.Setting = pi2\n"]:
        pool.append((s, V(append_version=False)))
    global SPECIAL_FROM
    SPECIAL_FROM = len(pool) - 9
    for p in progen.generate(rng, 6 if tier == "quick" else 40):
        pool.append((p.text(), V(append_version=False, compact=rng.random() < 0.5, inline_functions=rng.random() < 0.5)))
    # a constexpr function returning a list: one request indexes it at run time (odd length of 7 or more: jump
    # table with padding), another one iterates over it; the cached result belongs to neither
    global LISTS_FROM
    LISTS_FROM = len(pool)
    tab = "@constexpr\ndef table():\n    return [3, 1, 4, 1, 5, 9, 2]\n"
    pool.append((tab + "T = table()\ndb.Setting = T[d0.Setting]\n", V(append_version=False)))
    pool.append((tab + "for v in table():\n    db.Setting = v\n", V(append_version=False)))
    pool.append((tab + "T = table()\nd1.Setting = T[d0.On] + T[d1.On]\n", V(append_version=False, compact=True)))
    return pool


def main(tier, seed):
    run = core.Run("C11", tier, seed, "proof")
    core.setup_impl_import()
    ass = core.standard_proof_phase(run, "C11", lambda: (gen.gen_globals(), gen.gen_skeletons()), "PV.Props.C11")
    rng = run.rng
    pool = request_pool(rng, tier)
    ctx = mp.get_context("fork")
    # fresh-process result of every distinct request
    with ctx.Pool(6, maxtasksperchild=1) as p:
        fresh = p.map(fresh_one, pool, chunksize=1)
    # retry constexpr timeouts (load) once, serially
    for i, r in enumerate(fresh):
        if "Timeout during evaluating constexpr" in json.dumps(r):
            with ctx.Pool(1, maxtasksperchild=1) as p:
                fresh[i] = p.apply(fresh_one, (pool[i],))
    nh = 8 if tier == "quick" else 80
    histories = []
    for _ in range(nh):
        n = rng.randint(5, 30 if tier == "quick" else 60)
        histories.append([rng.randrange(len(pool)) for _ in range(n)])
    # one history repeats one request many times, one alternates compact/verbose
    histories.append([3] * 6 + [4] * 3 + [3])
    histories.append([0, 1] * 6)
    # the directed requests (library versions, register writes) in both orders and interleaved
    sp_ = list(range(SPECIAL_FROM, SPECIAL_FROM + 9))
    histories.append(sp_ + sp_[::-1])
    histories.append([sp_[0], sp_[1], sp_[0], sp_[1]] + [sp_[2], sp_[3], sp_[2], sp_[4], sp_[5], sp_[2], sp_[6], sp_[7], sp_[6], sp_[8]])
    la, lb, lc = LISTS_FROM, LISTS_FROM + 1, LISTS_FROM + 2
    histories.append([la, lb, la, lc, lb])
    histories.append([lb, lc, lb, la, lb])
    with ctx.Pool(6, maxtasksperchild=1) as p:
        served = p.map(serve_history, [[pool[i] for i in h] for h in histories], chunksize=1)
    total = 0
    for h, outs in zip(histories, served):
        for pos, (i, o) in enumerate(zip(h, outs)):
            total += 1
            run.count("evaluations")
            src, opts = pool[i]
            rec = {"history": [pool[j][0] if isinstance(pool[j][0], str) else "<modules>" for j in h[:pos + 1]][-6:],
                   "history_length": pos, "request_source": src, "request_options": opts}
            if "Timeout during evaluating constexpr" in json.dumps(o["result"]) or "Timeout during evaluating constexpr" in json.dumps(fresh[i]):
                run.count("inconclusive_constexpr_timeouts")
                continue
            if o["result"] != fresh[i]:
                run.violation("result after a history differs from the result in a fresh process",
                              dict(rec, kind="history", in_history=json.dumps(o["result"])[:1500], fresh=json.dumps(fresh[i])[:1500]))
            if o["opt_before"] != o["opt_after"]:
                changed = sorted(k for k in o["opt_before"] if o["opt_before"][k] != o["opt_after"][k])
                run.violation(f"compile_code modified the caller's options object (fields {changed})",
                              dict(rec, kind="caller_options", changed=changed, before=o["opt_before"], after=o["opt_after"]))
            if not o["src_unchanged"]:
                run.violation("compile_code modified the caller's source mapping", dict(rec, kind="caller_sources"))
    run.cov["distinct_nontrivial"] = len(pool)
    run.cov["traces_validated_against_impl"] = total
    run.cov["rule"] = "histories of 5-30 (thorough: up to 60) requests drawn from a pool (pragma-carrying sources with contradicting caller options, compact/verbose alternation, constexpr users incl. two versions of one function name, failing sources, multi-module requests, generated programs) served by one process each; every result compared with the fresh-process result of the same request, caller's options and sources compared before/after; non-trivial = distinct request"
    run.cov["input_distribution"] = {"histories": len(histories), "requests_served": total, "pool": len(pool)}
    run.sample({"history": [pool[j][0][:40] if isinstance(pool[j][0], str) else "<modules>" for j in histories[0][:5]]})
    return run.finish(assumptions_text=ass, trusted_extra=TRUST)
