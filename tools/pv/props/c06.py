"""C06 — calls return to their call site; arguments and results arrive intact."""
import re

from .. import core, gen, impl, progen, pipeline, diffrun
from ..ic10 import Parsed

TRUST = [
    "IC10/Machine.v + IC10/Monitor.v (shadow call stack; proved not to disturb the run)",
    "Model/RaInsert.v abstracts instructions to the features add_ra_instructions inspects; compared with the real method on synthetic instruction lists each run",
    "callee arities / result flags come from the generator's own syntax tree; region entries from the hook",
    "monitored execution and differential execution are bounded and sampled",
]

TOK = ["Lab", "EndLab", "JEnd", "JRa", "Call", "PopArg", "PushV", "PushRa", "PopRa", "Other"]


def mk_function(tokens, name="fn_x"):
    """FunctionData whose code realises the abstract token list"""
    from stationeers_pytrapic.compile_pass import FunctionData
    from stationeers_pytrapic.types import IC10, IC10Register
    lab = name.replace("_", ".")

    class Node:
        pass
    n = Node()
    n.name = name
    code = []
    for t in tokens:
        if t == "Lab":
            code.append(IC10(f"{lab}:"))
        elif t == "EndLab":
            code.append(IC10(f"{lab}end:"))
        elif t == "JEnd":
            code.append(IC10("j", [f"{lab}end"]))
        elif t == "JRa":
            code.append(IC10("j", ["ra"], indent=1))
        elif t == "Call":
            code.append(IC10("jal", ["other"]))
        elif t == "PopArg":
            code.append(IC10("pop", [], IC10Register("a", code_expr="r1"), indent=1))
        elif t == "PushV":
            code.append(IC10("push", [5]))
        else:
            code.append(IC10("add", [1, 2], IC10Register("t", code_expr="r2")))
    return FunctionData(n, None, code=code)


def classify_back(instr, lab):
    from stationeers_pytrapic.types import IC10Register
    op = instr.op
    if op == f"{lab}:":
        return "Lab"
    if op == f"{lab}end:":
        return "EndLab"
    if op == "j":
        v = instr.inputs[0].value
        v = v.code_expr if isinstance(v, IC10Register) else v
        return "JRa" if v == "ra" else "JEnd"
    if op == "jal":
        return "Call"
    if op == "pop":
        return "PopRa" if instr.output is not None and instr.output.code_expr == "ra" else "PopArg"
    if op == "push":
        v = instr.inputs[0].value
        return "PushRa" if isinstance(v, IC10Register) and v.code_expr == "ra" else "PushV"
    return "Other"


def ra_corr(run, tier):
    from stationeers_pytrapic.compile_pass import CompileOptions
    rng = run.rng
    cases, recs = [], []
    n = 500 if tier == "quick" else 6000
    for i in range(n):
        body = []
        k = rng.random()
        nargs = rng.randint(0, 3) if k < 0.5 else 0
        body += ["PopArg"] * nargs
        for _ in range(rng.randint(0, 7)):
            body.append(rng.choice(["Other", "Other", "Call", "PushV", "JEnd", "Other", "Call"]))
            if body[-1] == "JEnd" and rng.random() < 0.5:
                body.insert(len(body) - 1, "PushV")
        if rng.random() < 0.7:
            toks = ["Lab"] + body + (["PushV"] if rng.random() < 0.4 else []) + ["EndLab"] + (["JRa"] if rng.random() < 0.85 else [])
        else:
            toks = ["Lab"] + body + [rng.choice(["JRa", "Other", "EndLab"])]
        for pp in (False, True):
            fd = mk_function(toks)
            try:
                fd.add_ra_instructions(CompileOptions(use_push_pop_functions=pp))
                out = [classify_back(x, "fn.x") for x in fd.code]
                exp = "(Some [" + "; ".join(out) + "])"
            except Exception as e:
                exp = "None"
            cases.append(f"({'true' if pp else 'false'}, [{'; '.join(toks)}], {exp})")
            recs.append((pp, toks, exp))
    defs = """
Definition leq (a b : list ins) : bool := list_eqb ins_eqb a b.
Definition chk (c : bool * list ins * option (list ins)) : bool :=
  match c with (pp, code, e) =>
    let r := if pp then Some (add_ra_pushpop code) else add_ra_fixed code in
    match r, e with Some x, Some y => leq x y | None, None => true | _, _ => false end end.
"""
    try:
        bad = core.coq_mismatches("c06ra", "From PV Require Import Model.RaInsert.", "chk", cases, shard=500, defs=defs)
    except core.CoqEvalError as e:
        run.obligation_broken("model evaluation (add_ra_instructions cases)", str(e))
        bad = []
    for i in bad[:20]:
        pp, toks, exp = recs[i]
        run.violation("model and implementation of add_ra_instructions disagree",
                      {"kind": "correspondence", "push_pop": pp, "code": toks, "implementation": exp}, no_input=True)
    run.cov["ra_insert_cases"] = len(cases)
    return len(cases)


def call_profile():
    return progen.Profile(max_stmts=4, const_lists=False, for_list=True, user_stack=False, transcendental=False)


def monitored(run, tier):
    rng = run.rng
    n = 60 if tier == "quick" else 900
    progs = []
    tries = 0
    while len(progs) < n and tries < 40 * n:
        tries += 1
        p = progen.Gen(rng, call_profile()).program()
        if p.funcs:
            progs.append((f"calls/{len(progs)}", p))
    vns = ["noinline", "pushpop", "tail", "default", "all", "tailinline", "pushpopinline"]
    jobs = [((name, p), [vns[i % 7], vns[(i + 1) % 7]] if tier == "quick" else vns) for i, (name, p) in enumerate(progs)]
    from .. import idioms
    for name, p in idioms.programs(rng):
        if p.funcs:
            jobs.append(((name, p), vns))
    import glob, os
    for sub in ("findings", "clean"):
        for f in sorted(glob.glob(str(core.VERIF / "corpus" / "c06" / sub / "*.prog"))):
            jobs.append(((f"corpus/c06/{sub}/{os.path.basename(f)[:-5]}", progen.Prog.load(open(f).read())), vns))
    from .c01 import compile_rot
    cases = compile_rot(jobs)
    oks = [c for c in cases if c.ok]
    # monitored runs in Coq
    body = [diffrun.HEADER]
    for j, c in enumerate(oks):
        body.append(f"Definition T{j} : @program float := {Parsed(c.result['code']).coq()}.")
    shards = [oks[i:i + 15] for i in range(0, len(oks), 15)]
    results = {}

    def one(arg):
        k, cs = arg
        txt = [diffrun.HEADER]
        for j, c in enumerate(cs):
            txt.append(f"Definition T{j} : @program float := {Parsed(c.result['code']).coq()}.")
            # function entries (the label line and the line after it: in label-free text the label is gone);
            # linking jumps to other lines are subroutines inside a function (bodies of loops over lists)
            ents = sorted({e + d for e in pipeline.region_entries(c.result)[0] for d in (0, 1)})
            txt.append(f"Eval vm_compute in (monitor_float {pipeline.FT} T{j} [{'; '.join(str(e) for e in ents)}]%nat 1%Z).")
        rc, out, err = core.coqc_text(f"c06m_{k}", "\n".join(txt), 600)
        if rc != 0:
            raise core.CoqEvalError(err[-1500:])
        return core.parse_evals(out)
    from concurrent.futures import ThreadPoolExecutor
    outs = []
    try:
        with ThreadPoolExecutor(max_workers=12) as ex:
            for r in ex.map(one, list(enumerate(shards))):
                outs += r
    except core.CoqEvalError as e:
        run.obligation_broken("monitored execution (model evaluation)", str(e))
        outs = []
    kinds = {"returns_checked": 0, "programs_monitored": 0}
    for c, o in zip(oks, outs):
        kinds["programs_monitored"] += 1
        run.count("evaluations")
        recs = re.findall(r"\((\d+)%?\w*, (true|false), \(?(-?\d+)\)?%?\w*, (true|false)\)", re.sub(r"%[a-zA-Z]+", "", o))
        entries, ow = pipeline.region_entries(c.result)
        code_lines = c.result["code"].split("\n")
        fns = {f.name.replace("_", "."): f for f in c.prog.funcs}
        fn_by_owner = {}
        for f in c.prog.funcs:
            fn_by_owner[f.name] = f
        pp = c.opts["use_push_pop_functions"]
        for callee, ok, dsp, orphan in recs:
            kinds["returns_checked"] += 1
            callee, dsp = int(callee), int(dsp)
            owner = ow[callee] if callee < len(ow) else ""
            f = fn_by_owner.get(owner)
            is_entry = callee in entries or (callee < len(ow) and callee > 0 and ow[callee] != ow[callee - 1])
            want = 0
            if pp and f is not None and is_entry:
                want = -f.nparams + (1 if _returns_value(f) else 0)
            rec = {"kind": "return", "callee_line": callee, "callee": owner, "returned_to_call_site": ok == "true",
                   "sp_delta": dsp, "expected_sp_delta": want, "orphan_return": orphan == "true",
                   "option_set": c.vname, "options": c.opts, "source": c.prog.text(), "code": c.result["code"],
                   "tail_call": c.opts["tail_call_optimization"], "tail_after_call": _tail_after_call(c.result),
                   "falls_through": pipeline.falls_through(c.result), "main_can_terminate": pipeline.main_can_terminate(c.prog)}
            if orphan == "true":
                run.violation("a 'j ra' executed although no call is being served", rec)
                if rec["falls_through"] and rec["main_can_terminate"]:
                    break     # everything after running off the end of main is the same defect
            elif ok != "true":
                run.violation("a function return did not transfer control to the instruction after the call being served", rec)
            elif dsp != want:
                run.violation(f"stack pointer at return differs from the call by {dsp}, expected {want}", rec)
    # programs with library modules (text, outside the generator's grammar): every executed return must go back to
    # the call being served, under both calling conventions (stack-pointer deltas are not checked here: the
    # arities are not known to the harness)
    tjobs, tmeta = [], []
    for name, src in impl.repo_programs():
        if not isinstance(src, dict) or "error" in name:
            continue
        for vn in ("noinline", "pushpop", "default", "pushpopinline"):
            tjobs.append((src, pipeline.VECTORS[vn])); tmeta.append((name, vn, src))
    tres = impl.compile_many(tjobs)
    tok = [(m, r) for m, r in zip(tmeta, tres) if "code" in r]
    try:
        txt = [diffrun.HEADER]
        for j, (m, r) in enumerate(tok):
            ents = sorted({e + d for e in pipeline.region_entries(r)[0] for d in (0, 1)})
            txt.append(f"Definition T{j} : @program float := {Parsed(r['code']).coq()}.")
            txt.append(f"Eval vm_compute in (monitor_float {pipeline.FT} T{j} [{'; '.join(str(e) for e in ents)}]%nat 1%Z).")
        rc_, out_, err_ = core.coqc_text("c06lib", "\n".join(txt), 900)
        if rc_ != 0:
            raise core.CoqEvalError(err_[-1500:])
        louts = core.parse_evals(out_)
    except core.CoqEvalError as e:
        run.obligation_broken("monitored execution of library programs (model evaluation)", str(e))
        louts = []
    for ((name, vn, src), r), o in zip(tok, louts):
        kinds["library_programs_monitored"] = kinds.get("library_programs_monitored", 0) + 1
        run.count("evaluations")
        recs = re.findall(r"\((\d+)%?\w*, (true|false), \(?(-?\d+)\)?%?\w*, (true|false)\)", re.sub(r"%[a-zA-Z]+", "", o))
        ft_ = pipeline.falls_through(r)
        for callee, ok, dsp, orphan in recs:
            kinds["returns_checked"] += 1
            rec = {"kind": "return", "program": name, "callee_line": int(callee), "returned_to_call_site": ok == "true", "orphan_return": orphan == "true",
                   "option_set": vn, "options": pipeline.VECTORS[vn], "source": src.get(""), "modules": sorted(k for k in src if k), "code": r["code"],
                   "falls_through": ft_, "main_can_terminate": "while True" not in src.get("", ""), "tail_call": False, "tail_after_call": False}
            if orphan == "true":
                run.violation("a 'j ra' executed although no call is being served", rec)
                break
            if ok != "true":
                run.violation("a function return did not transfer control to the instruction after the call being served", rec)
                break
    # arguments / results intact: differential execution of the same programs
    try:
        pipeline.diff_cases(oks, name="c06d")
    except core.CoqEvalError as e:
        run.obligation_broken("differential execution", str(e))
    for c in oks:
        b = pipeline.bad_verdict(c) if c.verdicts else None
        if b:
            rec = pipeline.describe(c, *b, with_traces=False)
            rec["kind"] = "trace"
            rec["tail_call"] = c.opts["tail_call_optimization"]
            rec["tail_after_call"] = _tail_after_call(c.result)
            rec["main_can_terminate"] = pipeline.main_can_terminate(c.prog)
            if run.classify(rec) is None:
                c2, k2, t2 = pipeline.shrink_case(c, *b)
                b = (k2, t2)
                c = c2
                rec = pipeline.describe(c, *b, with_traces=True)
                rec["prog_dump"] = c.prog.dump()
                rec.update({"kind": "trace", "tail_call": c.opts["tail_call_optimization"], "tail_after_call": _tail_after_call(c.result),
                            "main_can_terminate": pipeline.main_can_terminate(c.prog)})
            run.violation("arguments / results / effects of a program with calls differ from the source semantics", rec)
    run.cov["input_distribution"] = kinds
    if oks:
        run.sample({"source": oks[0].prog.text()[:400], "code": oks[0].result["code"][:400]})
    return len(oks)


def _returns_value(f):
    def has(ss):
        for s in ss:
            if s[0] == "return" and s[1] is not None:
                return True
            if s[0] == "if" and (any(has(b) for _, b in s[1]) or (s[2] and has(s[2]))):
                return True
            if s[0] in ("while",) and has(s[2]):
                return True
            if s[0] in ("forrange", "forlist") and has(s[3]):
                return True
        return False
    return has(f.body)


def _tail_after_call(result):
    from .c02 import tail_after_call
    return tail_after_call(result)


def main(tier, seed):
    run = core.Run("C06", tier, seed, "proof")
    core.setup_impl_import()
    ass = core.standard_proof_phase(run, "C06", None, "PV.Props.C06", extra_targets=["theories/Valid/Diff.vo"])
    n1 = ra_corr(run, tier)
    n2 = monitored(run, tier)
    for f in run.findings.open_for("C06"):
        if f["id"] not in run.known_hits:
            run.note(f"known finding {f['id']} did not reproduce in this run")
    run.cov["evaluations"] = n1 + n2
    run.cov["distinct_nontrivial"] = n1 // 2 + n2
    run.cov["traces_validated_against_impl"] = n1 + n2
    run.cov["rule"] = "(a) synthetic instruction lists (entry label, 0-3 argument pops, calls, early returns, value pushes, end label, j ra and malformed variants) through the real add_ra_instructions in both conventions vs the Coq model; (b) generated programs with functions (arities 0-3, early returns in branches and loops, calls in expressions and statements) x option sets: every executed return checked by the shadow-stack monitor (return address, stack-pointer delta), and effect traces against the source"
    return run.finish(assumptions_text=ass, trusted_extra=TRUST)
