"""C08 — compact output means the same as verbose output."""
import re
import zlib

from .. import core, gen, impl, progen
from ..ic10 import Parsed, tokenize

TRUST = [
    "CRC-32 model Base/CRC32.v (compared with zlib.crc32 each run); Python str(int)/format(int,'X') are Coq's standard decimal/hexadecimal printers (compared each run)",
    "tools/pv/ic10.py assigns values to tokens (HASH/STR, $hex, enum names by operand position) when two outputs are compared",
    "translator tools/pyt2coq/hashfmt.py (shape of the six functions, fail-closed)",
]

MODES = {"VERBOSE": 0, "COMPACT": 1, "NUMERIC": 2}


def u8(s):
    """Python str -> the str of its UTF-8 bytes (Coq strings are byte strings)"""
    return s.encode("utf-8", "surrogatepass").decode("latin-1")


def rendered(v):
    if isinstance(v, bool):
        return None
    if isinstance(v, int):
        return f"(RNum ({v}))"
    if isinstance(v, str):
        return f"(RText {core.coq_string(u8(v))})"
    return None


def func_corr(run, tier):
    from stationeers_pytrapic import utils as U, types as T
    rng = run.rng
    alphabet = 'abcXYZ 019_-.()"#$HASTR' + "é"
    names = ["a", "n", "Some Name", "StructureWallLight", '"quoted"', 'HASH("inner")', '"HASH("both")"', '"', '""', "x" * 40,
             "HASH(", '")', "Main Light", "12345", "-5", "$FF"]
    names += ["".join(rng.choice(alphabet) for _ in range(rng.randint(1, 14))) for _ in range(150 if tier == "quick" else 2500)]
    cases, recs = [], []
    names += ["日本語", "naïve Ω", "\U0001f600x"]
    for nm in names:
        for mode, mv in MODES.items():
            if mode == "COMPACT" and not nm.isascii():
                # the number/text choice compares lengths in characters; the model's strings are
                # bytes.  Either choice has the same value (theorem), so only the choice differs.
                continue
            try:
                r = T.compute_hash(nm, U.OutputMode(mv))
            except Exception as e:
                continue
            rr = rendered(r)
            if rr is None:
                continue
            cases.append(f"(true, {core.coq_string(u8(nm))}, {mode}, {rr})")
            recs.append(("compute_hash", nm, mode, r))
            if not nm.isascii():
                continue        # STR packs code points; the model (bytes) covers ASCII strings
            try:
                r2 = T.compute_string(nm, U.OutputMode(mv))
            except Exception:
                continue
            rr2 = rendered(r2)
            if rr2 is not None:
                cases.append(f"(false, {core.coq_string(nm)}, {mode}, {rr2})")
                recs.append(("compute_string", nm, mode, r2))
    defs = """
Definition req (a b : rendered) : bool :=
  match a, b with RNum x, RNum y => Z.eqb x y | RText x, RText y => String.eqb x y | _, _ => false end.
Definition chk (c : bool * string * omode * rendered) : bool :=
  match c with (h, n, m, e) => req (if h then compute_hash_raw n m else compute_string n m) e end.
"""
    try:
        bad = core.coq_mismatches("c08f", "From Coq Require Import String.\nFrom PV Require Import Model.HashStr.\nLocal Open Scope string_scope.",
                                  "chk", cases, shard=400, defs=defs)
    except core.CoqEvalError as e:
        run.obligation_broken("model evaluation (hash/str cases)", str(e))
        bad = []
    for i in bad:
        fn, nm, mode, r = recs[i]
        # is the property itself violated?  the returned number must be the signed CRC / packing
        want = None
        if fn == "compute_hash" and isinstance(r, int):
            n2 = nm
            if len(n2) >= 1 and n2[0] == '"' and n2[-1] == '"':
                n2 = n2[1:-1]
            if n2.startswith('HASH("') and n2.endswith('")'):
                n2 = n2[6:-2]
            c = zlib.crc32(n2.encode())
            want = c - (1 << 32) if c >= (1 << 31) else c
        if want is not None and want != r:
            run.violation(f"{fn}({nm!r}) in mode {mode} substitutes {r}, which is not the token's value {want}",
                          {"kind": "value", "function": fn, "name": nm, "mode": mode, "returned": r, "value": want})
        else:
            run.violation(f"model and implementation disagree on {fn}({nm!r}, {mode})",
                          {"kind": "correspondence", "function": fn, "name": nm, "mode": mode, "implementation": repr(r)}, no_input=True)
    n1 = len(cases)
    # format_int
    hashes = sorted({c._hash for c in vars(__import__("stationeers_pytrapic.structures_generated", fromlist=["x"])).values()
                     if isinstance(getattr(c, "_hash", None), int) and isinstance(c, type)})
    zs = [0, 1, -1, 9999, 10000, 10001, 65535, 65536, 2**31, 2**31 - 1, 2**32, 2**53, 2**63, 2**64 + 5, -10001, -2**40,
          1298920475, -1860064656, 123456789]
    zs += hashes[:40] + [rng.randint(-10**6, 10**12) for _ in range(200 if tier == "quick" else 3000)]
    fcases, frecs = [], []
    for z in zs:
        s = U.format_int(z)
        fcases.append(f"(({z})%Z, {core.coq_string(s)})")
        frecs.append((z, s))
    hl = "[" + "; ".join(f"({h})%Z" for h in hashes) + "]"
    try:
        bad = core.coq_mismatches("c08i", "From Coq Require Import String.\nFrom PV Require Import Model.FormatNum.\nLocal Open Scope string_scope.",
                                  "fun c => String.eqb (format_int hashes_ (fst c)) (snd c)", fcases, shard=500,
                                  defs=f"Definition hashes_ : list Z := {hl}.")
    except core.CoqEvalError as e:
        run.obligation_broken("model evaluation (format_int cases)", str(e))
        bad = []
    for i in bad:
        z, s = frecs[i]
        from ..ic10 import literal_value
        if literal_value(s) != z:
            run.violation(f"format_int({z}) = {s!r} does not read back as {z}", {"kind": "value", "function": "format_int", "z": z, "text": s})
        else:
            run.violation(f"model and implementation disagree on format_int({z})", {"kind": "correspondence", "function": "format_int", "z": z, "implementation": s}, no_input=True)
    run.cov["function_cases_validated"] = n1 + len(fcases)
    return n1 + len(fcases)


def norm_line(P, line_tokens):
    op = line_tokens[0]
    out = [op]
    for i, t in enumerate(line_tokens[1:]):
        k, v = P.classify(t, op, i)
        if k == "num":
            v = float(v)
        out.append((k, v))
    return out


def compare_texts(verbose, compact):
    """token-wise numeric comparison; returns None or a description of the first difference"""
    A, B = Parsed(verbose), Parsed(compact)
    la = [l for l in A.lines if l[0] != "blank"]
    lb = [l for l in B.lines if l[0] != "blank"]
    if len(la) != len(lb):
        return f"{len(la)} lines vs {len(lb)} lines"
    for i, (x, y) in enumerate(zip(la, lb)):
        if x[0] != y[0]:
            return f"line {i}: {x} vs {y}"
        if x[0] == "label":
            if x[1] != y[1]:
                return f"line {i}: label {x[1]} vs {y[1]}"
            continue
        nx, ny = norm_line(A, [x[1]] + x[2]), norm_line(B, [y[1]] + y[2])
        if nx != ny:
            amb = False
            for tv, tx, ty in zip(x[2], nx[1:], ny[1:]):
                if tx != ty and ambiguous_bare(tv):
                    amb = tv
            return (f"line {i}: {' '.join([x[1]] + x[2])}  vs  {' '.join([y[1]] + y[2])}  ({nx} vs {ny})", amb)
    return None


def ambiguous_bare(tok):
    """a bare member name that several enumerations define with different numbers"""
    from ..ic10 import enum_tables
    bare, dotted = enum_tables()
    vals = {v for k, v in dotted.items() if k.split(".", 1)[1] == tok}
    return len(vals) > 1


def structure_sweep(rng, tier, all_enum_members=False):
    """one-line programs over structure classes x their logic types / enums"""
    core.setup_impl_import()
    import stationeers_pytrapic.structures_generated as SG
    import stationeers_pytrapic.types as T
    import stationeers_pytrapic.types_generated as TG
    progs = []
    plurals = [n for n, v in vars(SG).items() if isinstance(v, T._BaseStructures) and not n.startswith("_")]
    pick = plurals if tier == "thorough" else rng.sample(plurals, 25)
    for pl in pick:
        obj = getattr(SG, pl)
        lts = [n for n in TG.LogicType.__members__ if n not in ("Maximum", "Minimum", "Average", "Sum")
               and isinstance(getattr(type(obj), n, None), property)]
        for lt in (lts if tier == "thorough" else lts[:3]):
            bm = rng.choice(["Sum", "Average", "Minimum", "Maximum"])
            progs.append((f"sweep/{pl}.{lt}", f'db.Setting = {pl}.{lt}.{bm}\n{pl}["Name {len(progs)}"].{lt} = 1\n'))
    enums = [(n, e) for n, e in vars(TG).items() if isinstance(e, type) and issubclass(e, TG._IntEnum) and e is not TG._IntEnum]
    for en, e in enums:
        ms = list(e.__members__)
        for m in (ms if (tier == "thorough" or all_enum_members) else ms[:4]):
            if en in ("LogicType",):
                continue
            progs.append((f"enum/{en}.{m}", f"db.Setting = {en}.{m}\nd0.Mode = {en}.{m} + 0\n"))
    return progs


def string_programs():
    """names whose text is fragile under post-processing of the emitted lines (runs of blanks, leading /
    trailing blanks, tabs, comment and label look-alikes): the verbose HASH("..")/STR("..") token must
    keep denoting the number that compact mode prints"""
    names = ["Main  pump", "ON  ", " lead", "trail ", "a\tb", "x   y   z", "double  space  twice", "#1  pump", "semi;colon",
             "colon: name", "j lbwhile1", "  ", "a # b  c", "Tank (big)  2"]
    out = []
    for i, n in enumerate(names):
        lit = n.replace("\\", "\\\\")
        out.append((f"strings/{i}", f'WallLights["{lit}"].On = 1\ndb.Setting = HASH("{lit}")\nx = d0.Setting\nif x > 1:\n    d1.Setting = HASH("{lit}")\n'))
        short = n[:6]
        out.append((f"strings/str{i}", f'db.Setting = STR("{short}")\nwhile d0.On < 1:\n    d1.Setting = STR("{short}")\n    yield_()\n'))
    # HASH literals inside constant-folded expressions: in verbose mode the folder sees the text HASH("..") and
    # has to unwrap the name, in compact mode it sees the number
    fnames = ["Steel", "Airlock Sensor", "StructureArcFurnace", "HASH", "SASH", "A", "(x)", "Pump", "tail)", "H2 Tank (A)", "ASHA", "SS"]
    forms = ["{h} + 1", "{h} * 2", "-{h}", "{h} % 1000", "{h} & 65535", "({h} >> 4) + 3", "{h} - {h2}"]
    for i, n in enumerate(fnames):
        body = []
        for j, f in enumerate(forms):
            e = f.format(h=f'HASH("{n}")', h2=f'HASH("{fnames[(i + 1) % len(fnames)]}")')
            body.append(f"d{j % 6}.Setting = {e}")
        out.append((f"strings/fold{i}", "\n".join(body) + "\n"))
    return out


def main(tier, seed):
    run = core.Run("C08", tier, seed, "proof")
    core.setup_impl_import()
    ass = core.standard_proof_phase(run, "C08", lambda: (gen.gen_hash(), gen.gen_tables()), "PV.Props.C08")
    n1 = func_corr(run, tier)
    rng = run.rng
    progs = [(n, s) for n, s in impl.repo_programs() if "error" not in n]
    progs += [(f"gen/{i}", p.text()) for i, p in enumerate(progen.generate(rng, 40 if tier == "quick" else 400))]
    # when an obligation about the formatting functions is broken (translator fail-closed, theorem), the sweep
    # over enum members is made exhaustive: it is the search for a concrete failing input
    progs += structure_sweep(rng, tier, all_enum_members=run.build_failure is not None)
    progs += string_programs()
    jobs = []
    rls = (False,) if tier == "quick" else (False, True)
    # (quick tier: remove_labels on for every fourth program and for all string programs)
    for pi, (name, src) in enumerate(progs):
        for rl in rls:
            if tier == "quick":
                rl = name.startswith("strings/") or pi % 4 == 3
            base = impl.vec(append_version=False, remove_labels=rl)
            jobs.append((src, dict(base, compact=False)))
            jobs.append((src, dict(base, compact=True)))
    res = impl.compile_many(jobs)
    pairs = 0
    kinds = {"both_error": 0, "compared": 0, "identical_text": 0}
    for i in range(0, len(jobs), 2):
        a, b = res[i], res[i + 1]
        name = progs[(i // 2) // (1 if tier == "quick" else 2)][0]
        if "code" not in a and "code" not in b:
            kinds["both_error"] += 1
            continue
        run.count("evaluations")
        if ("code" in a) != ("code" in b):
            ea = a.get("error", {}); eb = b.get("error", {})
            run.violation("compact on/off changes whether the program compiles",
                          {"kind": "pair_error", "program": name, "source": jobs[i][0], "verbose": str(a.get("code", ea))[:400], "compact": str(b.get("code", eb))[:400]})
            continue
        pairs += 1
        kinds["compared"] += 1
        if a["code"] == b["code"]:
            kinds["identical_text"] += 1
        d = compare_texts(a["code"], b["code"])
        if d is not None:
            amb = False
            if isinstance(d, tuple):
                d, amb = d
            src_text = jobs[i][0] if isinstance(jobs[i][0], str) else " ".join(jobs[i][0].values())
            bare_from = sorted(set(re.findall(r"\b(\w+)\." + re.escape(amb) + r"\b", src_text))) if amb else []
            run.violation("compact and verbose outputs are not the same instruction sequence after evaluating tokens",
                          {"kind": "pair", "program": name, "source": jobs[i][0], "difference": d, "ambiguous_bare_enum_name": bool(amb),
                           "bare_name": amb or None, "bare_name_from": bare_from,
                           "verbose": a["code"][:1500], "compact": b["code"][:1500]})
        elif pairs == 3:
            run.sample({"verbose": a["code"][:300], "compact": b["code"][:300]})
    run.cov["evaluations"] = n1 + pairs
    run.cov["distinct_nontrivial"] = kinds["compared"] - kinds["identical_text"]
    run.cov["traces_validated_against_impl"] = n1 + pairs
    run.cov["rule"] = "(a) compute_hash / compute_string in all three output modes and format_int on generated strings / integers: model vs implementation; (b) repository + generated programs + one-line sweeps over structure classes x logic types and enum members compiled verbose and compact: token-wise numeric comparison; non-trivial = the two texts differ"
    run.cov["input_distribution"] = kinds
    return run.finish(assumptions_text=ass, trusted_extra=TRUST,
                      assumptions=["strings are modelled by their UTF-8 bytes (HASH is the CRC of those bytes); the STR packing theorem is about ASCII strings"])
