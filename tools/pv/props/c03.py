"""C03 — compile-time evaluation gives the same value the chip would compute."""
import math
import re

from .. import core, gen, impl, diffrun
from ..ic10 import coq_float, Parsed

TRUST = [
    "Python numeric semantics of the folding lambdas modelled by Model/Fold.v (py_eval); compared with CPython on an operand grid each run",
    "IEEE facts are derived from Coq's standard-library axioms Floats.FloatAxioms (eqb_spec, ltb_spec, leb_spec, opp_spec, sub_spec, Prim2SF_inj via SF2Prim_Prim2SF) — see print_assumptions",
    "transcendental functions and pow: Python's math.f / ** and the chip's instruction are assumed to be the same function (uninterpreted symbol shared by both sides); only their literal read-back is checked",
    "chip semantics of mod / bitwise / shifts as documented in the repository's instruction docstrings (IC10/FloatAlg.v), on the stated domains",
    "translator tools/pyt2coq/ops.py",
]

FLOATS = [0.0, 1.0, -1.0, 0.5, 2.5, -2.5, 3.0, 7.0, -7.0, 10.0, 255.0, 256.0, 1e-05, 0.1, 1e10, 9007199254740991.0,
          9007199254740992.0, 123456.789, -0.0, 4.0, 2.0, 6.0, 1000.0, 3.75]
INTS = [0, 1, -1, 2, 3, 5, 7, -7, 8, 10, 255, 256, 65535, 1000000, 9007199254740991, 4, 6]


def coq_pyv(v):
    if isinstance(v, bool):
        return f"(VB {'true' if v else 'false'})"
    if isinstance(v, int):
        return f"(VI ({v}))"
    return f"(VF {coq_float(v)})"


def lambda_corr(run, tier):
    """model of Python's evaluation of each table lambda vs the real lambda"""
    from stationeers_pytrapic import utils as U
    from stationeers_pytrapic.types import IC10Operand
    rng = run.rng
    cases, recs = [], []
    ops2 = ["+", "-", "*", "/", "%", "and", "or", "^", "&", ">>", "<<", "==", "!=", "<", ">", "<=", ">="]
    ops1 = ["-", "~", "not"]
    vals = FLOATS + INTS
    n = 0
    for op in ops2:
        opc, fn = U.get_binop_instruction(op)
        pairs = [(rng.choice(vals), rng.choice(vals)) for _ in range(60 if tier == "quick" else 600)]
        pairs += [(a, b) for a in (0.0, 7.0, -7.0, 5, 2.5) for b in (0.0, 3.0, -3.0, 2, 0)]
        for a, b in pairs:
            if op in (">>", "<<") and isinstance(b, (int, float)) and abs(b) > 64:
                continue
            if op == "<<" and (abs(a) > 2**20):
                continue
            try:
                r = fn(a, b)
                ov = IC10Operand(r).value
                exp = f"(Some {coq_float(float(ov))})"
            except Exception:
                exp = "None"
            cases.append(f"(true, {coq_string_lit(op)}, {coq_pyv(a)}, {coq_pyv(b)}, {exp})")
            recs.append((op, a, b, exp))
    for op in ops1:
        opc, fn = U.get_unop_instruction(op)
        for a in vals:
            try:
                r = fn(a)
                ov = IC10Operand(r).value
                exp = f"(Some {coq_float(float(ov))})"
            except Exception:
                exp = "None"
            cases.append(f"(false, {coq_string_lit(op)}, {coq_pyv(a)}, {coq_pyv(a)}, {exp})")
            recs.append((op, a, None, exp))
    defs = """
Definition feq (a b : option float) : bool :=
  match a, b with
  | Some x, Some y => (PrimFloat.is_nan x && PrimFloat.is_nan y) || PrimFloat.eqb x y
  | None, None => true | _, _ => false end.
Fixpoint find3 (k : string) (l : list (string * string * pexpr)) : option pexpr :=
  match l with [] => None | (a, _, e) :: r => if String.eqb a k then Some e else find3 k r end.
Definition chk (c : bool * string * pyv * pyv * option float) : bool :=
  match c with (bin, op, a, b, e) =>
    match find3 op (if bin then gen_binops else gen_unops) with
    | Some lam => feq (option_map operand_value (py_eval lam a b)) e
    | None => false end end.
"""
    try:
        bad = core.coq_mismatches("c03lam", "From Coq Require Import String PrimFloat.\nFrom PV Require Import IC10.Values IC10.FloatAlg Model.Fold.\nFrom PVGen Require Import GenOps.\nLocal Open Scope string_scope.",
                                  "chk", cases, shard=400, defs=defs)
    except core.CoqEvalError as e:
        run.obligation_broken("model evaluation (lambda cases)", str(e))
        bad = []
    for i in bad:
        op, a, b, exp = recs[i]
        run.violation("Python-semantics model of a folding lambda disagrees with the implementation's lambda",
                      {"kind": "correspondence", "operator": op, "x": repr(a), "y": repr(b), "implementation": exp}, no_input=True)
    # operands on which the correspondence broke are handed to the observation stage, which decides whether
    # the property itself fails there (folded literal vs the instruction's result on the machine)
    SUSPECTS[:] = [recs[i][:3] for i in bad[:16]]
    run.cov["lambda_cases_validated"] = len(cases)
    return len(cases)


SUSPECTS = []


def coq_string_lit(s):
    return '"' + s + '"'


# ------------------------------------------------------------------------------------------
BIN_DOM = {
    "+": "any", "-": "any", "*": "any", "/": "nonzero", "%": "posmod", "and": "nat", "or": "nat", "^": "nat", "&": "nat",
    ">>": "shift", "<<": "shift", "==": "any", "!=": "any", "<": "any", ">": "any", "<=": "any", ">=": "any"}


def rand_const(rng, dom):
    if dom == "nat":
        return rng.choice([0, 1, 2, 3, 5, 6, 7, 12, 255, 256, 1023, 65535, 4096])
    if dom == "shiftamt":
        return rng.randint(0, 9)
    if dom == "nonzero":
        return rng.choice([1, 2, 4, 5, 0.5, 3, 10, -2, 0.25])
    if dom == "posmod":
        return rng.choice([1, 2, 3, 5, 7, 10, 2.5, 0.5, 360])
    if rng.random() < 0.2:
        # magnitudes far from 1: folded results below 1e-15 or above 2^53 must still be the computed value
        return rng.choice([1e-9, 1e-10, 2.5e-16, 5e-5, 1e-5, 0.001, 1e7, 1e15, 6.02e23, -1.380649e-23, 3e-7, 123456789.125])
    return rng.choice([0, 1, 2, 3, 5, 7, 9, 10, 0.5, 2.5, 0.25, 1.5, 100, 255, -1, -3, -2.5, 1000, 3.75, 12, 0.125])


class CE:
    """constant expression tree with two renderings: constants inline / loaded from the stack"""
    def __init__(self, rng):
        self.rng = rng
        self.consts = []

    def leaf(self, dom):
        v = rand_const(self.rng, dom)
        self.consts.append(v)
        return ("c", len(self.consts) - 1)

    def gen(self, depth, dom="any"):
        r = self.rng
        if depth <= 0 or r.random() < 0.2:
            return self.leaf(dom)
        if dom in ("nat", "shiftamt", "nonzero", "posmod"):
            return self.leaf(dom)
        k = r.random()
        if k < 0.75:
            op = r.choice(list(BIN_DOM))
            d = BIN_DOM[op]
            if d in ("nat",):
                return ("bin", op, self.gen(depth - 1, "nat"), self.gen(depth - 1, "nat"))
            if d == "shift":
                return ("bin", op, self.gen(depth - 1, "nat"), self.gen(depth - 1, "shiftamt"))
            if d in ("nonzero", "posmod"):
                return ("bin", op, self.gen(depth - 1), self.gen(depth - 1, d))
            return ("bin", op, self.gen(depth - 1), self.gen(depth - 1))
        if k < 0.85:
            return ("un", "-", self.gen(depth - 1))
        if k < 0.95:
            return ("un", "not ", self.gen(depth - 1))
        return ("sel", self.gen(depth - 1), self.gen(depth - 1), self.gen(depth - 1))

    def text(self, e, loaded):
        k = e[0]
        if k == "c":
            v = self.consts[e[1]]
            if loaded:
                return f"stack[{100 + e[1]}]"
            return repr(v) if v >= 0 else f"({v!r})"
        if k == "bin":
            return f"({self.text(e[2], loaded)} {e[1]} {self.text(e[3], loaded)})"
        if k == "un":
            return f"({e[1]}{self.text(e[2], loaded)})"
        return f"({self.text(e[2], loaded)} if {self.text(e[1], loaded)} else {self.text(e[3], loaded)})"


def observe(run, tier):
    """the property's own observation: the same expression with constant operands and with
    operands loaded from the stack, compiled, both executed on the machine"""
    rng = run.rng
    n = 150 if tier == "quick" else 2500
    shapes = ["direct", "var", "fn", "aug"]
    jobs, meta = [], []
    directed = [(op, a, b) for op, a, b in SUSPECTS if isinstance(a, (int, float)) and not isinstance(a, bool)
                and (b is None or (isinstance(b, (int, float)) and not isinstance(b, bool)))]
    for i in range(n + len(directed)):
        ce = CE(rng)
        if i >= n:
            op, a, b = directed[i - n]
            if b is None:
                ce.consts = [a]
                e = ("un", op if op != "not" else "not ", ("c", 0))
            else:
                ce.consts = [a, b]
                e = ("bin", op, ("c", 0), ("c", 1))
        else:
            e = ce.gen(rng.randint(1, 3))
        shape = rng.choice(shapes)
        def wrap(expr_text):
            if shape == "direct":
                return f"db.Setting = {expr_text}\n"
            if shape == "var":
                return f"a = {expr_text}\nb = a\ndb.Setting = b\n"
            if shape == "fn":
                return f"def f(p):\n    return p\ndb.Setting = f({expr_text})\n"
            return f"a = {expr_text}\na += 0\ndb.Setting = a\n"
        const_src = wrap(ce.text(e, False))
        loads = "".join(f"stack[{100 + j}] = {v!r}\n" for j, v in enumerate(ce.consts))
        load_src = loads + wrap(ce.text(e, True))
        opts = impl.vec(append_version=False, inline_functions=rng.random() < 0.7)
        jobs += [(const_src, opts), (load_src, opts)]
        meta.append((const_src, load_src, opts))
    res = impl.compile_many(jobs)
    pairs, idx = [], []
    kinds = {}
    for i, (cs, ls, opts) in enumerate(meta):
        a, b = res[2 * i], res[2 * i + 1]
        if "code" in a and "code" in b:
            pairs.append((a["code"], b["code"]))
            idx.append(i)
            folded = not any(re.match(r"\s*(add|sub|mul|div|mod|and|or|xor|s[lg][te]|seq|sne|srl|sll|select|seqz)\b", l)
                             for l in a["code"].split("\n"))
            kinds["folded_completely" if folded else "partly_folded"] = kinds.get("folded_completely" if folded else "partly_folded", 0) + 1
        else:
            kinds["compile_error"] = kinds.get("compile_error", 0) + 1
    try:
        vs = diffrun.tgt_vs_tgt(pairs, [1], fuel=400, name="c03obs")
    except core.CoqEvalError as e:
        run.obligation_broken("machine evaluation (observe)", str(e))
        vs = []
    for i, v in zip(idx, vs):
        run.count("evaluations")
        t = v[0]
        if t[0] != 0:
            cs, ls, opts = meta[i]
            rec = {"kind": "observe", "verdict": t[0], "constant_source": cs, "loaded_source": ls, "options": opts,
                   "constant_code": res[2 * i]["code"], "loaded_code": res[2 * i + 1]["code"],
                   "ops": sorted(set(re.findall(r" (and|or|not|\*\*|>>|<<|==|!=|<=|>=|[-+*/%^&<>]) ", cs)))}
            try:
                rec["constant_trace"] = diffrun.show_tgt_trace(res[2 * i]["code"], 1, 400)[-400:]
                rec["loaded_trace"] = diffrun.show_tgt_trace(res[2 * i + 1]["code"], 1, 400)[-400:]
            except Exception:
                pass
            run.violation("folded literal differs from the value computed at run time for the same operands", rec)
    run.cov["observe_pairs"] = len(pairs)
    run.cov["input_distribution"] = kinds
    if meta:
        run.sample({"constant_source": meta[0][0], "loaded_source": meta[0][1]})
    return len(pairs)


def math_readback(run, tier):
    """math functions, HASH/STR, constant lists, named constants: the literal is Python's value"""
    rng = run.rng
    fns = ["sin", "cos", "tan", "asin", "acos", "atan", "sqrt", "log", "exp"]
    jobs, exp = [], []
    for _ in range(40 if tier == "quick" else 400):
        f = rng.choice(fns)
        x = rng.choice([0.5, 0.25, 0.1, 1, 0.75, 0.9, 2, 3, 10, 0.001])
        if f in ("asin", "acos") and abs(x) > 1:
            x = 0.5
        jobs.append((f"db.Setting = {f}({x!r})\n", impl.vec(append_version=False)))
        exp.append((f, x, getattr(math, f)(x)))
    for a, b in [(1.0, 2.0), (0.5, 0.25), (3, 4)]:
        jobs.append((f"db.Setting = atan2({a!r}, {b!r})\n", impl.vec(append_version=False)))
        exp.append(("atan2", (a, b), math.atan2(a, b)))
    extra = [("db.Setting = [4, 5.5, 6][1]\n", 5.5), ("db.Setting = [4, 5, 6][2] + 1\n", 7), ("db.Setting = pi\n", math.pi),
             ("db.Setting = tau / 2\n", math.pi), ("a = 3\nb = a * 2\ndb.Setting = b\n", 6),
             ("x = 2.5\ndb.Setting = x - 0.5\n", 2.0)]
    # HASH("..") operands of folded comparisons: in verbose mode the folder sees the text, not the number
    from ..ic10 import signed_crc
    for nm in ["abc", "Steel", "StructureWallLight"]:
        h = signed_crc(nm)
        extra += [(f'db.Setting = (HASH("{nm}") == {h}) + 1\n', 2), (f'db.Setting = (HASH("{nm}") != {h}) + 1\n', 1),
                  (f'db.Setting = (HASH("{nm}") == {h + 1}) + 1\n', 1), (f'db.Setting = ({h} == HASH("{nm}")) * 5\n', 5),
                  (f'db.Setting = (HASH("{nm}") == HASH("{nm}")) + (HASH("{nm}") != HASH("x{nm}"))\n', 2)]
    for src, v in extra:
        jobs.append((src, impl.vec(append_version=False)))
        exp.append(("const", src, v))
        if "HASH" in src:
            jobs.append((src, impl.vec(append_version=False, compact=True)))
            exp.append(("const", src, v))
    res = impl.compile_many(jobs)
    for (src, opts), r, (f, x, want) in zip(jobs, res, exp):
        run.count("evaluations")
        if "code" not in r:
            run.violation("constant expression failed to compile", {"kind": "readback", "source": src, "error": str(r.get("error"))[:300]})
            continue
        m = re.search(r"^s db Setting (\S+)$", r["code"], re.M)
        lines = [l for l in r["code"].split("\n") if l.strip()]
        if not m or len(lines) != 1:
            run.violation("constant expression was not folded to a single store of a literal",
                          {"kind": "readback", "source": src, "code": r["code"]})
            continue
        from ..ic10 import literal_value
        got = literal_value(m.group(1))
        if got is None or abs(float(got) - want) > 1e-15 * max(1.0, abs(want)) * 4:
            run.violation("folded literal is not the value Python computes",
                          {"kind": "readback", "source": src, "literal": m.group(1), "python_value": repr(want)})
    return len(jobs)


def main(tier, seed):
    run = core.Run("C03", tier, seed, "proof")
    core.setup_impl_import()
    ass = core.standard_proof_phase(run, "C03", gen.gen_ops, "PV.Props.C03", extra_targets=["theories/Valid/Diff.vo"])
    n1 = lambda_corr(run, tier)
    n2 = observe(run, tier)
    n3 = math_readback(run, tier)
    run.cov["evaluations"] = n1 + n2 + n3
    run.cov["distinct_nontrivial"] = n1 + n2
    run.cov["traces_validated_against_impl"] = n1 + n2
    run.cov["rule"] = ("(a) each table lambda evaluated by CPython and by the Coq model on operand pairs from a boundary grid (zero, signs, fractions, 2^53 neighbours, ints and floats); "
                       "(b) random constant expression trees (depth 1-3, operators drawn within their domains) in four program shapes, compiled once with literal operands and once with the operands loaded from the stack, both run on the machine model; "
                       "(c) math functions / lists / named constants / propagation: emitted literal vs Python's value")
    return run.finish(assumptions_text=ass, trusted_extra=TRUST,
                      assumptions=["operands in the domain of the property: finite doubles; non-negative integers below 2^53 for bitwise operators and shifts; modulus not negative"])
