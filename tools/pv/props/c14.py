"""C14 — the compile daemon answers every request with exactly one line."""
import base64
import json
import os
import subprocess

from .. import core, gen

TRUST = [
    "Model/SkelSem.v: semantics of control skeletons (terminating executions; any expression not listed as safe may raise any Exception subclass; BaseException-only exceptions outside the model)",
    "assumed not to raise (Model/SkelEnvs.v): log/error helpers, time.time(), traceback.format_exc(), literals, json.dumps of a response dictionary, the print itself, str.strip, readline on a stream reconfigured with errors='replace'",
    "translator tools/pyt2coq/skeletons.py (statement structure, expressions as normalised text)",
    "OS pipes, interpreter start-up and stdio buffering are runtime behaviour: exercised by the scripted-stdin runs only",
]

ENVS = [
    ("default", {}),
    ("C.UTF-8", {"LC_ALL": "C.UTF-8", "LANG": "C.UTF-8"}),
    ("C", {"LC_ALL": "C", "LANG": "C"}),
    ("PYTHONUTF8", {"PYTHONUTF8": "1"}),
    ("IOENC", {"PYTHONIOENCODING": "utf-8"}),
]


def b64(obj):
    return base64.b64encode(json.dumps(obj).encode()).decode()


def gen_request(rng, k):
    """-> (line bytes, kind, marker).  marker identifies the expected answer."""
    c = rng.randint(1, 24)
    src = f"db.Setting = {1000 + k}\n"
    if c == 24:
        # a program whose result exceeds what the chip holds (more than 128 lines and 4096 bytes)
        big = "".join(f"d{i % 6}.Setting = d{(i + 1) % 6}.Setting + {1000 + k}\n" for i in range(150))
        return b64({"action": "compile", "code": {"": big}}).encode(), "ok", str(1000 + k)
    if c == 23:
        # a constexpr function that reads standard input: the requests still waiting there are not its to take
        s3 = "@constexpr\ndef g():\n    import sys\n    sys.stdin.buffer.read()\n    return 3\n" + f"db.Setting = g() + {1000 + k}\n"
        return b64({"action": "compile", "code": {"": s3}}).encode(), "any", None
    if c <= 5:
        return b64({"action": "compile", "code": {"": src}}).encode(), "ok", str(1000 + k)
    if c == 6:
        return b64({"action": "compile", "code": {"": src}, "options": {"compact": True, "append_version": False}}).encode(), "ok", str(1000 + k)
    if c == 7:
        lib = "def f(x):\n    return x + 1\n"
        main = f"from library import m\ndb.Setting = m.f({1000 + k})\ndb.Setting = m.f(2)\n"
        return b64({"action": "compile", "code": {"": main, "m": lib}}).encode(), "ok", str(1000 + k)
    if c == 8:
        return b"!!!not-base64@@@", "error", None
    if c == 9:
        return base64.b64encode(b"{not json").decode().encode(), "error", None
    if c == 10:
        return b64([1, 2, 3]).encode(), "error", None
    if c == 11:
        return b64("just a string").encode(), "error", None
    if c == 12:
        return b64({"code": {"": src}}).encode(), "error", None
    if c == 13:
        return b64({"action": "format", "code": {"": src}}).encode(), "error", None
    if c == 14:
        return b64({"action": "compile"}).encode(), "error", None
    if c == 15:
        return b64({"action": "compile", "code": src}).encode(), "any", None
    if c == 16:
        return b64({"action": "compile", "code": {"": src}, "options": {"no_such_option": 1}}).encode(), "error", None
    if c == 17:
        return b64({"action": "compile", "code": {"": "def f(:\n  pass\n"}}).encode(), "compile_error", None
    if c == 18:
        return b64({"action": "compile", "code": {"": "print('hello')\nimport os\nos.system('echo hi')\n"}}).encode(), "compile_error", None
    if c == 19:
        s2 = "@constexpr\ndef g():\n    print('noise')\n    return 3\n" + f"db.Setting = g() + {1000 + k}\n"
        return b64({"action": "compile", "code": {"": s2}}).encode(), "any", None
    if c == 20:
        return b"\xff\xfe\xfa" + b64({"action": "compile", "code": {"": src}}).encode()[:20], "error", None
    if c == 21:
        return b64({"action": "compile", "code": {"": src}, "options": "compact"}).encode(), "error", None
    return b64({"action": "compile", "code": {"other": src}}).encode(), "any", None


def gen_script(rng, n):
    reqs, lines = [], []
    for k in range(n):
        r = rng.random()
        if r < 0.08:
            lines.append(b"")            # blank line: no answer expected
            continue
        if r < 0.12:
            lines.append(b"   \t ")      # whitespace only: stripped to empty, no answer
            continue
        line, kind, marker = gen_request(rng, k)
        reqs.append((kind, marker, line))
        lines.append(line)
    tail = rng.choice(["EXIT", "EOF", "EXIT_THEN_MORE"])
    data = b"\n".join(lines) + b"\n"
    if tail == "EXIT":
        data += b"EXIT\n"
    elif tail == "EXIT_THEN_MORE":
        data += b"EXIT\n" + b64({"action": "compile", "code": {"": "db.Setting = 1\n"}}).encode() + b"\n"
    return data, reqs, tail


def run_daemon(data, extra_env, timeout=120):
    env = core.impl_env(extra_env)
    env.pop(core.GUARD, None)
    p = subprocess.Popen([core.PYTHON, "-m", "stationeers_pytrapic.mod_daemon"], stdin=subprocess.PIPE,
                         stdout=subprocess.PIPE, stderr=subprocess.PIPE, env=env, cwd="/")
    try:
        out, err = p.communicate(data, timeout=timeout)
        return out, err, p.returncode, False
    except subprocess.TimeoutExpired:
        p.kill()
        out, err = p.communicate()
        return out, err, None, True


def classify_reply(line):
    try:
        obj = json.loads(base64.b64decode(line, validate=True).decode("utf-8"))
    except Exception as e:
        return None, f"not base64 JSON: {e!r}"
    if not isinstance(obj, dict):
        return None, "JSON is not an object"
    if "code" in obj and isinstance(obj["code"], str):
        return ("ok", obj), None
    if "error" in obj:
        return ("error", obj), None
    return None, f"object has neither 'code' nor 'error': {list(obj)[:5]}"


def main(tier, seed):
    run = core.Run("C14", tier, seed, "proof")
    core.setup_impl_import()
    ass = core.standard_proof_phase(run, "C14", gen.gen_skeletons, "PV.Props.C14")
    rng = run.rng
    nscripts = 10 if tier == "quick" else 120
    kinds = {}
    total_reqs = 0
    def long_script():
        # more input than the daemon buffers at once (hundreds of requests written in one go), the first
        # request running a constexpr function that reads standard input to its end
        s3 = "@constexpr\ndef g():\n    import sys\n    sys.stdin.buffer.read()\n    return 3\ndb.Setting = g() + 1\n"
        reqs = [("any", None, b64({"action": "compile", "code": {"": s3}}).encode())]
        big = "".join(f"d{i % 6}.Setting = d{(i + 1) % 6}.Setting + 4999\n" for i in range(150))
        reqs.append(("ok", "4999", b64({"action": "compile", "code": {"": big}}).encode()))
        for k in range(300):
            reqs.append(("ok", str(5000 + k), b64({"action": "compile", "code": {"": f"db.Setting = {5000 + k}\n" + "# padding padding padding\n" * 6}}).encode()))
        return b"\n".join(l for _, _, l in reqs) + b"\nEXIT\n", reqs, "EXIT"
    for i in range(nscripts + 1):
        if i == nscripts:
            data, reqs, tail = long_script()
        else:
            data, reqs, tail = gen_script(rng, rng.randint(5, 25 if tier == "quick" else 60))
        envname, extra = ENVS[i % len(ENVS)]
        has_bad_bytes = any(l.startswith(b"\xff") for _, _, l in reqs)
        out, err, rc, hung = run_daemon(data, extra)
        run.count("evaluations")
        total_reqs += len(reqs)
        rec_base = {"environment": envname, "stdin_hex": data.hex()[:6000], "requests": [(k, m) for k, m, _ in reqs],
                    "tail": tail, "undecodable_bytes_in_input": has_bad_bytes, "stderr_tail": err.decode("utf-8", "replace")[-600:]}
        if hung:
            run.violation("the daemon did not exit after EXIT / end of input", dict(rec_base, kind="hang"))
            continue
        lines = out.split(b"\n")
        if lines and lines[-1] == b"":
            lines = lines[:-1]
        elif out:
            run.violation("standard output does not end with a newline", dict(rec_base, kind="format", stdout_tail=out[-200:].decode("latin-1")))
        if len(lines) != len(reqs):
            run.violation(f"{len(reqs)} non-empty request lines but {len(lines)} reply lines",
                          dict(rec_base, kind="count", replies=len(lines), expected=len(reqs),
                               stdout_head=out[:400].decode("latin-1")))
            continue
        for j, (ln, (kind, marker, _)) in enumerate(zip(lines, reqs)):
            cls, why = classify_reply(ln)
            kinds[kind] = kinds.get(kind, 0) + 1
            if cls is None:
                run.violation(f"reply {j} is not a base64-encoded JSON result/error object: {why}",
                              dict(rec_base, kind="format", reply_index=j, reply=ln[:200].decode("latin-1")))
                continue
            c, obj = cls
            if kind == "ok" and (c != "ok" or (marker and marker not in obj["code"])):
                run.violation(f"reply {j} does not answer request {j} (expected the compile result containing {marker})",
                              dict(rec_base, kind="order", reply_index=j, reply=json.dumps(obj)[:400]))
            if kind in ("error", "compile_error") and c != "error":
                run.violation(f"reply {j}: a faulty request was answered with a result", dict(rec_base, kind="order", reply_index=j, reply=json.dumps(obj)[:400]))
        if rc not in (0,):
            run.violation(f"daemon exit status {rc}", dict(rec_base, kind="exit"))
    run.cov["distinct_nontrivial"] = total_reqs
    run.cov["traces_validated_against_impl"] = nscripts
    run.cov["rule"] = "scripted standard input for a fresh daemon process: 5-25 (thorough: up to 60) lines drawn from 24 request kinds (valid compiles with markers, invalid base64 / JSON / shapes / actions / options, failing and printing sources, printing constexpr, a constexpr function that reads standard input, a program larger than the chip, raw undecodable bytes, blank lines), ended by EXIT, EOF or EXIT followed by more input; one script of 301 requests written at once whose first request runs a constexpr function that reads standard input; five interpreter environments; non-trivial = one request line"
    run.cov["input_distribution"] = kinds
    run.sample({"requests": 12, "kinds": list(kinds)[:8]})
    return run.finish(assumptions_text=ass, trusted_extra=TRUST)
