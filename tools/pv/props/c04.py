"""C04 — register allocation never lets one live value overwrite another."""
import re

from .. import core, gen, impl, progen, pipeline
from ..ic10 import Parsed
from .sigtable import SIG

TRUST = [
    "Model/RegAlloc.v models assign_colors / scope ordering / per-scope register choice; compared with the real assign_colors on synthetic interval sets and with the allocation decisions exported by the hook on every compile",
    "hook PYTRAPIC_VERIF=1: pre-allocation instruction list with virtual registers, owners, scopes with lifetimes/colours, called_from, final map",
    "the liveness-based interference check (tools/pv/props/c04.py) is harness code: a CFG over the pre-allocation instructions with call/return edges; it is exploration, not a verified checker (AllocCheck with a soundness theorem is not built)",
    "that line-interval lifetimes cover true liveness is NOT proved; it is what the interference check and the register-pressure runs test",
]


# ---------------------------------------------------------------------------- colouring correspondence
def colours_corr(run, tier):
    from stationeers_pytrapic.register_assignment import assign_colors
    from stationeers_pytrapic.types import IC10Register
    rng = run.rng
    cases, recs = [], []
    for _ in range(400 if tier == "quick" else 8000):
        n = rng.randint(0, 14)
        syms = []
        for i in range(n):
            a = rng.randint(0, 12)
            b = a + rng.randint(1, 8)
            if rng.random() < 0.1:
                a, b = 0, 2 ** 62
            syms.append((i, a, b))
        regs = []
        for i, a, b in syms:
            r = IC10Register(f"v{i}")
            r._lifetime = range(a, b)
            regs.append(r)
        assign_colors(regs)
        cols = [r._color for r in regs]
        sl = "[" + "; ".join(f"{{| s_id := {i}; s_start := {a}; s_stop := {b} |}}" for i, a, b in syms) + "]"
        ex = "[" + "; ".join(f"({i}, {c})" for (i, _, _), c in zip(syms, cols)) + "]%nat"
        cases.append(f"({sl}, {ex})")
        recs.append((syms, cols))
    defs = """
Definition chk (c : list sym * list (nat * nat)) : bool :=
  forallb (fun p => match colour_of (assign_colors (fst c)) (fst p) with Some k => Nat.eqb k (snd p) | None => false end) (snd c).
"""
    try:
        bad = core.coq_mismatches("c04col", "From PV Require Import Model.RegAlloc.\nLocal Open Scope Z_scope.", "chk", cases, shard=500, defs=defs)
    except core.CoqEvalError as e:
        run.obligation_broken("model evaluation (assign_colors cases)", str(e))
        bad = []
    for i in bad[:10]:
        syms, cols = recs[i]
        # is the property itself violated on this input?
        clash = [(a, b) for a in range(len(syms)) for b in range(a + 1, len(syms))
                 if syms[a][1] < syms[b][2] and syms[b][1] < syms[a][2] and cols[a] == cols[b]]
        if clash:
            run.violation("assign_colors gives one colour to two symbols with overlapping lifetimes",
                          {"kind": "colouring", "symbols": syms, "colours": cols, "clash": clash[0]})
        else:
            run.violation("model and implementation of assign_colors disagree", {"kind": "correspondence", "symbols": syms, "colours": cols}, no_input=True)
    for syms, cols in recs:
        for a in range(len(syms)):
            for b in range(a + 1, len(syms)):
                if syms[a][1] < syms[b][2] and syms[b][1] < syms[a][2] and cols[a] == cols[b]:
                    run.violation("assign_colors gives one colour to two symbols with overlapping lifetimes",
                                  {"kind": "colouring", "symbols": syms, "colours": cols, "clash": (a, b)})
    return len(cases)


# ---------------------------------------------------------------------------- hook export vs model
def export_check(run, c):
    ra = (c.result.get("_verif") or {}).get("regalloc")
    if not ra:
        return
    cf = ra["called_from"]
    order = ra["sorted_scopes"]
    pos = {s: i for i, s in enumerate(order)}
    for s, callers in cf.items():
        for k in callers:
            if s in pos and k in pos and pos[k] > pos[s]:
                run.violation(f"scope '{s}' is coloured before its caller '{k}'", {"kind": "scope_order", "source": c.prog.text(), "options": c.opts, "order": order, "called_from": cf})
    blocked = {}
    mapping = ra["mapping"]
    recs = {sc["scope"]: sc for sc in ra["scopes"]}
    mapped_earlier = set()
    for name in order:
        parent = set()
        for k in cf.get(name, []):
            parent |= blocked.get(k, set())
        sc = recs.get(name)
        if sc is None:
            # a scope without register symbols passes on what its callers block
            blocked[name] = parent
            continue
        avail = sorted(set(range(16)) - parent)
        if avail != sc["available"]:
            run.violation(f"scope '{name}': available registers {sc['available']} differ from all16 minus the callers' registers {avail}",
                          {"kind": "available", "scope": name, "source": c.prog.text(), "options": c.opts})
        used = set()
        seen_vregs = set()
        for s in sc["symbols"]:
            v = s["vreg"]
            if v in seen_vregs or not str(v).startswith("__register."):
                continue
            seen_vregs.add(v)
            if v in mapped_earlier:
                continue            # shares the register of a symbol of an earlier scope (argument of an inlined call, alias)
            want = f"r{sc['available'][s['color']]}" if s["color"] < len(sc["available"]) else None
            got = mapping.get(v)
            if got is None:
                continue
            if want is not None and got != want and not any(t["vreg"] == v and t is not s for t in sc["symbols"]):
                run.violation(f"virtual register {v} got {got}, colour {s['color']} of the available list is {want}",
                              {"kind": "mapping", "scope": name, "source": c.prog.text(), "options": c.opts})
            m = re.fullmatch(r"r(\d+)", got or "")
            if not m or int(m.group(1)) > 15:
                run.violation(f"virtual register {v} is mapped to {got!r}, not one of r0-r15", {"kind": "range", "scope": name, "source": c.prog.text(), "options": c.opts})
            else:
                used.add(int(m.group(1)))
        blocked[name] = used | parent
        mapped_earlier |= seen_vregs
        # overlapping lifetimes inside the scope must have different colours (the model's theorem,
        # re-checked on the exported data)
        ss = [s for s in sc["symbols"]]
        for a in range(len(ss)):
            for b in range(a + 1, len(ss)):
                x, y = ss[a], ss[b]
                if x["vreg"] != y["vreg"] and x["start"] < y["stop"] and y["start"] < x["stop"] and x["color"] == y["color"]:
                    run.violation("two symbols with overlapping lifetimes share a colour", {"kind": "colouring", "scope": name, "symbols": [x, y], "source": c.prog.text(), "options": c.opts})


def certificate_term(c):
    """Gallina term (order, called_from, colours, registers) of one real allocation for RegScopes.check_alloc"""
    ra = (c.result.get("_verif") or {}).get("regalloc")
    if not ra:
        return None
    order = ra["sorted_scopes"]
    ids = {n: i for i, n in enumerate(order)}
    recs = {sc["scope"]: sc for sc in ra["scopes"]}
    mapping = ra["mapping"]
    mapped = set()
    cf, cols, given = [], [], []

    def nl(xs):
        return "[" + "; ".join(str(x) for x in xs) + "]"
    for name in order:
        i = ids[name]
        cf.append(f"({i}, {nl(sorted(ids[k] for k in ra['called_from'].get(name, []) if k in ids))})")
        sc = recs.get(name)
        if sc is None:
            cols.append(f"({i}, None)")
            continue
        cs, rs = [], []
        for sym in sc["symbols"]:
            v = sym["vreg"]
            if v in mapped or not str(v).startswith("__register."):
                continue
            mapped.add(v)
            got = mapping.get(v)
            m = re.fullmatch(r"r(\d+)", got or "")
            if not m:
                return None
            cs.append(sym["color"]); rs.append(int(m.group(1)))
        cols.append(f"({i}, Some {nl(cs)})")
        given.append(f"({i}, {nl(rs)})")
    return f"({nl(range(len(order)))}, [{'; '.join(cf)}], [{'; '.join(cols)}], [{'; '.join(given)}])"


# ---------------------------------------------------------------------------- liveness / interference
def interference(c):
    """-> list of problems: two simultaneously live virtual registers in one physical register, or
    a callee writing a register that is live across the call"""
    v = c.result.get("_verif") or {}
    vcode = v.get("vcode") or []
    mapping = (v.get("regalloc") or {}).get("mapping") or {}
    n = len(vcode)
    if not n:
        return []
    label_at = {}
    for i, ins in enumerate(vcode):
        op = ins["op"].strip()
        if op.endswith(":"):
            label_at[op[:-1]] = i

    def is_v(x):
        return isinstance(x, str) and x.startswith("__register.")
    defs, uses, succ = [set() for _ in range(n)], [set() for _ in range(n)], [[] for _ in range(n)]
    calls = {}
    entry_owner = {}
    for i, ins in enumerate(vcode):
        op = ins["op"].strip()
        o = ins.get("out")
        if o and is_v(o.get("reg")):
            defs[i].add(o["reg"])
        for a in ins["in"]:
            if is_v(a.get("reg")):
                uses[i].add(a["reg"])
        tgt = None
        toks = [a.get("val") if "val" in a else a.get("reg") for a in ins["in"]]
        if op.endswith(":"):
            succ[i].append(i + 1)
            continue
        sig = SIG.get(op)
        if op in ("j", "jal"):
            t = toks[0] if toks else None
            if t == "ra":
                pass                                     # return: successors added below
            elif isinstance(t, str) and t in label_at:
                if op == "jal":
                    calls[i] = label_at[t]
                    succ[i].append(i + 1)
                else:
                    succ[i].append(label_at[t])
            else:
                succ[i].append(i + 1)
        elif op == "jr":
            # jump table: any following instruction up to the end label may be reached
            k = i + 1
            while k < n and not vcode[k]["op"].strip().endswith(":") and k < i + 40:
                succ[i].append(k)
                k += 1
            if k < n:
                succ[i].append(k)
        elif sig and "t" in sig:
            t = toks[-1] if toks else None
            if isinstance(t, str) and t in label_at:
                succ[i].append(label_at[t])
            succ[i].append(i + 1)
        elif op == "hcf":
            pass
        else:
            succ[i].append(i + 1)
    succ = [[s for s in ss if s < n] for ss in succ]
    # intra-owner subroutines (for-list bodies): 'j ra' inside returns to the instructions after
    # every jal to a label of the same owner
    for i, ins in enumerate(vcode):
        if ins["op"].strip() == "j" and ins["in"] and ins["in"][0].get("val") == "ra" or \
                (ins["op"].strip() == "j" and ins["in"] and ins["in"][0].get("reg") == "ra"):
            own = ins.get("owner")
            for ci, tgt in calls.items():
                if vcode[tgt].get("owner") == own and vcode[ci].get("owner") == own:
                    succ[i].append(ci + 1)
                    succ[ci].append(tgt)
    # liveness; a call of another owner reads the virtual registers that are live at the callee's entry
    # (values held in variables shared between owners: globals of the main file or of a library module)
    owners_of = {}
    for i, ins in enumerate(vcode):
        for x in defs[i] | uses[i]:
            owners_of.setdefault(x, set()).add(ins.get("owner"))
    shared = {x for x, os_ in owners_of.items() if len(os_) > 1}
    live_in = [set() for _ in range(n)]
    live_out = [set() for _ in range(n)]
    for _round in range(12):
        changed = True
        while changed:
            changed = False
            for i in range(n - 1, -1, -1):
                out = set()
                for s in succ[i]:
                    out |= live_in[s]
                inn = uses[i] | (out - defs[i])
                if out != live_out[i] or inn != live_in[i]:
                    live_out[i], live_in[i] = out, inn
                    changed = True
        grew = False
        for ci, tgt in calls.items():
            if vcode[ci].get("owner") != vcode[tgt].get("owner"):
                extra = (live_in[tgt] & shared) - uses[ci]
                if extra:
                    uses[ci] |= extra
                    grew = True
        if not grew:
            break
    probs = []
    phys = lambda x: mapping.get(x, x)
    for i in range(n):
        for d in defs[i]:
            for w in live_out[i]:
                if w != d and phys(w) == phys(d):
                    probs.append({"at": i, "instruction": vcode[i]["op"], "defined": d, "clobbers_live": w, "register": phys(d),
                                  "line": vcode[i].get("line")})
    # calls to other owners: registers written in the callee (transitively) vs live across the call
    writes = {}
    for i, ins in enumerate(vcode):
        writes.setdefault(ins.get("owner"), set()).update(defs[i])
    callees = {}
    for ci, tgt in calls.items():
        a, b = vcode[ci].get("owner"), vcode[tgt].get("owner")
        if a != b:
            callees.setdefault(a, set()).add(b)
    def trans(o, seen=None):
        seen = seen or set()
        out = set(writes.get(o, set()))
        for k in callees.get(o, ()):  # noqa
            if k not in seen:
                seen.add(k)
                out |= trans(k, seen)
        return out
    for ci, tgt in calls.items():
        a, b = vcode[ci].get("owner"), vcode[tgt].get("owner")
        if a == b:
            continue
        across = {w for w in live_out[ci]} - defs[ci]
        w_callee = trans(b)
        for w in across:
            # (a write through the same virtual register is an assignment to a global, not a clobber)
            if any(d != w and phys(d) == phys(w) for d in w_callee):
                probs.append({"at": ci, "instruction": "jal " + str(vcode[ci]["in"][0].get("val")), "clobbers_live": w,
                              "register": phys(w), "callee": b, "line": vcode[ci].get("line")})
    return probs


# ---------------------------------------------------------------------------- register pressure programs
def pressure_programs(rng, n):
    """programs with k simultaneously live locals (some beyond 16), loop-carried variables, values
    live across calls at depth 1..3"""
    out = []
    LT = progen.LT
    for t in range(n):
        P = progen.Prog()
        k = rng.choice([3, 6, 9, 12, 14, 15, 16, 17, 20])
        depth = rng.randint(0, 3)
        # call chain f0 -> f1 -> ... each keeping a few values live across the inner call
        prev = None
        for d in range(depth):
            f = progen.Fn(f"h{d}", 1)
            m = rng.randint(1, 4)
            body = []
            for j in range(m):
                v = f"l{len(f.locals)}"
                f.locals.append(v)
                body.append(("assign", v, ("bin", "+", ("var", "p0"), ("num", j + 1))))
            if prev is not None:
                v = f"l{len(f.locals)}"
                f.locals.append(v)
                body.append(("assign", v, ("call", prev.name, [("var", "p0")])))
                prev.calls += 2
                acc = ("var", v)
            else:
                acc = ("read", "RKl", "d1.Setting", [("num", 0), ("num", 1), ("num", LT("Setting"))])
            for j in range(m):
                acc = ("bin", "+", acc, ("var", f.locals[1 + j]))
            body.append(("return", acc))
            f.body, f.returns_value = body, True
            P.funcs.append(f)
            prev = f
        main = []
        names = []
        loop = rng.random() < 0.5
        for j in range(k):
            g = f"g{j}"
            P.globals.append(g)
            names.append(g)
            main.append(("assign", g, ("read", "RKl", f"d{j % 6}.Setting", [("num", 0), ("num", j % 6), ("num", LT("Setting"))]) if j % 3 == 0 else ("num", j + 1)))
        if prev is not None:
            for r in range(2):
                g = f"g{len(P.globals)}"
                P.globals.append(g)
                main.append(("assign", g, ("call", prev.name, [("num", r + 2)])))
                names.append(g)
        use = ("num", 0)
        for g in names:
            use = ("bin", "+", use, ("var", g))
        store = ("effect", "EKs", "db.Setting = {3}", [("num", 0), ("num", 6), ("num", LT("Setting")), use])
        if loop:
            w = f"w{len(P.globals)}"
            P.globals.append(w)
            body = [("aug", w, "+", ("num", 1)), ("aug", names[0], "+", ("var", names[-1])), store]
            main += [("assign", w, ("num", 0)), ("while", ("cmp", "<", ("var", w), ("num", 3)), body)]
        else:
            main.append(store)
        main.append(("while", ("num", 1), [("effect", "EKyield", "yield_()", [])]))
        P.main = main
        P.features = {"pressure", f"live{k}", f"depth{depth}"}
        out.append((f"pressure/{t}", P))
    return out


class TextProg:
    """a program given as text (or as a dict of modules) rather than as a generator tree"""
    features = frozenset()

    def __init__(self, src):
        self.src = src

    def text(self):
        return self.src if isinstance(self.src, str) else self.src.get("", "")

    def dump(self):
        return repr(self.src)


def main(tier, seed):
    run = core.Run("C04", tier, seed, "proof")
    core.setup_impl_import()
    ass = core.standard_proof_phase(run, "C04", None, "PV.Props.C04", extra_targets=["theories/Valid/Diff.vo"])
    n1 = colours_corr(run, tier)
    rng = run.rng
    progs = pressure_programs(rng, 30 if tier == "quick" else 400)
    progs += [(f"gen/{i}", p) for i, p in enumerate(progen.generate(rng, 50 if tier == "quick" else 800))]
    from .c01 import load_corpus, compile_rot
    progs += load_corpus("clean")
    from .. import idioms
    progs += idioms.programs(rng)
    vns = ["default", "noinline", "compact", "pushpop"]
    allv = vns + ["tail", "tailinline", "pushpopinline"]
    cases = compile_rot([((name, p), allv if name.startswith(("idiom/", "corpus/")) else ([vns[i % 4], vns[(i + 1) % 4]] if tier == "quick" else vns))
                         for i, (name, p) in enumerate(progs)])
    oks = [c for c in cases if c.ok]
    kinds = {"compiled": len(oks), "out_of_registers": 0, "other_errors": 0, "interference_problems": 0}
    for c in cases:
        if not c.ok:
            if "Running out of registers" in c.error():
                kinds["out_of_registers"] += 1
            else:
                kinds["other_errors"] += 1
                if c.name.startswith("pressure/"):
                    run.violation("a register-pressure program is rejected with an error other than out-of-registers",
                                  {"kind": "error", "source": c.prog.text(), "options": c.opts, "error": c.error()[:300]})
    certs, cert_meta = [], []
    for c in oks:
        run.count("evaluations")
        export_check(run, c)
        t = certificate_term(c)
        if t:
            certs.append(t); cert_meta.append(c)
        for p in interference(c)[:3]:
            kinds["interference_problems"] += 1
            rec = dict(p)
            rec.update({"kind": "interference", "source": c.prog.text(), "options": c.opts, "option_set": c.vname, "code": c.result["code"],
                        "features": sorted(c.prog.features)})
            run.violation(f"virtual register {p['clobbers_live']} is live while its physical register {p['register']} is overwritten ({p['instruction']})", rec)
        # registers in the emitted text are r0..r15 only
        for m in re.finditer(r"\br(\d+)\b", "\n".join(l.split("#")[0] for l in c.result["code"].split("\n"))):
            if int(m.group(1)) > 15:
                run.violation(f"emitted text uses register r{m.group(1)}", {"kind": "range", "source": c.prog.text(), "options": c.opts, "code": c.result["code"]})
    # the repository's own programs and the text corpus (constructs outside the generator's grammar:
    # devices built from computed ids, Stack(ref_id=..), libraries): allocation re-derived, interference check
    tjobs, tmeta = [], []
    for name, src in impl.repo_programs():
        if "error" in name:
            continue
        for vn in (["default", "noinline"] if tier == "quick" else vns):
            tjobs.append((src, pipeline.VECTORS[vn]))
            tmeta.append((name, src, vn))
    for (name, src, vn), r in zip(tmeta, impl.compile_many(tjobs)):
        if "code" not in r:
            continue
        c = pipeline.Case(name, TextProg(src), vn, pipeline.VECTORS[vn], r)
        run.count("evaluations")
        kinds["text_programs"] = kinds.get("text_programs", 0) + 1
        export_check(run, c)
        t = certificate_term(c)
        if t:
            certs.append(t); cert_meta.append(c)
        for p in interference(c)[:3]:
            kinds["interference_problems"] += 1
            rec = dict(p)
            rec.update({"kind": "interference", "program": name, "source": src if isinstance(src, str) else src.get(""), "options": c.opts,
                        "option_set": vn, "code": r["code"], "features": ["text_program"]})
            run.violation(f"virtual register {p['clobbers_live']} is live while its physical register {p['register']} is overwritten ({p['instruction']})", rec)
    # every real allocation is run through the Coq model of the scope loop: an accepted certificate proves
    # (C04_allocation_certificate_sound) that in this compilation no scope shares a register with a transitive caller
    try:
        badc = core.coq_mismatches("c04cert", "From PV Require Import Model.RegScopes.",
                                   "fun c => match c with (o, cf, cols, g) => check_alloc o cf cols g end", certs, shard=150)
    except core.CoqEvalError as e:
        run.obligation_broken("allocation certificates (model evaluation)", str(e))
        badc = []
    kinds["allocation_certificates_accepted"] = len(certs) - len(badc)
    for i in badc[:5]:
        c = cert_meta[i]
        ra = c.result["_verif"]["regalloc"]
        run.violation("the allocation is not the one the model of the scope loop computes from the same order, call graph and colours (callers' registers not avoided, or order not callers-first)",
                      {"kind": "certificate", "source": c.prog.text(), "options": c.opts, "option_set": c.vname, "sorted_scopes": ra["sorted_scopes"],
                       "called_from": ra["called_from"], "mapping": ra["mapping"], "code": c.result["code"]})
    # behaviour of the register-pressure programs (a clobbered value changes an effect)
    try:
        pipeline.diff_cases(oks, name="c04d")
    except core.CoqEvalError as e:
        run.obligation_broken("differential execution", str(e))
    for c in oks:
        b = pipeline.bad_verdict(c) if c.verdicts else None
        if b:
            rec = pipeline.describe(c, *b, with_traces=False)
            if run.classify(rec) is None:
                rec = pipeline.describe(c, *b, with_traces=True)
                rec["prog_dump"] = c.prog.dump()
            rec["kind"] = "trace"
            run.violation("effects of a compiled program differ from the source (possible register clobber)", rec)
    run.cov["evaluations"] = n1 + len(oks)
    run.cov["distinct_nontrivial"] = len({c.result["code"] for c in oks})
    run.cov["traces_validated_against_impl"] = n1 + len(oks)
    run.cov["rule"] = "(a) random interval sets through the real assign_colors vs the Coq model and the disjointness property itself; (b) every compile (register-pressure programs with 3..20 simultaneously live variables, loop-carried variables, values live across call chains of depth 0..3; generated programs; corpus) under 2-4 option sets: exported scope order / available lists / colours / map re-derived, liveness-based interference check on the pre-allocation code, r0-r15 only, out-of-registers reported as an error, effect traces against the source"
    run.cov["input_distribution"] = kinds
    if oks:
        run.sample({"source": oks[0].prog.text()[:400], "mapping": (oks[0].result.get("_verif") or {}).get("regalloc", {}).get("mapping")})
    for f in run.findings.open_for("C04"):
        if f["id"] not in run.known_hits:
            run.note(f"known finding {f['id']} did not reproduce in this run")
    return run.finish(assumptions_text=ass, trusted_extra=TRUST)
