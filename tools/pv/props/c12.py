"""C12 — constexpr calls are replaced by exactly what the function returns."""
import json
import math
import re

from .. import core, gen, impl, ic10

TRUST = [
    "Model/Constexpr.v: byte-level model of re.search(r'\\b(open|eval|exec)\\b', text) (ASCII word characters; every byte above 127 counts as a word character, which is exact for letters and not compared for other non-ASCII symbols); compared with CPython's re on generated texts each run",
    "the VALUE of a call is computed by CPython in a child process and is not modelled: it is compared, per generated function x arguments x call position, with direct evaluation of the same function text in the checker's own interpreter (own signed CRC-32 for HASH) and with the program in which the call is replaced by that literal and the definition is deleted",
    "json.dumps/json.loads taken as inverse on integers (transport theorem covers the decimal text and the emitted literal for every integer); floats/booleans are covered by the runs only",
    "translator tools/pyt2coq/skeletons.py (statement skeletons of check_constexpr_function, handle_decorators, CompilerPassGatherCode.run)",
]

STR_POOL = ["abc", "it's", 'say "hi"', "a\\b", "tab\there", "nl\nx", "é", "Ωü", "", " ", "{x}", "%s", "'\"", "StructureWallLight",
            "ItemSteelIngot", "x" * 40, "a b c", "\\n", "#notacomment", "\x7f", "0"]
ENUMS = ["LogicType.On", "LogicType.Temperature", "LogicType.Setting", "SortingClass.Ores", "ConditionOperation.NotEquals",
         "SorterInstruction.FilterPrefabHashEquals", "LogicSlotType.Quantity", "LogicBatchMethod.Maximum"]


class G:
    """typed expression/body generator; every compound expression is fully parenthesised in the
    text, so the re-serialisation (astroid as_string) has to re-insert the necessary ones"""

    def __init__(self, rng, params):
        self.rng = rng
        self.vars = dict(params)          # name -> kind
        self.uses_math = False

    def pick(self, kind):
        names = [n for n, k in self.vars.items() if k == kind or (kind == "N" and k == "I")]
        return self.rng.choice(names) if names else None

    def I(self, d):
        r = self.rng
        if d <= 0 or r.random() < 0.25:
            c = r.random()
            v = self.pick("I")
            if v and c < 0.5:
                return v
            if c < 0.6:
                return r.choice(ENUMS)
            if c < 0.65:
                return r.choice(["0x10", "1_000", "0b101", "0o17", "10 ** 6", "2 ** 40"])
            return str(r.choice([0, 1, 2, 3, 5, 7, 10, 16, 100, 255, 1000, 65535, 123456789]))
        k = r.randrange(26)
        a = lambda: self.I(d - 1)
        if k < 3:
            return f"({a()} {r.choice('+-*')} {a()})"
        if k == 3:
            return f"({a()} // (abs({a()}) + 1))"
        if k == 4:
            return f"({a()} % (abs({a()}) + 1))"
        if k == 5:
            return f"(({a()} % 50) ** {r.randrange(4)})"
        if k == 6:
            return f"({a()} << {r.randrange(9)})"
        if k == 7:
            return f"({a()} >> {r.randrange(9)})"
        if k == 8:
            return f"({a()} {r.choice('&|^')} {a()})"
        if k == 9:
            return f"(~{a()})"
        if k == 10:
            return f"(-{a()})"
        if k == 11:
            return f"abs({a()})"
        if k == 12:
            return f"{r.choice(['min', 'max'])}({a()}, {a()})"
        if k == 13:
            return f"len({self.S(d - 1)})"
        if k == 14:
            return f"ord(({self.S(d - 1)} + 'x')[{r.randrange(2)}])"
        if k == 15:
            return f"HASH({self.S(d - 1)})"
        if k == 16:
            return f"int({self.N(d - 1)})"
        if k == 17:
            return f"round({self.N(d - 1)})"
        if k == 18:
            return f"sum([(i * {a()}) for i in range({r.randrange(5)})])"
        if k == 19:
            return f"({a()} if {self.B(d - 1)} else {a()})"
        if k == 20:
            return f"int({self.B(d - 1)})"
        if k == 21:
            return f"pow({a()} % 20, {r.randrange(3)})"
        if k == 22:
            return f"(-{a()} ** 2)"                         # precedence: -(x ** 2)
        if k == 23:
            return f"(({a()} - {a()}) - ({a()} - {a()}))"   # right operand needs its parentheses
        if k == 24:
            return f"(2 ** (3 ** ({a()} % 2)))"
        return f"divmod({a()}, 7)[{r.randrange(2)}]"

    def N(self, d):
        r = self.rng
        if d <= 0 or r.random() < 0.3:
            c = r.random()
            v = self.pick("N")
            if v and c < 0.4:
                return v
            if c < 0.7:
                return self.I(0)
            return r.choice(["0.5", "1e3", "2.5e-3", ".25", "1.", "3.141592653589793", "1e+20", "0.1", "123456.789", "1e-07"])
        k = r.randrange(10)
        a = lambda: self.N(d - 1)
        if k < 3:
            return f"({a()} {r.choice('+-*')} {a()})"
        if k == 3:
            return f"({a()} / (abs({a()}) + 1))"
        if k == 4:
            return f"float({self.I(d - 1)})"
        if k == 5:
            self.uses_math = True
            return f"math.sqrt(abs({a()}))"
        if k == 6:
            return f"({a()} if {self.B(d - 1)} else {a()})"
        if k == 7:
            return f"{r.choice(['min', 'max'])}({a()}, {a()})"
        if k == 8:
            self.uses_math = True
            return f"math.floor({a()})"
        return f"round({a()}, {r.randrange(4)})"

    def S(self, d):
        r = self.rng
        if d <= 0 or r.random() < 0.3:
            v = self.pick("S")
            if v and r.random() < 0.5:
                return v
            s = r.choice(STR_POOL)
            return repr(s) if r.random() < 0.7 else json.dumps(s, ensure_ascii=False)
        k = r.randrange(12)
        a = lambda: self.S(d - 1)
        if k == 0:
            return f"({a()} + {a()})"
        if k == 1:
            return f"({a()} * {r.randrange(4)})"
        if k == 2:
            return f"{a()}.{r.choice(['upper', 'lower', 'strip', 'title'])}()"
        if k == 3:
            return f"{a()}[::-1]"
        if k == 4:
            return f"{a()}[{r.randrange(3)}:{r.randrange(2, 6)}]"
        if k == 5:
            return f"str({self.I(d - 1)})"
        if k == 6:
            return "f\"{" + self.I(d - 1) + "}:{" + (self.pick("S") or "'q'") + "}\""
        if k == 7:
            return f"('%d-%s' % ({self.I(d - 1)}, {a()}))"
        if k == 8:
            return f"{a()}.replace({repr(r.choice(['a', ' ', 'x', 'e']))}, {repr(r.choice(['', '_', 'zz']))})"
        if k == 9:
            return f"'-'.join([{a()}, {a()}])"
        if k == 10:
            return f"chr(65 + ({self.I(d - 1)} % 26))"
        return f"'{{}}/{{}}'.format({self.I(d - 1)}, {a()})"

    def B(self, d):
        r = self.rng
        if d <= 0 or r.random() < 0.2:
            v = self.pick("B")
            if v and r.random() < 0.5:
                return v
            return r.choice(["True", "False"])
        k = r.randrange(9)
        if k < 2:
            return f"({self.N(d - 1)} {r.choice(['<', '<=', '>', '>=', '==', '!='])} {self.N(d - 1)})"
        if k == 2:
            return f"({self.S(d - 1)} {r.choice(['==', '!=', 'in', 'not in'])} {self.S(d - 1)})"
        if k == 3:
            return f"({self.B(d - 1)} and {self.B(d - 1)})"
        if k == 4:
            return f"({self.B(d - 1)} or {self.B(d - 1)})"
        if k == 5:
            return f"(not {self.B(d - 1)})"
        if k == 6:
            return f"({self.I(d - 1)} < {self.I(d - 1)} <= {self.I(d - 1)})"
        if k == 7:
            return f"{self.S(d - 1)}.startswith({repr(r.choice(['a', 'S', '', 'I']))})"
        return f"(not ({self.B(d - 1)} and {self.B(d - 1)}) or {self.B(d - 1)})"

    def expr(self, kind, d):
        return getattr(self, kind)(d)

    def body(self, result_kind):
        r = self.rng
        lines = []
        n = 0

        def new(kind):
            nonlocal n
            n += 1
            name = f"t{n}"
            return name

        for _ in range(r.randrange(4)):
            kind = r.choice("IINSB")
            c = r.random()
            if c < 0.6:
                e = self.expr(kind, 2)
                v = new(kind)
                lines.append(f"{v} = {e}")
                self.vars[v] = kind
            elif c < 0.75:
                cond, e1, e2 = self.B(2), self.expr(kind, 1), self.expr(kind, 1)
                v = new(kind)
                lines += [f"if {cond}:", f"    {v} = {e1}", f"elif {self.B(1)}:", f"    {v} = {e2}", "else:", f"    {v} = {self.expr(kind, 0)}"]
                self.vars[v] = kind
            elif c < 0.9:
                v = new("I")
                e = self.I(1)
                lines += [f"{v} = 0", f"for i in range({r.randrange(6)}):", f"    {v} += (i * {e})",
                          f"    if {v} > 1000:", "        break"]
                self.vars[v] = "I"
            else:
                v = new("I")
                lines += [f"{v} = {self.I(1)}", "c = 0", f"while {v} % 7 != 0 and c < 10:", f"    {v} = {v} + 1", "    c += 1"]
                self.vars[v] = "I"
        ret = self.expr(result_kind, 3)
        if self.uses_math:
            lines.insert(0, "import math")
        if r.random() < 0.15:
            lines.insert(0, '"""doc string with \'quotes\' and a # sign"""')
        lines.append(f"return {ret}")
        return lines


def arg_text(rng, kind):
    if kind == "I":
        return rng.choice(["7", "(3 + 4)", "-3", "0x10", "1_000", "2 ** 5", "0", "1", "-1", "12345678901", "HASH('abc')", "LogicType.On",
                           "(1 << 20)", "~5", "10 % 4"])
    if kind == "N":
        return rng.choice(["0.5", "1e3", "-.5", "2", "1 / 4", "-0.0", "3.0", "1e-7"])
    if kind == "S":
        s = rng.choice(STR_POOL)
        return rng.choice([repr(s), json.dumps(s, ensure_ascii=False), f"({repr(s)} + 'z')", f"{repr(s)} 'tail'"])
    return rng.choice(["True", "False", "(1 < 2)", "not True"])


def make_function(rng, name="f"):
    nparams = rng.randrange(1, 4)
    params = {}
    for i in range(nparams):
        params["abcd"[i]] = rng.choice("IINSB")
    result = rng.choice("IIINNBS")
    g = G(rng, params)
    body = g.body(result)
    defaults = {}
    sig = []
    for i, (p, k) in enumerate(params.items()):
        if i == nparams - 1 and rng.random() < 0.3:
            defaults[p] = arg_text(rng, k)
            sig.append(f"{p}={defaults[p]}")
        else:
            sig.append(p)
    text = f"def {name}({', '.join(sig)}):\n" + "\n".join("    " + l for l in body) + "\n"
    return {"name": name, "params": params, "defaults": defaults, "result": result, "text": text}


def make_call(rng, fn, prefix=""):
    args = []
    items = list(fn["params"].items())
    for i, (p, k) in enumerate(items):
        if p in fn["defaults"] and rng.random() < 0.5:
            continue
        a = arg_text(rng, k)
        if i == len(items) - 1 and rng.random() < 0.3:
            args.append(f"{p}={a}")
        else:
            args.append(a)
    return f"{prefix}{fn['name']}({', '.join(args)})"


# ---- direct evaluation -------------------------------------------------------------------
_NS = None


def direct_namespace():
    global _NS
    if _NS is None:
        ns = {}
        exec("from stationeers_pytrapic.symbols import *\nfrom stationeers_pytrapic.types import *\n"
             "from stationeers_pytrapic.types_generated import *\nfrom builtins import *\n", ns)
        ns["HASH"] = lambda s: ic10.signed_crc(s)
        ns["constexpr"] = lambda f: f
        _NS = ns
    return dict(_NS)


def direct(fn_texts, call):
    ns = direct_namespace()
    try:
        for t in fn_texts:
            exec(t, ns)
        v = eval(call, ns)
    except BaseException as e:  # noqa
        return ("raise", type(e).__name__)
    return ("value", v)


def literal_text(v):
    if isinstance(v, bool):
        return "True" if v else "False"
    if isinstance(v, int):
        return f"({int(v)!r})"
    if isinstance(v, float) and math.isfinite(v):
        return f"({v!r})"
    if isinstance(v, str):
        return repr(v)
    return None


# ---- call positions: (name, builder(X, defs) -> source or module dict) ------------------------
def positions():
    P = []
    P.append(("main", lambda X, D: f"{D}d5.Setting = {X}\n"))
    P.append(("in_expression", lambda X, D: f"{D}d5.Setting = d0.On + {X}\n"))
    P.append(("nested_expression", lambda X, D: f"{D}d5.Setting = max(d0.On * {X}, 2) - {X}\n"))
    P.append(("function_body", lambda X, D: f"{D}def h(x):\n    return x + {X}\nd5.Setting = h(d0.On)\nd5.Setting = h(d1.On)\n"))
    P.append(("loop_and_branch", lambda X, D: f"{D}while d0.On < {X}:\n    if d1.On == {X}:\n        d5.Setting = {X}\n    yield_()\n"))
    P.append(("argument_of_function", lambda X, D: f"{D}def h(x):\n    return x * 2\nd5.Setting = h({X})\nd4.Setting = h(d0.On)\n"))
    P.append(("stack_and_subscript", lambda X, D: f"{D}st = Stack(d0)\nst[3] = {X}\nd5.Setting = st[4] + {X}\n"))
    return P


OPTS = [dict(), dict(inline_functions=False), dict(compact=True), dict(remove_labels=True, inline_functions=False)]


def code_of(r):
    if isinstance(r, dict) and "code" in r:
        return r["code"]
    return None


def err_of(r):
    if isinstance(r, dict):
        if "raised" in r:
            return "raised: " + r["raised"]
        if r.get("hang"):
            return "hang"
        e = r.get("error")
        if e is not None:
            return (e.get("description") if isinstance(e, dict) else str(e)) or "error"
    return None


def forbidden_texts(rng, n):
    words = ["open", "eval", "exec", "opened", "reopen", "evaluate", "exec_", "_exec", "Open", "EVAL", "openx", "xeval", "e", "exe"]
    seps = [" ", "(", ")", ".", ",", ":", "\n", "'", '"', "+", "=", "_", "1", "a", "é", "Ж", "-", "[", "\t", ""]
    out = []
    for _ in range(n):
        parts = []
        for _ in range(rng.randrange(1, 7)):
            parts.append(rng.choice(seps))
            parts.append(rng.choice(words))
        parts.append(rng.choice(seps))
        out.append("".join(parts))
    out += ["open", "", "eval", "exec", " open", "open ", "openeval", "open eval", "a.open(b)", "x=exec", "éopen", "opené", "_open_", "open_eval"]
    return out


def bytes_term(s):
    return core.coq_N_list(list(s.encode("utf-8")))


def main(tier, seed):
    run = core.Run("C12", tier, seed, "proof")
    core.setup_impl_import()
    ass = core.standard_proof_phase(run, "C12", gen.gen_skeletons, "PV.Props.C12",
                                    extra_targets=["theories/Model/ConstexprProofs.vo"])
    rng = run.rng
    dist = {}

    def bump(k, n=1):
        dist[k] = dist.get(k, 0) + n

    # ---- 1. the forbidden-word test: model vs CPython's re (pattern as proved present in the source)
    pat = re.compile(r"\b(open|eval|exec)\b")
    texts = forbidden_texts(rng, 1500 if tier == "quick" else 20000)
    cases = [f"({bytes_term(t)}, {'true' if pat.search(t) else 'false'})" for t in texts]
    try:
        bad = core.coq_mismatches("c12w", "From PV Require Import Base.PyStr Model.Constexpr.",
                                  "fun c => Bool.eqb (forbidden (fst c)) (snd c)", cases, shard=400)
    except core.CoqEvalError as e:
        run.obligation_broken("model evaluation (forbidden-word cases)", str(e))
        bad = []
    run.count("evaluations", len(texts))
    bump("forbidden_word_texts", len(texts))
    bump("forbidden_word_texts_matching", sum(1 for t in texts if pat.search(t)))
    for i in bad[:5]:
        run.violation("model of the forbidden-word test and re.search disagree",
                      {"kind": "forbidden_model", "text": texts[i], "re": bool(pat.search(texts[i]))})

    # ---- 2. rejection end to end: function texts with the words in code positions
    rej_jobs, rej_meta = [], []
    import astroid
    templates = [
        "def f(a):\n    return {W}('1')\n", "def f(a):\n    {W} = 3\n    return {W} + a\n", "def f(a):\n    return a.{W}\n",
        "def f(a):\n    return '{W}'\n", "def f(a):\n    # {W}\n    return a\n", "def f({W}):\n    return 1\n",
        "def f(a):\n    x{W} = 1\n    return x{W}\n", "def f(a):\n    {W}_ = 1\n    return {W}_\n", "def f(a):\n    return [{W} for {W} in [1]][0]\n",
        "def f(a):\n    import os\n    return os.{W}\n", "def {W}2(a):\n    return a\n", "def f(a):\n    '''doc {W} doc'''\n    return a\n",
        "def f(a):\n    return getattr(a, '{W}', 3)\n", "def f(a):\n    return 1 if a else {W}\n",
    ]
    for W in ["open", "eval", "exec", "opened", "evaluate", "executor", "Open"]:
        for t in templates:
            ftxt = t.replace("{W}", W)
            name = re.match(r"def (\w+)", ftxt).group(1)
            try:
                as_string = astroid.parse("@constexpr\n" + ftxt).body[0].as_string()
            except Exception:
                continue
            src = "@constexpr\n" + ftxt + "d5.Setting = 1\n"
            rej_jobs.append((src, impl.vec(append_version=False)))
            rej_meta.append((src, as_string, bool(pat.search(as_string))))
    rej_res = impl.compile_many(rej_jobs, workers=8)
    for (src, as_string, want), r in zip(rej_meta, rej_res):
        run.count("evaluations")
        bump("rejection_programs")
        e = err_of(r)
        rejected = e is not None and "cannot contain open, eval or exec" in e
        if want:
            bump("rejection_programs_forbidden")
        if rejected != want:
            run.violation(("a constexpr function containing a forbidden word was accepted" if want else
                           "a constexpr function without a forbidden word was rejected as containing one"),
                          {"kind": "rejection", "source": src, "function_text": as_string, "expected_rejected": want,
                           "result": e or code_of(r)})

    # ---- 3. values: generated functions x arguments x positions
    nfun = 45 if tier == "quick" else 900
    pos = positions()
    jobs, meta = [], []
    for fi in range(nfun):
        fn = make_function(rng)
        helper = None
        if rng.random() < 0.25:
            helper = make_function(rng, "g")
        for ci in range(2):
            call = make_call(rng, fn)
            fns = [fn["text"]]
            if helper and fn["params"]:
                # nested constexpr call: the first argument goes through a second constexpr function when the kinds agree
                k0 = list(fn["params"].values())[0]
                if helper["result"] == k0 or (k0 == "N" and helper["result"] == "I"):
                    hc = make_call(rng, helper)
                    rest = call[len(fn["name"]) + 1:]
                    first_end = split_first_arg(rest)
                    if first_end is not None and "=" not in rest[:first_end]:
                        call = f"{fn['name']}({hc}{rest[first_end:]}"
                        fns.append(helper["text"])
            dv = direct(fns, call)
            kind = dv[0]
            bump("direct_" + kind)
            defs = "".join("@constexpr\n" + t for t in fns)
            chosen = rng.sample(pos, 2 if tier == "quick" else 4)
            if fi % 5 == 0:
                chosen = chosen + [("library_called_from_main", None)]
            if fi % 5 == 1:
                chosen = chosen + [("library_called_inside_library", None)]
            if fi % 5 == 2:
                chosen = chosen + [("library_constexpr_calls_constexpr", None)]
            for pname, build in chosen:
                opts = impl.vec(append_version=False, **rng.choice(OPTS))
                lit = literal_text(dv[1]) if kind == "value" else None
                if build is not None:
                    with_call = build(call, defs)
                    with_lit = build(lit, "") if lit is not None else None
                elif pname == "library_called_from_main":
                    lib = defs + "def other(x):\n    return x + 1\n"
                    qual = re.sub(r"\b(f|g)\(", r"m.\1(", call)
                    with_call = {"": f"from library import m\nd5.Setting = d0.On + {qual}\n", "m": lib}
                    with_lit = {"": f"from library import m\nd5.Setting = d0.On + {lit}\n", "m": "def other(x):\n    return x + 1\n"} if lit else None
                elif pname == "library_called_inside_library":
                    with_call = {"": "from library import m\nd5.Setting = m.other(d0.On)\nd5.Setting = m.other(d1.On)\n",
                                 "m": defs + f"def other(x):\n    return x + {call}\n"}
                    with_lit = {"": "from library import m\nd5.Setting = m.other(d0.On)\nd5.Setting = m.other(d1.On)\n",
                                "m": f"def other(x):\n    return x + {lit}\n"} if lit else None
                else:
                    wrap = f"@constexpr\ndef wrap():\n    return {call}\n"
                    with_call = {"": "from library import m\nd5.Setting = d0.On + m.wrap()\n", "m": defs + wrap + "def other(x):\n    return x + 1\n"}
                    with_lit = {"": f"from library import m\nd5.Setting = d0.On + {lit}\n", "m": "def other(x):\n    return x + 1\n"} if lit else None
                jobs.append((with_call, opts))
                meta.append({"role": "call", "position": pname, "functions": fns, "call": call, "direct": dv, "options": opts, "source": with_call})
                if with_lit is not None:
                    jobs.append((with_lit, opts))
                    meta.append({"role": "lit", "source": with_lit})
    res = impl.compile_many(jobs, workers=8)
    i = 0
    while i < len(jobs):
        m, r = meta[i], res[i]
        i += 1
        lit_r = lit_m = None
        if i < len(jobs) and meta[i]["role"] == "lit":
            lit_m, lit_r = meta[i], res[i]
            i += 1
        run.count("evaluations")
        bump("position_" + m["position"])
        e = err_of(r)
        kind, val = m["direct"]
        rec = {"kind": "value", "position": m["position"], "functions": m["functions"], "call": m["call"], "options": m["options"],
               "source": m["source"], "direct": repr(val), "result": (e or code_of(r))}
        if e is not None and "Timeout during evaluating constexpr" in e:
            run.count("inconclusive_constexpr_timeouts")
            continue
        if kind == "raise":
            if e is None:
                run.violation("direct evaluation of the call raises, the compiler emitted code", dict(rec, what="raises"))
            else:
                bump("agree_error")
            continue
        if isinstance(val, float) and not math.isfinite(val):
            rec["nonfinite"] = True
        if isinstance(val, str):
            rec["string_result"] = True
        if lit_m is None:
            # no literal to put in the call's place (string / non-finite / other): the compiler must not invent a number
            bump("no_literal_form")
            if e is None and not isinstance(val, str):
                run.violation("a constexpr result without a literal form was emitted as code", dict(rec, what="no_literal"))
            elif e is not None and "Internal compiler error" in e:
                run.violation("a constexpr result without a literal form ends in an internal compiler error",
                              dict(rec, what="no_literal_internal", finding_class="nonfinite_result" if rec.get("nonfinite") else "other"))
            continue
        le = err_of(lit_r)
        if le is not None:
            # the literal program itself does not compile: nothing to compare with (e.g. > 4300 digits)
            bump("literal_program_rejected")
            if e is None:
                run.violation("the program with the call compiles, the program with the literal in its place does not",
                              dict(rec, what="literal_rejected", literal_source=lit_m["source"], literal_result=le))
            continue
        if e is not None:
            run.violation("direct evaluation returns a value, the compiler reports an error", dict(rec, what="error"))
            continue
        if not same_code(code_of(r), code_of(lit_r)):
            run.violation("the emitted code differs from the code of the program with the literal in the call's place and the definition deleted",
                          dict(rec, what="differs", literal_source=lit_m["source"], literal_code=code_of(lit_r)))
            continue
        bump("agree_value")
        if m["position"] == "main" and not isinstance(val, (bool, str)):
            # independent reading of the literal itself
            mm = re.fullmatch(r"s d5 Setting (\S+)", code_of(r).strip())
            if mm:
                got = ic10.literal_value(mm.group(1))
                ok = got is not None and (got == val or (isinstance(val, float) and abs(got - val) <= 1e-15 * abs(val)))
                bump("literal_read_back")
                if not ok:
                    run.violation("the emitted literal does not read back as the returned value", dict(rec, what="readback", literal=mm.group(1)))
    # ---- 4. fixed regression programs (each was a defect once, or is a listed finding)
    fixed = [
        ("shadowed_builtins", "@constexpr\ndef f(a):\n    return abs(a) + max(a, 2) + min(a, 2, 3) + round(a / 4) + pow(a, 2)\nd5.Setting = f(-5)\n", "s d5 Setting 26"),
        ("library_inner_call", {"": "from library import m\nd5.Setting = m.g(3)\n", "m": "@constexpr\ndef f(x):\n    return x * 3\n@constexpr\ndef g(x):\n    return f(x) + 1\n"}, "s d5 Setting 10"),
        ("same_name_main_and_library", {"": "from library import m\n@constexpr\ndef scale(x):\n    return x + 1\nm.show()\nd4.Setting = scale(3)\n",
                                        "m": "@constexpr\ndef scale(x):\n    return x * 10\ndef show():\n    d5.Setting = scale(3)\n"}, "s d5 Setting 30\ns d4 Setting 4"),
        ("same_name_two_libraries", {"": "from library import m\nfrom library import n\nm.show()\nn.show()\n",
                                     "m": "@constexpr\ndef scale(x):\n    return x * 10\ndef show():\n    d5.Setting = scale(3)\n",
                                     "n": "@constexpr\ndef scale(x):\n    return x - 1\ndef show():\n    d4.Setting = scale(3)\n"}, "s d5 Setting 30\ns d4 Setting 2"),
        ("pow_is_the_builtin", "@constexpr\ndef f(a):\n    return pow(3, a) + pow(7, 5, 13)\nd5.Setting = f(40)\n", "__VALUE__%d" % (3 ** 40 + pow(7, 5, 13))),
        ("evaluated_once", "@constexpr\ndef cnt(x, acc=[]):\n    acc.append(x)\n    return len(acc)\nd5.Setting = cnt(5)\n", "s d5 Setting 1"),
        ("unused_constexpr_emits_nothing", "@constexpr\ndef f(a):\n    return a\nd5.Setting = 1\n", "s d5 Setting 1"),
        ("hash_is_signed_crc", "@constexpr\ndef f(a):\n    return HASH(a)\nd5.Setting = f('StructureWallLight')\n", f"s d5 Setting {ic10.signed_crc('StructureWallLight')}"),
        ("bool_result", "@constexpr\ndef f(a):\n    return a > 3\nd5.Setting = f(6)\nd4.Setting = f(1)\n", "s d5 Setting 1\ns d4 Setting 0"),
        ("string_result_in_hash", "@constexpr\ndef f(a):\n    return 'ab' + a\nd5.Setting = HASH(f('c'))\n", None),
        ("nonfinite_result", "@constexpr\ndef f(a):\n    return float('inf')\nd5.Setting = f(1)\n", None),
    ]
    fres = impl.compile_many([(s, impl.vec(append_version=False)) for _, s, _ in fixed], workers=4)
    for (name, src, want), r in zip(fixed, fres):
        run.count("evaluations")
        e = err_of(r)
        if e is not None and "Timeout during evaluating constexpr" in e:
            run.count("inconclusive_constexpr_timeouts")
            continue
        if want is not None and want.startswith("__VALUE__"):
            # the single literal must read back as this integer (its spelling is another property's business)
            mm = re.search(r"^s d5 Setting (\S+)$", code_of(r).strip()) if e is None else None
            if mm is None or ic10.literal_value(mm.group(1)) != int(want[9:]):
                run.violation(f"regression program {name}: unexpected result", {"kind": "fixed", "name": name, "source": src, "expected_value": want[9:], "result": e or code_of(r)})
        elif want is not None:
            if e is not None or "\n".join(l.strip() for l in code_of(r).strip().split("\n")) != want:
                run.violation(f"regression program {name}: unexpected result", {"kind": "fixed", "name": name, "source": src, "expected": want, "result": e or code_of(r)})
        else:
            if e is not None and "Internal compiler error" in e:
                run.violation(f"program {name} ends in an internal compiler error",
                              {"kind": "fixed", "name": name, "finding_class": name, "source": src, "result": e})
    run.cov["distinct_nontrivial"] = dist.get("agree_value", 0)
    run.cov["traces_validated_against_impl"] = len(jobs) + len(rej_jobs) + len(texts)
    run.cov["rule"] = ("generated constexpr functions (typed expression grammar over ints, floats, strings, booleans, enums, HASH; fully parenthesised text; "
                       "assignments, if/elif/else, for/while, docstrings, defaults, keyword arguments, nested constexpr calls) x 2 argument lists x call positions "
                       "(main, inside expressions, function body, loop/branch, argument of a function, Stack subscript, library called from main, "
                       "call inside a library function, library constexpr calling constexpr) under rotating options; each compared with direct evaluation and with the "
                       "program that has the literal in the call's place and no definition; non-trivial = a call whose value was confirmed both ways")
    run.cov["input_distribution"] = dist
    return run.finish(assumptions_text=ass, trusted_extra=TRUST)


def same_code(a, b):
    """equal texts, or texts that differ only in the spelling of numeric literals denoting the same
    binary64 value (an integer beyond 2^53 reaches the operand exactly from the constexpr result and
    through float arithmetic from a `-literal` in the source: same number on the chip)"""
    if a == b:
        return True
    la, lb = a.split("\n"), b.split("\n")
    if len(la) != len(lb):
        return False
    for x, y in zip(la, lb):
        tx, ty = ic10.tokenize(x), ic10.tokenize(y)
        if len(tx) != len(ty):
            return False
        for u, v in zip(tx, ty):
            if u == v:
                continue
            vu, vv = ic10.literal_value(u), ic10.literal_value(v)
            if vu is None or vv is None or float(vu) != float(vv):
                return False
    return True


def split_first_arg(rest):
    """rest = 'arg1, arg2)' -> index where the first argument ends (at ',' or the final ')')"""
    depth = 0
    q = None
    i = 0
    while i < len(rest):
        c = rest[i]
        if q:
            if c == "\\":
                i += 1
            elif c == q:
                q = None
        elif c in "'\"":
            q = c
        elif c in "([{":
            depth += 1
        elif c in ")]}":
            if depth == 0:
                return i
            depth -= 1
        elif c == "," and depth == 0:
            return i
        i += 1
    return None
