"""C18 — share links round-trip."""
import json
import zlib

from .. import core, gen

TRUST = [
    "zlib.compress/decompress, json.dumps/loads and UTF-8 are oracles with a round-trip hypothesis (premises of C18_share_roundtrip)",
    "Python's base64.b64encode/b64decode are modelled by Base/Base64.v; the model is compared with the implementation on every run",
]


class _Bytes:
    """Stands in for the str returned by json.dumps so that `.encode()` yields chosen bytes."""
    def __init__(self, b): self.b = b
    def encode(self, *a): return self.b
    def decode(self, *a): return self.b


def impl_transform(bs: bytes):
    """Run the implementation's encode_data / decode_data on raw bytes by replacing the
    zlib / json oracles with identities for the duration of the call."""
    from unittest import mock
    from stationeers_pytrapic import types as T
    with mock.patch("json.dumps", lambda d: _Bytes(d)), mock.patch("zlib.compress", lambda b: b):
        s = T.encode_data(bs)
    with mock.patch("json.loads", lambda x: x), mock.patch("zlib.decompress", lambda b: _Bytes(b)):
        back = T.decode_data(s)
    return s, back


def gen_dict(rng, size):
    planes = [(0x20, 0x7e), (0xa0, 0x2ff), (0x400, 0x4ff), (0x4e00, 0x4fff), (0x1f300, 0x1f5ff),
              (0xd800, 0xdfff), (0x0, 0x1f), (0xe000, 0xe0ff), (0x10fff0, 0x10ffff)]
    def text(n):
        out = []
        for _ in range(n):
            lo, hi = rng.choice(planes if rng.random() < 0.5 else planes[:1])
            c = rng.randint(lo, hi)
            # JSON itself merges a high surrogate followed by a low one into one character;
            # such a pair of code points is not Unicode text and is left out of the domain.
            if out and 0xd800 <= ord(out[-1]) <= 0xdbff and 0xdc00 <= c <= 0xdfff:
                c = 0x41
            out.append(chr(c))
            if rng.random() < 0.08:
                # line ends and blanks in every flavour: the text must come back unchanged
                out += list(rng.choice(["\r\n", "\r", "\n", "\t", "\r\n\r\n", " \r\n ", "\u2028", "\x0b", "\x00"]))
        return "".join(out)
    d = {"code": text(size)}
    if rng.random() < 0.7:
        d["options"] = {k: rng.choice([True, False, None, 0, 1.5, "x"]) for k in
                        rng.sample(["compact", "inline_functions", "remove_labels", "append_version",
                                    "tail_call_optimization", text(3)], rng.randint(0, 4))}
    if rng.random() < 0.3:
        d[text(2)] = [rng.randint(-2**40, 2**40), rng.random(), text(4), None, {"k": [1, 2]}]
    return d


def main(tier, seed):
    run = core.Run("C18", tier, seed, "proof")
    core.setup_impl_import()
    ass = core.standard_proof_phase(run, "C18", gen.gen_share, "PV.Props.C18")

    rng = run.rng
    from stationeers_pytrapic import types as T
    # --- byte-level correspondence: model vs implementation with oracles replaced by identities
    maxlen = 300 if tier == "quick" else 1200
    byte_cases = [bytes(rng.randrange(256) for _ in range(n)) for n in range(0, maxlen + 1)]
    byte_cases += [bytes([b]) * n for b in (0, 0xff, 0xfb, 0x3e, 0x3f) for n in (1, 2, 3, 4, 5, 6)]
    byte_cases += [bytes([0xfb, 0xff, 0xfe]), bytes([0xff] * 7), bytes(range(256))]
    nrand = 30 if tier == "quick" else 300
    for _ in range(nrand):
        byte_cases.append(bytes(rng.randrange(256) for _ in range(rng.randint(301, 3000))))
    cases, records = [], []
    hist = {}
    raised = []
    for bs in byte_cases:
        try:
            s, back = impl_transform(bs)
        except Exception as e:
            raised.append((bs, repr(e)))
            continue
        run.count("evaluations")
        hist[len(bs) % 3] = hist.get(len(bs) % 3, 0) + 1
        if back != bs:
            run.violation("decode(encode(bytes)) != bytes (implementation, zlib/json as identity)",
                          {"kind": "bytes", "bytes_hex": bs.hex(), "encoded": s, "decoded_hex": bytes(back).hex() if isinstance(back, (bytes, bytearray)) else repr(back)})
        if not all(c.isascii() and (c.isalnum() or c in "-_") for c in s):
            run.violation("encoded form contains a character outside [A-Za-z0-9-_]",
                          {"kind": "bytes", "bytes_hex": bs.hex(), "encoded": s})
        cases.append(f"({core.coq_N_list(bs)}, {core.coq_N_list(s.encode('latin-1', 'replace'))})")
        records.append((bs, s))
    if raised and not records:
        # the functions no longer run with the zlib/json oracles replaced by identities (their shape changed):
        # the byte-level correspondence cannot be evaluated; the dictionary-level runs below search for an input
        run.obligation_broken("byte-level correspondence of encode_data/decode_data (identity oracles)", raised[0][1])
    else:
        for bs, err in raised[:5]:
            run.violation("encode_data/decode_data raised on bytes", {"kind": "bytes", "bytes_hex": bs.hex(), "error": err})
    try:
        bad = core.coq_mismatches(
            "c18", "From PV Require Import Base.Base64 Model.ShareLink.",
            "fun c => NL_eqb (url_encode (fst c)) (snd c) && opt_eqb NL_eqb (url_decode (snd c)) (Some (fst c))",
            cases, shard=120)
    except core.CoqEvalError as e:
        run.obligation_broken("model evaluation (cases)", str(e))
        bad = []
    for i in bad:
        bs, s = records[i]
        # correspondence broken: is the property itself violated on this input?
        run.violation("model and implementation disagree on url_encode/url_decode",
                      {"kind": "correspondence", "bytes_hex": bs.hex(), "impl_encoded": s}, no_input=True)
    run.cov["traces_validated_against_impl"] = len(cases)
    if len(records) > 7:
        run.sample({"bytes_hex": records[7][0].hex(), "encoded": records[7][1]})

    # --- whole pipeline on dictionaries (the property as stated)
    nd = 400 if tier == "quick" else 6000
    distinct = set()
    for i in range(nd):
        d = gen_dict(rng, rng.choice([0, 1, 2, 3, 5, 8, 13, 40, 200, 1000]))
        try:
            s = T.encode_data(d)
            back = T.decode_data(s)
        except Exception as e:
            run.violation("encode_data/decode_data raised", {"kind": "dict", "dict": json.dumps(d), "error": repr(e)})
            continue
        run.count("evaluations")
        distinct.add(s)
        if back != d:
            run.violation("decode_data(encode_data(d)) != d", {"kind": "dict", "dict": json.dumps(d), "encoded": s})
        if not all(c.isascii() and (c.isalnum() or c in "-_") for c in s):
            run.violation("encoded form not URL-safe", {"kind": "dict", "dict": json.dumps(d), "encoded": s})
        if i == 3:
            run.sample({"dict": json.dumps(d)[:200], "encoded": s[:80]})
    run.cov["distinct_nontrivial"] = len(distinct) + len(set(byte_cases))
    run.cov["rule"] = ("byte strings of every length 0..%d plus random longer ones and boundary patterns "
                       "(distinct by content), and generated JSON dictionaries with text from all Unicode "
                       "planes incl. lone surrogates (distinct by encoded form)" % maxlen)
    run.cov["input_distribution"] = {"byte_length_mod_3": hist, "dicts": nd}
    return run.finish(assumptions_text=ass, trusted_extra=TRUST,
                      assumptions=["zlib and json round-trip (oracle hypotheses of C18_share_roundtrip)"])
