"""IC10 text -> structured program -> Gallina term for IC10.Machine (front end of the machine
model).  This reader is part of the trusted base of the pipeline checks: it decides how emitted
text denotes a machine program (comments, tokens, numeric literals, HASH/STR, enum names)."""
from __future__ import annotations

import re
import zlib
from functools import lru_cache

from . import core

UN = {"abs": "Uabs", "ceil": "Uceil", "floor": "Ufloor", "round": "Uround", "trunc": "Utrunc", "sqrt": "Usqrt",
      "exp": "Uexp", "log": "Ulog", "sin": "Usin", "cos": "Ucos", "tan": "Utan", "asin": "Uasin",
      "acos": "Uacos", "atan": "Uatan", "not": "Unot"}
BIN = {"add": "Badd", "sub": "Bsub", "mul": "Bmul", "div": "Bdiv", "mod": "Bmod", "pow": "Bpow", "max": "Bmax",
       "min": "Bmin", "atan2": "Batan2", "and": "Band", "or": "Bor", "xor": "Bxor", "nor": "Bnor",
       "sll": "Bsll", "srl": "Bsrl", "sla": "Bsla", "sra": "Bsra"}
CMP = {"eq": "Ceq", "ne": "Cne", "lt": "Clt", "le": "Cle", "gt": "Cgt", "ge": "Cge"}
SIMPLE = {"move": "IMove", "select": "ISelect", "snan": "ISnan", "snanz": "ISnanz", "j": "IJ", "jal": "IJal",
          "jr": "IJr", "l": "IL", "s": "IS", "ls": "ILs", "ss": "ISs", "lr": "ILr", "lb": "ILb", "lbn": "ILbn",
          "lbs": "ILbs", "lbns": "ILbns", "sb": "ISb", "sbn": "ISbn", "sbs": "ISbs", "get": "IGet",
          "put": "IPut", "getd": "IGetd", "putd": "IPutd", "push": "IPush", "pop": "IPop", "peek": "IPeek",
          "poke": "IPoke", "clr": "IClr", "clrd": "IClrd", "sdse": "ISdse", "sdns": "ISdns", "rand": "IRand",
          "rmap": "IRmap", "yield": "IYield", "sleep": "ISleep", "hcf": "IHcf", "alias": "IAlias",
          "define": "IDefine", "bnan": "(IBnan false)", "brnan": "(IBnan true)"}


def opcode_term(op: str) -> str:
    if op in SIMPLE:
        return SIMPLE[op]
    if op in UN:
        return f"(IUn {UN[op]})"
    if op in BIN:
        return f"(IBin {BIN[op]})"
    m = re.fullmatch(r"s(eq|ne|lt|le|gt|ge)(z?)", op)
    if m:
        return f"({'ISetz' if m.group(2) else 'ISet'} {CMP[m.group(1)]})"
    m = re.fullmatch(r"b(r?)(eq|ne|lt|le|gt|ge)(z?)(al)?", op)
    if m and not (m.group(1) and m.group(4)):
        rel, c, z, al = m.groups()
        return f"({'IBrz' if z else 'IBr'} {CMP[c]} {'true' if rel else 'false'} {'true' if al else 'false'})"
    m = re.fullmatch(r"b(r?)d(se|ns)(al)?", op)
    if m and not (m.group(1) and m.group(3)):
        rel, k, al = m.groups()
        return f"({'IBdse' if k == 'se' else 'IBdns'} {'true' if rel else 'false'} {'true' if al else 'false'})"
    return "IUnknown"


def coq_float(x: float) -> str:
    if x != x:
        return "nan"
    if x in (float("inf"), float("-inf")):
        return "infinity" if x > 0 else "neg_infinity"
    h = float(x).hex()
    if h.startswith("-"):
        return f"(-{h[1:]})%float"
    return f"{h}%float"


def signed_crc(s: str) -> int:
    c = zlib.crc32(s.encode())
    return c - (1 << 32) if c >= (1 << 31) else c


def str_pack(s: str) -> int:
    v = 0
    for ch in s:
        v = (v << 8) | ord(ch)
    return v


@lru_cache(maxsize=1)
def enum_tables():
    """name -> value for tokens IC10 resolves to numbers (from the regenerated enum tables)."""
    from pyt2coq import tables
    enums = tables.read_enums(core.PKG)
    bare, dotted = {}, {}
    for name, members in enums:
        for m, v in members:
            dotted[f"{name}.{m}"] = v
            if name in ("LogicType", "LogicSlotType", "LogicBatchMethod", "LogicReagentMode"):
                bare.setdefault(m, v)
    return bare, dotted


TOKEN_RE = re.compile(r'(?:HASH|STR)\("(?:[^"\\]|\\.)*"\)|\S+')


def strip_comment(line: str) -> str:
    out, inq = [], False
    for ch in line:
        if ch == '"':
            inq = not inq
        if ch == "#" and not inq:
            break
        out.append(ch)
    return "".join(out)


def tokenize(line: str):
    return TOKEN_RE.findall(strip_comment(line))


NUM_RE = re.compile(r"-?\d+(\.\d+)?")
HEX_RE = re.compile(r"\$-?[0-9A-Fa-f]+")
BIN_RE = re.compile(r"%[01_]+")


def literal_value(tok: str):
    """numeric value of a literal token, or None"""
    if NUM_RE.fullmatch(tok):
        return float(tok) if "." in tok else int(tok)
    if HEX_RE.fullmatch(tok):
        return int(tok[1:], 16)
    if BIN_RE.fullmatch(tok):
        return int(tok[1:].replace("_", ""), 2)
    m = re.fullmatch(r'HASH\("(.*)"\)', tok)
    if m:
        return signed_crc(m.group(1))
    m = re.fullmatch(r'STR\("(.*)"\)', tok)
    if m:
        return str_pack(m.group(1))
    return None


class Parsed:
    """lines: list of ('label', name) | ('instr', opcode, [tokens]) ; plus tables"""

    def __init__(self, text: str):
        self.text = text
        self.lines = []
        self.labels = {}
        self.dup_labels = []
        self.names = {}
        for raw in (text.split("\n") if text != "" else []):
            toks = tokenize(raw)
            if not toks:
                self.lines.append(("blank",))
                continue
            if len(toks) == 1 and toks[0].endswith(":"):
                name = toks[0][:-1]
                if name in self.labels:
                    self.dup_labels.append(name)
                else:
                    self.labels[name] = len(self.labels)
                self.lines.append(("label", name))
            else:
                self.lines.append(("instr", toks[0], toks[1:]))
        for ln in self.lines:
            if ln[0] == "instr" and ln[1] in ("alias", "define") and ln[2]:
                self.names.setdefault(ln[2][0], len(self.names))

    ENUM_AT = {("l", 2): "LogicType", ("s", 1): "LogicType", ("ls", 3): "LogicSlotType", ("ss", 2): "LogicSlotType",
               ("lr", 2): "LogicReagentMode", ("lb", 2): "LogicType", ("lb", 3): "LogicBatchMethod",
               ("lbn", 3): "LogicType", ("lbn", 4): "LogicBatchMethod", ("lbs", 3): "LogicSlotType",
               ("lbs", 4): "LogicBatchMethod", ("lbns", 4): "LogicSlotType", ("lbns", 5): "LogicBatchMethod",
               ("sb", 1): "LogicType", ("sbn", 2): "LogicType", ("sbs", 2): "LogicSlotType",
               ("bdnvl", 1): "LogicType", ("bdnvs", 1): "LogicType"}

    def classify(self, tok: str, op: str = "", pos: int = -1):
        """-> (kind, payload): reg n | dev n | num value | lbl id | name id | bad tok.
        A bare enum member name denotes the enumeration that the operand position expects."""
        m = re.fullmatch(r"r(\d+)", tok)
        if m and int(m.group(1)) <= 15:
            return ("reg", int(m.group(1)))
        if tok == "sp":
            return ("reg", 16)
        if tok == "ra":
            return ("reg", 17)
        m = re.fullmatch(r"d([0-5])", tok)
        if m:
            return ("dev", int(m.group(1)))
        if tok == "db":
            return ("dev", 6)
        v = literal_value(tok)
        if v is not None:
            return ("num", v)
        if tok in self.labels:
            return ("lbl", self.labels[tok])
        if tok in self.names:
            return ("name", self.names[tok])
        bare, dotted = enum_tables()
        if tok in dotted:
            return ("num", dotted[tok])
        want = self.ENUM_AT.get((op, pos))
        if want and f"{want}.{tok}" in dotted:
            return ("num", dotted[f"{want}.{tok}"])
        if tok in bare:
            return ("num", bare[tok])
        return ("bad", tok)

    def operand_term(self, tok: str, op: str = "", pos: int = -1) -> str:
        k, p = self.classify(tok, op, pos)
        if k == "reg":
            return f"OReg {p}"
        if k == "dev":
            return f"ODev {p}"
        if k == "num":
            return f"OImm {coq_float(float(p))}"
        if k == "lbl":
            return f"OLbl {p}"
        if k == "name":
            return f"OName {p}"
        return "OBad"

    def coq(self) -> str:
        """Gallina term of type @program float (blank lines are dropped: the compiler emits none;
        if the text has one, line numbering would differ, so it is kept as an unknown instruction)."""
        out = []
        for ln in self.lines:
            if ln[0] == "label":
                out.append(f"LLabel {self.labels[ln[1]]}")
            elif ln[0] == "blank":
                out.append("LInstr IUnknown []")
            else:
                op, args = ln[1], ln[2]
                if op in ("alias", "define") and args:
                    a0 = f"OName {self.names[args[0]]}"
                    rest = [self.operand_term(t, op, i + 1) for i, t in enumerate(args[1:])]
                    out.append(f"LInstr {opcode_term(op)} [{'; '.join([a0] + rest)}]")
                else:
                    out.append(f"LInstr {opcode_term(op)} [{'; '.join(self.operand_term(t, op, i) for i, t in enumerate(args))}]")
        return "[" + ";\n   ".join(out) + "]"
