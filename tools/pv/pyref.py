"""Reference run of a read-free program as plain Python: the statements of the dialect that write to
devices are executed against recording stubs, so the expected effect trace comes from CPython itself
(independent of the Coq source semantics).  Used for deterministic witness programs."""
import math

from . import ic10

LOGIC = None


def _lt(name):
    global LOGIC
    if LOGIC is None:
        LOGIC = ic10.enum_tables()[1]
    return LOGIC[f"LogicType.{name}"]


class Stop(Exception):
    pass


class _Dev:
    def __init__(self, rec, pin):
        object.__setattr__(self, "_rec", rec)
        object.__setattr__(self, "_pin", pin)

    def __setattr__(self, name, value):
        self._rec.event(("s", self._pin, _lt(name), float(value)))

    def __getattr__(self, name):
        raise RuntimeError("witness programs must not read devices")


class Recorder:
    def __init__(self, max_events):
        self.events = []
        self.max = max_events

    def event(self, e):
        self.events.append(e)
        if len(self.events) >= self.max:
            raise Stop()


def run_python(src, max_events=40, with_completion=False):
    """-> list of events ('s', pin, logic type code, value) | ('yield',) | ('sleep', v) | ('hcf',)"""
    rec = Recorder(max_events)
    ns = {"db": _Dev(rec, 6), "math": math}
    for i in range(6):
        ns[f"d{i}"] = _Dev(rec, i)
    ns["yield_"] = lambda: rec.event(("yield",))
    ns["sleep"] = lambda v: rec.event(("sleep", float(v)))

    def hcf():
        rec.event(("hcf",))
        raise Stop()
    ns["hcf"] = hcf
    for f in ("floor", "ceil", "sqrt", "sin", "cos"):
        ns[f] = getattr(math, f)
    ns["select"] = lambda c, a, b: a if c else b
    rec.complete = False
    try:
        exec(compile(src, "<witness>", "exec"), ns)
        rec.complete = True          # the script reached its end: nothing may follow
    except Stop:
        pass
    if with_completion:
        return rec.events, rec.complete
    return rec.events


def machine_events(trace_text):
    """parse the event list printed by diffrun.show_tgt_trace: (kind code, [args]) pairs"""
    import re
    out = []
    for m in re.finditer(r"\((\d+)%nat,\s*\[([^\]]*)\]\)", trace_text):
        k = int(m.group(1))
        args = [float(x) for x in m.group(2).replace("%float", "").split(";") if x.strip()]
        if k == 1 and len(args) == 4 and args[0] == 0:
            out.append(("s", int(args[1]), int(args[2]), args[3]))
        elif k == 10:
            out.append(("yield",))
        elif k == 11:
            out.append(("sleep", args[0]))
        elif k == 12:
            out.append(("hcf",))
        else:
            out.append(("other", k, tuple(args)))
    return out


def agree(py, mach, complete=False):
    """the Python trace (cut at max_events) must be a prefix of the machine's; when the script reached its
    end (complete) the machine must produce exactly these effects and nothing after them"""
    n = min(len(py), len(mach))
    for i in range(n):
        a, b = py[i], mach[i]
        if a[0] != b[0] or len(a) != len(b):
            return i
        for x, y in zip(a[1:], b[1:]):
            if abs(float(x) - float(y)) > 1e-9 * max(1.0, abs(float(x))):
                return i
    if len(mach) < len(py):
        return n
    if complete and len(mach) > len(py):
        return n
    return None


def load_corpus():
    import glob, os
    from . import core
    out = []
    for f in sorted(glob.glob(str(core.VERIF / "corpus" / "c01" / "pyref" / "*.py"))):
        out.append((os.path.basename(f)[:-3], open(f).read()))
    return out


def stream(run, texts, vectors, events=16, fuel=500, name="pyref", kind="pyref"):
    """Every text (a device-read-free program) under every option set: the emitted code, run on the Coq
    machine, must produce the effects CPython produces for the same text.  A difference is reported with
    kind 'pyref' and the witness name (open findings are keyed by that name)."""
    from . import impl, diffrun, core
    jobs, meta = [], []
    for wname, src in texts:
        for vn, opts in vectors.items():
            jobs.append((src, opts))
            meta.append((wname, vn, src))
    res = impl.compile_many(jobs)
    keep = [(m, r) for m, r in zip(meta, res) if "code" in r]
    for m, r in zip(meta, res):
        if "code" not in r:
            run.count("pyref_rejected")
    try:
        traces = diffrun.tgt_traces([r["code"] for _, r in keep], 1, fuel, name=name)
    except core.CoqEvalError as e:
        run.obligation_broken("machine evaluation (Python-reference stream)", str(e))
        return
    expected = {}
    for (wname, vn, src), r, tr in zip([k[0] for k in keep], [k[1] for k in keep], traces):
        if wname not in expected:
            expected[wname] = run_python(src, events, with_completion=True)
        py, complete = expected[wname]
        mach = machine_events(tr)
        run.count("pyref_runs")
        d = agree(py, mach, complete)
        if d is not None:
            run.violation(f"the emitted code does not produce the effects CPython produces for the source (witness {wname}, option set {vn}, first difference at effect {d})",
                          {"kind": kind, "witness": wname, "script_ends": complete, "option_set": vn, "source": src, "code": r["code"],
                           "python_effects": [list(e) for e in py], "machine_effects": [list(e) for e in mach[:len(py) + 4]],
                           "first_difference": d})
