"""Shared harness for all checks: environment, Coq build, vm_compute evaluation,
violations / known findings, evidence writer.

Nothing in here decides a property; it only runs the kernel-checked development and the
correspondence runs and records what they covered."""
from __future__ import annotations

import fcntl
import hashlib
import json
import os
import random
import re
import subprocess
import sys
import time
from pathlib import Path

VERIF = Path(__file__).resolve().parents[2]
REPO = Path(os.environ.get("PV_REPO", "/repo"))
SRC = REPO / "src"
PKG = SRC / "stationeers_pytrapic"
COQ = VERIF / "coq"
GEN = COQ / "gen"
CASES = COQ / "cases"
EVID = VERIF / "evidence"
REPLAYS = VERIF / "replays"
PYTHON = "/venv/bin/python"
GUARD = "PYTRAPIC_VERIF"

COQ_FLAGS = ["-Q", str(COQ / "theories"), "PV", "-Q", str(COQ / "gen"), "PVGen"]

BASE_TRUSTED = [
    "Coq 8.16.1 kernel (coqc, full .vo build; vm_compute used, native_compute not used)",
    "hand-written specifications in coq/theories (models, machine, string/number semantics)",
    "tools/pyt2coq translators (fail-closed, regenerate coq/gen from /repo on every run)",
    "correspondence harness tools/pv (runs the Python implementation and the Coq model on the same inputs)",
]


def impl_env(extra=None):
    env = dict(os.environ)
    env["PYTHONPATH"] = str(SRC)
    env["PYTHONHASHSEED"] = "0"
    env[GUARD] = "1"
    # bytecode cache outside /repo: the constexpr evaluator starts a child interpreter with a 1 s
    # limit, and importing the package from source alone takes most of that
    env.pop("PYTHONDONTWRITEBYTECODE", None)
    env["PYTHONPYCACHEPREFIX"] = str(VERIF / ".pycache")
    if extra:
        env.update(extra)
    return env


def setup_impl_import():
    """Make `import stationeers_pytrapic` resolve to /repo's working tree in this process."""
    os.environ[GUARD] = "1"
    os.environ.pop("PYTHONDONTWRITEBYTECODE", None)
    os.environ["PYTHONPYCACHEPREFIX"] = str(VERIF / ".pycache")
    sys.dont_write_bytecode = False
    sys.pycache_prefix = str(VERIF / ".pycache")
    p = str(SRC)
    if p in sys.path:
        sys.path.remove(p)
    sys.path.insert(0, p)


def sh(cmd, timeout=600, cwd=None, env=None, input=None):
    t0 = time.time()
    try:
        p = subprocess.run(cmd, cwd=cwd, env=env, input=input, capture_output=True,
                           text=True, timeout=timeout)
        return p.returncode, p.stdout, p.stderr, time.time() - t0
    except subprocess.TimeoutExpired as e:
        out = e.stdout.decode() if isinstance(e.stdout, bytes) else (e.stdout or "")
        err = e.stderr.decode() if isinstance(e.stderr, bytes) else (e.stderr or "")
        return 124, out, err + "\nTIMEOUT", time.time() - t0


class Lock:
    def __init__(self, name="coq"):
        self.path = COQ / f".{name}.lock"

    def __enter__(self):
        self.f = open(self.path, "w")
        fcntl.flock(self.f, fcntl.LOCK_EX)
        return self

    def __exit__(self, *a):
        fcntl.flock(self.f, fcntl.LOCK_UN)
        self.f.close()


def write_if_changed(path: Path, text: str) -> bool:
    path.parent.mkdir(parents=True, exist_ok=True)
    if path.exists() and path.read_text() == text:
        return False
    path.write_text(text)
    return True


# ----------------------------------------------------------------------------------------
# Coq

FORBIDDEN = re.compile(
    r"\b(Admitted|admit|Axiom|Axioms|Parameter|Parameters|Conjecture|Conjectures|"
    r"Unset\s+Guard|bypass_check|Admit\s+Obligations|Unset\s+Universe\s+Checking|"
    r"Unset\s+Positivity)\b|type-in-type|impredicative-set")


def strip_coq_comments(s: str) -> str:
    out, depth, i = [], 0, 0
    while i < len(s):
        if s.startswith("(*", i):
            depth += 1
            i += 2
        elif s.startswith("*)", i) and depth:
            depth -= 1
            i += 2
        else:
            if not depth:
                out.append(s[i])
            i += 1
    return "".join(out)


def hygiene_gate():
    """No Admitted/Axiom/... anywhere in the development (comments stripped)."""
    bad = []
    for f in list((COQ / "theories").rglob("*.v")) + list(GEN.glob("*.v")):
        txt = strip_coq_comments(f.read_text())
        for m in FORBIDDEN.finditer(txt):
            bad.append(f"{f.relative_to(COQ)}: {m.group(0)}")
    proj = (COQ / "_CoqProject").read_text()
    for m in FORBIDDEN.finditer(proj):
        bad.append(f"_CoqProject: {m.group(0)}")
    return bad


def coq_project_files():
    files = sorted(str(p.relative_to(COQ)) for p in (COQ / "theories").rglob("*.v"))
    files += sorted(str(p.relative_to(COQ)) for p in GEN.glob("*.v"))
    return files


def ensure_makefile():
    proj = "-Q theories PV\n-Q gen PVGen\n" + "\n".join(coq_project_files()) + "\n"
    changed = write_if_changed(COQ / "_CoqProject", proj)
    if changed or not (COQ / "Makefile.coq").exists():
        rc, out, err, _ = sh(["coq_makefile", "-f", "_CoqProject", "-o", "Makefile.coq"], cwd=COQ)
        if rc != 0:
            raise RuntimeError("coq_makefile failed: " + err)


def coq_make(targets=None, timeout=3000, jobs=16):
    """Full .vo build of the given targets (paths relative to coq/, '.vo'). Returns
    (ok, failing_file_or_None, log)."""
    ensure_makefile()
    cmd = ["timeout", str(timeout), "make", "-f", "Makefile.coq", f"-j{jobs}"]
    if targets:
        cmd += targets
    rc, out, err, dt = sh(cmd, cwd=COQ, timeout=timeout + 30)
    log = out + err
    if rc == 0:
        return True, None, log
    m = re.search(r'File "\./([^"]+)", line (\d+)', log)
    failing = f"{m.group(1)}:{m.group(2)}" if m else None
    if failing is None:
        m = re.search(r"\*\*\* \[[^\]]*?([\w/]+\.vo)", log)
        failing = m.group(1) if m else "unknown"
    return False, failing, log


def coqc_text(name: str, text: str, timeout=300):
    """Compile a scratch file under coq/cases and return (rc, stdout, stderr)."""
    CASES.mkdir(exist_ok=True)
    name = f"{name}_p{os.getpid()}"
    f = CASES / f"{name}.v"
    f.write_text(text)
    rc, out, err, dt = sh(["timeout", str(timeout), "coqc", "-q"] + COQ_FLAGS + [str(f)],
                          cwd=CASES, timeout=timeout + 10)
    for ext in (".vo", ".vok", ".vos", ".glob"):
        try:
            (CASES / f"{name}{ext}").unlink()
        except FileNotFoundError:
            pass
    try:
        (CASES / f".{name}.aux").unlink()
    except FileNotFoundError:
        pass
    if rc == 0:
        # the case file itself is kept only when its evaluation failed (for inspection)
        try:
            f.unlink()
        except FileNotFoundError:
            pass
    return rc, out, err


def coq_eval_lines(name: str, imports: str, defs: str, exprs: list[str], timeout=300):
    """Evaluate a list of Gallina expressions of type `string`-like printable values with
    vm_compute; each is printed on its own marked line.  Returns list of raw result strings
    (Coq's printing with whitespace collapsed)."""
    body = [imports, defs]
    for i, e in enumerate(exprs):
        body.append(f'Eval vm_compute in ({e}).')
    rc, out, err = coqc_text(name, "\n".join(body), timeout)
    if rc != 0:
        raise CoqEvalError(err[-3000:] + out[-500:])
    return parse_evals(out)


class CoqEvalError(Exception):
    pass


def parse_evals(out: str) -> list[str]:
    """Split coqc output into one string per `Eval` result:  '     = value\n     : type'."""
    res = []
    cur = None
    for line in out.splitlines():
        if line.startswith("     = "):
            if cur is not None:
                res.append(cur)
            cur = line[7:]
        elif cur is not None:
            cur += " " + line.strip()
    if cur is not None:
        res.append(cur)
    cleaned = []
    for r in res:
        r = re.sub(r"\s+", " ", r)
        # drop the trailing ': type'
        idx = r.rfind(" : ")
        cleaned.append(r[:idx].strip() if idx >= 0 else r.strip())
    return cleaned


def print_assumptions(prop: str, theorems: list[str], module: str):
    """Compile a scratch file printing the assumptions of each theorem.  Returns
    {theorem: text}."""
    lines = [f"Require Import {module}."]
    for t in theorems:
        lines.append(f'Print Assumptions {t}.')
    rc, out, err = coqc_text(f"assume_{prop}", "\n".join(lines), timeout=300)
    if rc != 0:
        return None, err
    chunks = re.split(r"(?=Closed under the global context|Axioms:)", out)
    chunks = [c.strip() for c in chunks if c.strip()]
    res = {}
    for t, c in zip(theorems, chunks):
        res[t] = re.sub(r"\s+", " ", c)
    return res, ""


def theorem_names(vfile: Path) -> list[str]:
    txt = strip_coq_comments(vfile.read_text())
    return re.findall(r"^\s*(?:Theorem|Corollary)\s+([A-Za-z0-9_']+)", txt, flags=re.M)


# ----------------------------------------------------------------------------------------
# coq literal printers / parsers

def coq_string(s: str) -> str:
    """Coq term of type string for a str whose characters are all < 256 (one byte each)."""
    if all(32 <= ord(c) < 127 for c in s):
        return '"' + s.replace('"', '""') + '"'
    return ("(string_of_list_ascii (List.map Ascii.ascii_of_N [" + "; ".join(str(ord(c)) for c in s) + "]%N))")


def coq_N_list(xs) -> str:
    return "[" + "; ".join(str(int(x)) for x in xs) + "]%N"


def coq_Z(z: int) -> str:
    return f"({z})%Z" if z < 0 else f"{z}%Z"


def parse_N_list(s: str) -> list[int]:
    s = s.strip()
    s = re.sub(r"%[A-Za-z]+", "", s)
    if s in ("[]", "nil"):
        return []
    assert s.startswith("[") and s.endswith("]"), s
    return [int(x.strip().strip("()")) for x in s[1:-1].split(";") if x.strip()]


# ----------------------------------------------------------------------------------------
# findings

class Findings:
    def __init__(self):
        p = VERIF / "known_findings.json"
        self.data = json.loads(p.read_text()) if p.exists() else {"open": [], "fixed": []}

    def open_for(self, prop):
        return [f for f in self.data.get("open", []) if f["property"] == prop]


class Run:
    """One check run of one property."""

    def __init__(self, prop: str, tier: str, seed: int, level: str):
        self.prop, self.tier, self.seed, self.level = prop, tier, seed, level
        self.t0 = time.time()
        self.rng = random.Random(seed)
        self.violations = []      # (what, replay dict)
        self.known_hits = {}      # finding id -> text
        self.info = []
        self.cov = {"samples": []}
        self.assumptions = []
        self.findings = Findings()
        self.build_failure = None

    # -- reporting ------------------------------------------------------------------
    def note(self, msg):
        self.info.append(msg)
        print(f"[{self.prop}] {msg}", flush=True)

    def sample(self, s, limit=6):
        if len(self.cov["samples"]) < limit:
            self.cov["samples"].append(s)

    def count(self, key, n=1):
        self.cov[key] = self.cov.get(key, 0) + n

    def classify(self, record: dict):
        """Return the id of the open known finding whose signature matches, else None.
        A signature is a dict of key -> pattern | list of patterns (any) that must all match
        the record's value for that key."""
        for f in self.findings.open_for(self.prop):
            sig = f.get("signature", {})
            ok = True
            for k, v in sig.items():
                rv = record.get(k)
                if rv is None:
                    ok = False
                    break
                if isinstance(v, list):
                    if not any(_match(x, rv) for x in v):
                        ok = False
                        break
                elif not _match(v, rv):
                    ok = False
                    break
            if ok:
                return f
        return None

    def violation(self, what: str, record: dict, no_input=False):
        """Record a violation unless it matches an open known finding."""
        if self.prop != "C10" and not record.get("expects_timeout") and \
                "Timeout during evaluating constexpr" in json.dumps(record, default=str):
            # the constexpr child has a 1 s wall-clock limit: under machine load an evaluation can time
            # out spuriously (also after the serial retries); such a comparison is inconclusive
            self.count("inconclusive_constexpr_timeouts")
            return False
        f = None if no_input else self.classify(record)
        if f is not None:
            if f["id"] not in self.known_hits:
                self.known_hits[f["id"]] = f["what"]
            return False
        self.violations.append((what, record, no_input))
        return True

    def obligation_broken(self, what, detail):
        """A theorem / gen obligation / translator no longer checks."""
        self.build_failure = (what, detail)

    # -- finish ---------------------------------------------------------------------
    def finish(self, assumptions_text=None, trusted_extra=None, assumptions=None):
        REPLAYS.mkdir(exist_ok=True)
        EVID.mkdir(exist_ok=True)
        rc = 0
        # a broken obligation with no concrete failing input
        if self.build_failure and not self.violations:
            what, detail = self.build_failure
            self.violations.append((what, {"kind": "obligation", "obligation": what,
                                           "detail": detail[-4000:]}, True))
        for fid, text in sorted(self.known_hits.items()):
            print(f"KNOWN-FINDING: property={self.prop} {text} [{fid}]")
        seen = set()
        # violations that carry a concrete failing input are reported before broken obligations without one
        for what, record, no_input in sorted(self.violations, key=lambda v: bool(v[2])):
            rec = dict(record)
            rec.update({"property": self.prop, "what": what, "seed": self.seed, "tier": self.tier})
            if self.build_failure:
                rec["broken_obligation"] = self.build_failure[0]
            digest = hashlib.sha1(json.dumps(rec, sort_keys=True, default=str).encode()).hexdigest()[:12]
            if digest in seen:
                continue
            seen.add(digest)
            d = REPLAYS / self.prop
            d.mkdir(parents=True, exist_ok=True)
            path = d / f"{digest}.json"
            path.write_text(json.dumps(rec, indent=1, default=str))
            tail = " no-failing-input-found" if no_input else ""
            print(f"VIOLATION property={self.prop} replay={path}{tail}")
            rc = 1
            if len(seen) >= 8:
                break
        cov = dict(self.cov)
        cov.setdefault("trusted_base", BASE_TRUSTED + (trusted_extra or []))
        if not cov.get("samples"):
            cov["samples"] = ["(none)"]
        ev = {
            "property_id": self.prop,
            "tier": self.tier,
            "seed": self.seed,
            "level": self.level,
            "coverage": cov,
            "assumptions": (assumptions or []) + self.assumptions,
            "wall_s": round(time.time() - self.t0, 2),
            "violations": len(seen),
            "known_findings_hit": sorted(self.known_hits),
            "notes": self.info[-40:],
        }
        if assumptions_text is not None:
            ev["print_assumptions"] = assumptions_text
        if os.environ.get("PV_REPLAY") != "1":      # a replay re-runs the check without touching the evidence
            (EVID / f"{self.prop}.json").write_text(json.dumps(ev, indent=1, default=str))
        elif os.environ.get("PV_EVIDENCE_DIR"):       # e.g. thorough-tier soak runs kept beside the quick evidence
            alt = Path(os.environ["PV_EVIDENCE_DIR"])
            alt.mkdir(parents=True, exist_ok=True)
            (alt / f"{self.prop}.json").write_text(json.dumps(ev, indent=1, default=str))
        print(f"[{self.prop}] done rc={rc} wall={ev['wall_s']}s", flush=True)
        return rc


def _match(pat, val):
    """pattern forms: scalar -> equality; {"contains": s} -> substring; {"regex": r} -> search."""
    if isinstance(val, (list, tuple, set)):
        return any(_match(pat, x) for x in val)
    if isinstance(pat, dict):
        if "contains" in pat:
            return pat["contains"] in str(val)
        if "regex" in pat:
            return re.search(pat["regex"], str(val)) is not None
        return False
    return pat == val


def standard_proof_phase(run: Run, prop: str, gen_fn, props_module: str, extra_targets=()):
    """Steps 1-2 of every check: regenerate, hygiene gate, build, Print Assumptions.
    Fills proof coverage keys.  Returns assumptions dict (or None if build failed)."""
    with Lock():
        try:
            if gen_fn:
                gen_fn()
        except Exception as e:  # translator failed closed
            run.note(f"translator failed: {type(e).__name__}: {e}")
            run.obligation_broken(f"translator for {prop} (fail-closed)", repr(e))
            run.cov.update({"obligations": 1, "discharged": 0,
                            "checker_cmd": "tools/pyt2coq (failed)"})
            return None
        bad = hygiene_gate()
        if bad:
            run.obligation_broken("hygiene gate (Admitted/Axiom/... found)", "\n".join(bad))
            return None
        vfile = COQ / "theories" / "Props" / f"{prop}.v"
        thms = theorem_names(vfile)
        targets = [f"theories/Props/{prop}.vo", "theories/Base/CaseUtil.vo"] + list(extra_targets)
        t0 = time.time()
        ok, failing, log = coq_make(targets)
        run.note(f"coq build {'ok' if ok else 'FAILED at ' + str(failing)} in {time.time()-t0:.1f}s")
        cmd = "make -f Makefile.coq " + " ".join(targets) + "  (coqc, full .vo)"
        if not ok:
            run.obligation_broken(f"Coq build of {failing}", log)
            run.cov.update({"obligations": len(thms), "discharged": 0, "checker_cmd": cmd,
                            "failing": failing})
            return None
        ass, err = print_assumptions(prop, thms, props_module)
        if ass is None:
            run.obligation_broken("Print Assumptions", err)
            return None
        run.cov.update({"obligations": len(thms), "discharged": len(thms), "checker_cmd": cmd,
                        "theorems": thms})
        notclosed = {t: a for t, a in ass.items() if not a.startswith("Closed under")}
        run.note(f"{len(thms)} theorems checked; {len(thms)-len(notclosed)} closed under the global context")
        return ass


# ----------------------------------------------------------------------------------------
# correspondence cases evaluated inside Coq

def coq_mismatches(name: str, imports: str, check_fn: str, cases: list[str], shard=300,
                   timeout=600, defs: str = ""):
    """cases: Gallina terms of the argument type of `check_fn : T -> bool`.
    Returns sorted list of indices whose check evaluates to false (model and implementation
    disagree).  Shards run in parallel."""
    from concurrent.futures import ThreadPoolExecutor
    shards = [(i, cases[i:i + shard]) for i in range(0, len(cases), shard)]

    def one(arg):
        off, cs = arg
        text = "\n".join([
            "From Coq Require Import List NArith ZArith Bool.",
            "From PV Require Import Base.CaseUtil.",
            imports, "Import ListNotations.", defs,
            "Definition cases_ := [" + ";\n ".join(cs) + "].",
            f"Eval vm_compute in (mismatches ({check_fn}) cases_).",
        ])
        rc, out, err = coqc_text(f"{name}_{off}", text, timeout)
        if rc != 0:
            raise CoqEvalError(f"shard {off}: " + err[-2000:])
        r = parse_evals(out)
        return [off + i for i in parse_nat_list(r[-1])]

    bad = []
    with ThreadPoolExecutor(max_workers=8) as ex:
        for r in ex.map(one, shards):
            bad += r
    return sorted(bad)


def parse_nat_list(s: str) -> list[int]:
    s = re.sub(r"%[A-Za-z]+", "", s.strip())
    if s in ("[]", "nil"):
        return []
    return [int(x) for x in s.strip("[]").split(";") if x.strip()]
