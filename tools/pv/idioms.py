"""Directed program shapes (built as progen.Prog trees, so that they have both a Python text and a
Src.Sem term).  Each shape is a construct combination that random generation reaches rarely and on
which a compiler slip can hide: they were collected from defects found by the machinery, from
seeded changes that a random run missed, and from reading the allocation / lowering code."""
from .progen import Prog, Fn, LT


def _dev(pin, lt):
    return [("num", 0), ("num", pin), ("num", LT(lt))]


def rd(pin=6, lt="Setting"):
    name = "db" if pin == 6 else f"d{pin}"
    return ("read", "RKl", f"{name}.{lt}", _dev(pin, lt))


def wr(e, pin=6, lt="Setting"):
    name = "db" if pin == 6 else f"d{pin}"
    return ("effect", "EKs", f"{name}.{lt} = {{3}}", _dev(pin, lt) + [e])


def num(v):
    return ("num", v)


def var(v):
    return ("var", v)


def bin_(op, a, b):
    return ("bin", op, a, b)


def call(f, *args):
    return ("call", f, list(args))


def small(e, k=4):
    """a run-time value in 0..k"""
    return ("intr2", "min", ("intr1", "abs", ("intr1", "floor", e)), num(k))


YIELD = ("effect", "EKyield", "yield_()", [])
FOREVER = ("while", num(1), [YIELD])


def fn(name, nparams, extra_locals, body, returns_value):
    f = Fn(name, nparams)
    f.locals += list(extra_locals)
    f.body = body
    f.returns_value = returns_value
    return f


def prog(globals_, funcs, main, feats):
    P = Prog()
    P.globals = list(globals_)
    P.globals_initial = []
    P.funcs = funcs
    P.main = list(main) + [FOREVER]      # main never terminates (fall-through is another property's finding)
    P.features = set(feats) | {"idiom"}
    return P


def param_mutation(r):
    """a function called once (inlined) assigns to its parameter; the caller reads the argument variable again"""
    f = fn("f0", 1, [], [("while", ("cmp", ">", var("p0"), num(0)),
                          [wr(var("p0"), 1), ("aug", "p0", "-", num(1))])], False)
    main = [("assign", "g0", small(rd(0))), ("expr", call("f0", var("g0"))), wr(var("g0"), 2),
            ("assign", "g1", bin_("+", var("g0"), num(r.randint(1, 9)))), wr(var("g1"), 3)]
    return prog(["g0", "g1"], [f], main, ["param_mutation", "inlined_fn"])


def param_mutation_twice(r):
    """same, function called twice (not inlined)"""
    f = fn("f0", 2, [], [("aug", "p0", "*", num(2)), ("aug", "p1", "+", var("p0")), wr(var("p1"), 1)], False)
    main = [("assign", "g0", rd(0)), ("assign", "g1", rd(1)),
            ("expr", call("f0", var("g0"), var("g1"))), ("expr", call("f0", var("g1"), var("g0"))),
            wr(bin_("-", var("g0"), var("g1")), 2)]
    return prog(["g0", "g1"], [f], main, ["param_mutation", "called_fn"])


def alias_outlives_source(r):
    """b = a inside a function, a is not used again, b is"""
    k = r.randint(2, 5)
    f = fn("f0", 0, ["l0", "l1", "l2"],
           [("assign", "l0", rd()), ("assign", "l1", var("l0")), ("assign", "l2", bin_("*", rd(), num(k))),
            ("return", bin_("+", var("l1"), var("l2")))], True)
    main = [wr(num(5)), wr(bin_("+", call("f0"), call("f0")))]
    return prog([], [f], main, ["alias", "called_fn"])


def alias_chain(r):
    """c = b = a chain at function level with later temporaries"""
    f = fn("f0", 1, ["l1", "l2", "l3", "l4"],
           [("assign", "l1", bin_("+", var("p0"), rd())), ("assign", "l2", var("l1")), ("assign", "l3", var("l2")),
            ("assign", "l4", bin_("*", rd(1), bin_("+", rd(2), num(1)))),
            ("return", bin_("-", bin_("*", var("l3"), num(3)), var("l4")))], True)
    main = [wr(call("f0", num(1)), 3), wr(call("f0", rd(0)), 4)]
    return prog([], [f], main, ["alias", "called_fn"])


def callee_via_symbolless_function(r):
    """main -> mid -> leaf where mid owns no register"""
    leaf = fn("f0", 0, ["l0", "l1"],
              [("assign", "l0", bin_("*", rd(), num(2))), ("assign", "l1", bin_("+", var("l0"), rd())),
               wr(bin_("*", var("l0"), var("l1")))], False)
    mid = fn("f1", 0, [], [("expr", call("f0"))], False)
    main = [wr(num(5)), ("assign", "g0", bin_("+", rd(), num(1))), ("expr", call("f1")), ("expr", call("f1")),
            wr(var("g0"))]
    return prog(["g0"], [leaf, mid], main, ["symbolless_scope", "called_fn"])


def callee_via_two_symbolless(r):
    leaf = fn("f0", 1, ["l0"], [("assign", "l0", bin_("+", var("p0"), rd(1))), ("return", bin_("*", var("l0"), var("l0")))], True)
    mid = fn("f1", 0, [], [wr(call("f0", num(3)), 2), wr(call("f0", num(4)), 2)], False)
    top = fn("f2", 0, [], [("expr", call("f1")), ("expr", call("f1"))], False)
    main = [("assign", "g0", rd(0)), ("assign", "g1", bin_("*", var("g0"), num(2))), ("expr", call("f2")), ("expr", call("f2")),
            wr(bin_("+", var("g0"), var("g1")), 3)]
    return prog(["g0", "g1"], [leaf, mid, top], main, ["symbolless_scope", "called_fn"])


def nested_loops_innermost_only(r):
    """a value read in the first of two inner loops must survive the second"""
    f = fn("f0", 1, ["l0", "l1", "li0", "li1", "li2", "l2"],
           [("assign", "l0", rd()), ("assign", "l1", num(0)),
            ("forrange", "li0", [var("p0")],
             [("forrange", "li1", [num(2)], [("assign", "l1", bin_("+", var("l1"), var("l0")))]),
              ("forrange", "li2", [num(2)], [("assign", "l2", bin_("*", var("li2"), num(2))),
                                             ("assign", "l1", bin_("+", var("l1"), var("l2")))])]),
            ("return", var("l1"))], True)
    main = [wr(num(5)), wr(bin_("+", call("f0", num(2)), call("f0", num(1))))]
    return prog([], [f], main, ["nested_loops", "called_fn"])


def while_in_for(r):
    f = fn("f0", 1, ["l0", "l1", "li0", "lw0", "l2"],
           [("assign", "l0", bin_("+", rd(0), num(1))), ("assign", "l1", num(0)),
            ("forrange", "li0", [num(3)],
             [("assign", "lw0", num(0)),
              ("while", ("cmp", "<", var("lw0"), num(2)), [("aug", "lw0", "+", num(1)), ("aug", "l1", "+", var("l0"))]),
              ("assign", "l2", bin_("*", rd(1), var("li0"))), wr(var("l2"), 2)]),
            ("return", bin_("+", var("l1"), var("p0")))], True)
    main = [wr(call("f0", num(2)), 3), wr(call("f0", rd(2)), 3)]
    return prog([], [f], main, ["nested_loops", "called_fn"])


def inlined_return_register(r):
    """inner is inlined into outer; outer is called twice inside one expression of main"""
    inner = fn("f0", 0, [], [("return", bin_("*", rd(), num(2)))], True)
    outer = fn("f1", 0, [], [("return", bin_("+", call("f0"), num(1)))], True)
    main = [wr(num(5)), wr(bin_("+", bin_("+", rd(), call("f1")), call("f1")))]
    return prog([], [inner, outer], main, ["inlined_into_function", "called_fn"])


def temp_across_call(r):
    """left operand loaded before a call in the same expression, callee with its own temporaries"""
    f = fn("f0", 1, ["l0", "l1"], [("assign", "l0", bin_("*", var("p0"), rd(1))), ("assign", "l1", bin_("+", var("l0"), rd(2))),
                                  ("return", bin_("-", var("l1"), var("l0")))], True)
    main = [wr(bin_("*", rd(0), call("f0", rd(3))), 4), wr(bin_("-", bin_("+", rd(0), num(1)), call("f0", num(2))), 4)]
    return prog([], [f], main, ["temp_across_call", "called_fn"])


def range_down_exact(r):
    """decreasing ranges that land exactly on stop, constant and run-time bounds"""
    step = r.choice([-1, -2, -3])
    k = r.randint(1, 3)
    main = [("assign", "n0", small(rd(0))),
            ("forrange", "i1", [var("n0"), num(0), num(-1)], [wr(var("i1"), 1)]),
            ("forrange", "i2", [num(-step * k), num(0), num(step)], [wr(var("i2"), 2)]),
            ("forrange", "i3", [num(-step * k + 1), num(0), num(step)], [wr(var("i3"), 3)]),
            ("forrange", "i4", [num(0), var("n0"), num(1)], [wr(var("i4"), 4)]),
            ("forrange", "i5", [num(1), num(1 + 2 * k), num(2)], [wr(var("i5"), 5)])]
    return prog(["n0", "i1", "i2", "i3", "i4", "i5"], [], main, ["for_range", "range_exact"])


def bound_reread(r):
    """the loop bound is a variable that the body's temporaries could overwrite"""
    f = fn("f0", 1, ["ln0", "li0", "l0", "l1"],
           [("assign", "ln0", small(bin_("+", var("p0"), rd(0)))), ("assign", "l1", num(0)),
            ("forrange", "li0", [var("ln0")], [("assign", "l0", bin_("*", bin_("+", rd(1), var("li0")), bin_("+", rd(2), num(2)))),
                                               ("aug", "l1", "+", var("l0"))]),
            ("return", var("l1"))], True)
    main = [wr(call("f0", num(1)), 3), wr(call("f0", num(2)), 3)]
    return prog([], [f], main, ["for_range", "bound_reread", "called_fn"])


def early_return_with_inner_call(r):
    """early return through an inner call (both stack conventions must restore ra on every exit)"""
    sq = fn("f0", 1, [], [("return", bin_("*", var("p0"), var("p0")))], True)
    pick = fn("f1", 2, ["l0"], [("if", [(("cmp", ">", var("p0"), var("p1")), [("return", call("f0", var("p0")))])], None),
                               ("assign", "l0", call("f0", var("p1"))), ("return", bin_("+", var("l0"), num(1)))], True)
    main = [wr(call("f1", num(3), num(2))), wr(call("f1", num(2), num(5))), wr(call("f0", rd(0)), 1)]
    return prog([], [sq, pick], main, ["early_return", "called_fn"])


def unused_parameter(r):
    """a parameter that the body never reads, between two that it does"""
    f = fn("f0", 3, [], [("return", bin_("+", bin_("*", var("p0"), num(10)), var("p2")))], True)
    main = [wr(call("f0", num(1), num(2), num(3))), wr(call("f0", rd(0), rd(1), rd(2)))]
    return prog([], [f], main, ["unused_parameter", "called_fn"])


def return_call_tail(r):
    """function ending in `return g(x)` after another call"""
    clamp = fn("f0", 1, [], [("return", ("intr2", "min", ("intr2", "max", var("p0"), num(0)), num(9)))], True)
    scale = fn("f1", 1, [], [("return", bin_("+", bin_("*", var("p0"), num(2)), num(1)))], True)
    both = fn("f2", 1, ["l0"], [("assign", "l0", call("f0", bin_("+", var("p0"), num(1)))), ("return", call("f1", var("l0")))], True)
    main = [wr(call("f2", num(0))), wr(call("f2", rd(0))), wr(call("f0", num(20)), 1), wr(call("f1", num(4)), 1)]
    return prog([], [clamp, scale, both], main, ["tail_position_call", "called_fn"])


def suffix_named_inlined(r):
    """an inlined callee whose name ends with the name of its (non-inlined) host"""
    P = early_return_with_inner_call(r)
    pre = fn("pre_update", 1, [], [("if", [(("cmp", "<", var("p0"), num(0)), [("return", num(0))])], None),
                                   ("return", bin_("+", var("p0"), num(1)))], True)
    other = fn("other", 1, [], [("return", bin_("*", var("p0"), num(3)))], True)
    upd = fn("update", 1, ["l0"], [("assign", "l0", call("other", var("p0"))), ("return", bin_("+", call("pre_update", var("l0")), call("other", num(2))))], True)
    main = [wr(call("update", num(1))), wr(call("update", rd(0)))]
    return prog([], [pre, other, upd], main, ["suffix_names", "called_fn", "inlined_fn"])


def modulo_negative(r):
    """% with negative dividends, constant and run-time"""
    main = [("assign", "g0", bin_("-", num(0), small(rd(0), 9))),
            wr(bin_("%", num(-7), num(3)), 1), wr(bin_("%", num(-7.5), num(2)), 1), wr(bin_("%", var("g0"), num(4)), 2),
            wr(bin_("%", bin_("-", var("g0"), num(1)), num(3)), 2)]
    return prog(["g0"], [], main, ["modulo"])


def tiny_constants(r):
    """folded results far below 1 and far above 2^53"""
    main = [wr(bin_("*", num(1e-9), num(1e-9)), 1), wr(bin_("/", num(1e-10), num(1e7)), 1), wr(bin_("*", num(-1.380649e-23), num(6)), 1),
            wr(bin_("*", rd(0), bin_("*", num(1e-9), num(1e-9))), 2), wr(bin_("*", num(1e150), num(1e150)), 3),
            wr(bin_("+", rd(0), num(2.5e-16)), 2)]
    return prog([], [], main, ["tiny_constants"])


def tail_into_inlined(r):
    """a function called twice ends in a call of a helper that is called once (inlined into it);
    another function is emitted after it"""
    helper = fn("helper", 1, [], [wr(var("p0"), 1)], False)
    twice = fn("twice", 1, [], [wr(var("p0"), 2), ("expr", call("helper", bin_("+", var("p0"), num(1))))], False)
    zz = fn("zz", 1, [], [wr(bin_("+", var("p0"), num(99)))], False)
    main = [("expr", call("twice", num(1))), ("expr", call("twice", rd(0))),
            ("if", [(("cmp", ">", rd(3, "On"), num(0)), [("expr", call("zz", num(1))), ("expr", call("zz", num(2)))])], None)]
    return prog([], [helper, twice, zz], main, ["tail_position_call", "inlined_fn", "called_fn"])


def tail_from_inlined_host(r):
    """a function called once (inlined into the main code) ends in a call of a function called elsewhere"""
    report = fn("report", 1, [], [wr(var("p0"))], False)
    once = fn("once", 1, [], [wr(var("p0"), 1), ("expr", call("report", bin_("+", var("p0"), num(1))))], False)
    main = [wr(num(1), 2), ("expr", call("once", num(5))), ("expr", call("report", num(7))), ("expr", call("report", rd(0)))]
    return prog([], [report, once], main, ["tail_position_call", "inlined_fn", "called_fn"])


def tail_chain(r):
    """tail call chains: f -> g -> h, each ending in a call, h plain; called from a loop"""
    h = fn("h", 1, [], [wr(bin_("*", var("p0"), num(2)))], False)
    g = fn("g", 1, [], [wr(var("p0"), 1), ("expr", call("h", bin_("+", var("p0"), num(1))))], False)
    f = fn("f", 1, [], [wr(var("p0"), 2), ("expr", call("g", bin_("+", var("p0"), num(10))))], False)
    main = [("forrange", "i0", [num(3)], [("expr", call("f", var("i0")))]), ("expr", call("g", num(5))), ("expr", call("h", num(6))),
            ("expr", call("f", rd(0)))]
    return prog(["i0"], [h, g, f], main, ["tail_position_call", "called_fn"])


def alias_of_later_global_constant(r):
    """the function stands above the assignment of the global constant it aliases"""
    f = fn("f0", 0, ["l0"], [("assign", "l0", var("g0")), ("return", bin_("-", rd(5, "On"), ("intr1", "round", var("l0"))))], True)
    g = fn("f1", 1, ["l0"], [("assign", "l0", var("g1")), ("return", bin_("+", bin_("*", var("p0"), var("l0")), var("g0")))], True)
    main = [("assign", "g0", bin_("*", num(9), num(1))), ("assign", "g1", num(2.5)), wr(call("f0")), wr(call("f0")), wr(call("f1", rd(0)), 1), wr(call("f1", num(3)), 1)]
    return prog(["g0", "g1"], [f, g], main, ["alias", "later_global_constant", "called_fn"])


def function_ending_in_intrinsic(r):
    """the last statement of a function is a call of an instruction wrapper (yield_, sleep), not of a user function"""
    f = fn("f0", 1, [], [wr(var("p0"), 1), YIELD], False)
    g = fn("f1", 1, [], [wr(bin_("+", var("p0"), num(1)), 2), ("effect", "EKsleep", "sleep({0})", [num(2)])], False)
    main = [("expr", call("f0", num(6))), ("expr", call("f0", rd(0))), ("expr", call("f1", num(1))), ("expr", call("f1", rd(1)))]
    return prog([], [f, g], main, ["tail_position_intrinsic", "called_fn"])


def forlist_inlined_wrapper_calls_out(r):
    """a loop over a constant list whose body calls a once-called (inlined) function that itself calls a
    function reached by jal: the loop body's return address must survive"""
    show = fn("show", 1, [], [wr(var("p0"))], False)
    report = fn("report", 1, [], [("expr", call("show", var("p0"))), ("expr", call("show", bin_("+", var("p0"), num(100))))], False)
    main = [("forlist", "e0", [1, 2, 3], [("expr", call("report", var("e0")))]), wr(rd(0), 1)]
    return prog(["e0"], [show, report], main, ["for_list", "inlined_fn", "called_fn", "nested_call_in_list_loop"])


def forlist_nested_and_return(r):
    """nested loops over constant lists inside a function, left by return from the innermost body"""
    f = fn("f0", 1, ["l0", "l1"], [("forlist", "l0", [1, 2], [("forlist", "l1", [10, 20], [
        wr(bin_("+", var("l0"), var("l1")), 1),
        ("if", [(("cmp", ">", bin_("+", var("l0"), var("l1")), var("p0")), [("return", bin_("+", var("l0"), var("l1")))])], None)])]),
        ("return", num(0))], True)
    main = [wr(call("f0", num(11))), wr(call("f0", small(rd(0), 30))), wr(call("f0", num(100)))]
    return prog([], [f], main, ["for_list", "nested_list_loops", "early_return", "called_fn"])


def tail_after_inlined_wrapper_calls_out(r):
    """a function called twice calls a once-called (inlined) function that itself makes a call, and ends in
    a bare call: the inlined call clobbers ra, so the last call must not become a jump"""
    h = fn("h", 1, [], [wr(var("p0"), 2)], False)
    g = fn("g", 1, [], [("expr", call("h", bin_("+", var("p0"), num(100))))], False)
    t = fn("t", 1, [], [wr(var("p0"))], False)
    f = fn("f", 1, [], [("expr", call("g", var("p0"))), ("expr", call("t", bin_("*", var("p0"), num(2))))], False)
    main = [("expr", call("f", num(1))), ("expr", call("f", small(rd(0), 9))), ("expr", call("h", num(5))), ("expr", call("t", num(6)))]
    return prog([], [h, g, t, f], main, ["tail_position_call", "inlined_fn", "called_fn", "inlined_callee_with_call"])


def computed_range_bounds_body_temps(r):
    """stop and step of a for-range are computed expressions (kept in temporaries for the whole loop) and
    the body, on later lines, needs expression temporaries of its own"""
    main = [("assign", "g0", bin_("+", small(rd(0), 3), num(1))), ("assign", "g1", num(0)),
            ("forrange", "i0", [bin_("*", var("g0"), num(2))],
             [("assign", "g1", bin_("+", var("g1"), bin_("*", var("i0"), var("i0")))),
              wr(bin_("-", bin_("*", var("g1"), num(3)), bin_("*", var("i0"), num(2))), 1)]),
            ("forrange", "i1", [num(0), bin_("*", var("g0"), num(6)), bin_("+", var("g0"), var("g0"))],
             [("assign", "g1", bin_("+", bin_("*", var("i1"), num(5)), bin_("*", var("g1"), num(2)))),
              wr(bin_("+", bin_("*", var("g1"), num(7)), bin_("*", var("i1"), var("i1"))), 2)]),
            wr(var("g1"))]
    return prog(["g0", "g1", "i0", "i1"], [], main, ["for_range", "computed_bounds", "body_temporaries"])


def device_set_tests(r):
    """if sdse(d) / if not sdse(d) / if sdns(d) / if not sdns(d), with and without else; also as values"""
    def t(f, pin):
        return ("devtest", f, pin)
    main = [("if", [(t("sdse", 0), [wr(num(1), 1)])], [wr(num(2), 1)]),
            ("if", [(("not", t("sdse", 1)), [wr(num(3), 1)])], [wr(num(4), 1)]),
            ("if", [(t("sdns", 2), [wr(num(5), 1)])], None),
            ("if", [(("not", t("sdns", 3)), [wr(num(6), 1)])], [wr(num(7), 1)]),
            ("if", [(("not", t("sdse", 0)), [wr(num(8), 2)])], None),
            wr(t("sdse", 1), 2), wr(t("sdns", 1), 2)]
    return prog([], [], main, ["device_set_test", "negated_test"])


def tail_value_callee_every_tick(r):
    """an endless loop calls, many times per tick, a function whose last statement is a bare call of a
    value-returning function: whatever the callee leaves on the chip's stack must be dropped (a leak of one
    slot per call stops the chip after 512 calls)"""
    g = fn("g", 1, [], [("return", bin_("+", var("p0"), num(1)))], True)
    f = fn("f", 0, [], [("expr", call("g", var("g0")))], False)
    main = [("assign", "g0", num(0)),
            ("while", num(1), [("expr", call("f"))] * 16 + [wr(call("g", var("g0"))), ("aug", "g0", "+", num(1)), YIELD])]
    return prog(["g0"], [g, f], main, ["tail_position_call", "called_fn", "value_callee_as_statement", "long_run"])


def return_in_trailing_if_else_after_call(r):
    """a function that makes a call (so it saves ra) and ends in an if / else whose branches end in
    `return <value>`: under push/pop every such exit must restore ra before the value is pushed"""
    scale = fn("scale", 1, [], [("return", bin_("*", var("p0"), num(2)))], True)
    clamp = fn("clamp", 1, ["l0"], [("assign", "l0", call("scale", var("p0"))),
                                    ("if", [(("cmp", ">", var("l0"), num(10)), [("return", num(10))])], [("return", var("l0"))])], True)
    pick = fn("pick", 1, ["l0"], [("assign", "l0", bin_("+", call("scale", var("p0")), num(1))),
                                  ("if", [(("cmp", ">", var("l0"), num(10)), [("return", num(10))]),
                                          (("cmp", ">", var("l0"), num(4)), [("return", var("l0"))])], None),
                                  ("return", num(0))], True)
    main = [wr(call("clamp", num(3))), wr(call("clamp", small(rd(0), 9))), wr(call("clamp", num(1))),
            wr(call("pick", num(1)), 1), wr(call("pick", small(rd(1), 9)), 1), wr(call("scale", num(4)), 2)]
    return prog([], [scale, clamp, pick], main, ["called_fn", "return_in_trailing_branch", "early_return"])


def if_body_ends_in_conditional_jump(r):
    """an if / else whose if-body ends in a nested if (without else) that jumps (continue / break / return):
    when the inner test fails, control reaches the end of the body and must skip the else part"""
    f = fn("f0", 1, [], [("if", [(("cmp", ">", var("p0"), num(0)),
                                  [wr(var("p0"), 1), ("if", [(("cmp", ">", var("p0"), num(5)), [("return", num(1))])], None)]),
                                 (("cmp", "<", var("p0"), num(0)), [wr(bin_("-", num(0), var("p0")), 1)])],
                          [wr(num(77), 1)]),
                         ("return", num(2))], True)
    main = [("forrange", "i0", [num(4)], [
                ("if", [(("cmp", "<", var("i0"), num(3)),
                         [wr(var("i0"), 2), ("if", [(("cmp", "==", var("i0"), small(rd(0), 3)), [("continue",)])], None)])],
                 [wr(num(9), 2)]),
                wr(bin_("+", var("i0"), num(100)), 2)]),
            wr(call("f0", num(3))), wr(call("f0", num(8))), wr(call("f0", num(0))), wr(call("f0", bin_("-", num(0), small(rd(1), 4))))]
    return prog(["i0"], [f], main, ["called_fn", "nested_conditional_jump", "early_return"])


def tail_call_with_call_in_argument(r):
    """the last statement of a function is a call whose argument is itself a call of a function reached by
    jal: the inner call overwrites ra, so the outer call must not become a jump"""
    g = fn("g", 1, [], [("return", bin_("+", var("p0"), num(1)))], True)
    h = fn("h", 1, [], [wr(var("p0"))], False)
    f = fn("f", 1, [], [("expr", call("h", call("g", var("p0"))))], False)
    main = [("expr", call("f", num(1))), ("expr", call("f", small(rd(0), 9))), ("expr", call("h", call("g", num(100)))), wr(call("g", num(7)), 1)]
    return prog([], [g, h, f], main, ["tail_position_call", "called_fn", "call_in_argument_of_tail_call"])


ALL = [tail_call_with_call_in_argument, return_in_trailing_if_else_after_call, if_body_ends_in_conditional_jump, tail_value_callee_every_tick, device_set_tests, computed_range_bounds_body_temps, forlist_inlined_wrapper_calls_out, forlist_nested_and_return, tail_after_inlined_wrapper_calls_out, param_mutation, param_mutation_twice, alias_outlives_source, alias_chain, callee_via_symbolless_function,
       callee_via_two_symbolless, nested_loops_innermost_only, while_in_for, inlined_return_register, temp_across_call,
       range_down_exact, bound_reread, early_return_with_inner_call, unused_parameter, return_call_tail,
       suffix_named_inlined, modulo_negative, tiny_constants, tail_into_inlined, tail_from_inlined_host, tail_chain,
       alias_of_later_global_constant, function_ending_in_intrinsic]


def programs(rng):
    return [(f"idiom/{f.__name__}", f(rng)) for f in ALL]
