"""Regeneration of coq/gen/*.v from /repo (one function per generated file)."""
from . import core
from pyt2coq import common


def gen_share():
    from pyt2coq import share
    core.write_if_changed(core.GEN / "GenShare.v", share.translate(core.PKG))


def gen_tables():
    from pyt2coq import tables
    enums = tables.read_enums(core.PKG)
    core.write_if_changed(core.GEN / "GenEnums.v", tables.enums_v(enums))
    classes, singles = tables.read_structs(core.PKG)
    core.write_if_changed(core.GEN / "GenStructs.v", tables.structs_v(classes, singles))
    rows, others = tables.read_intrinsics(core.PKG)
    instrs, kws = tables.read_ic10_json(core.REPO)
    core.write_if_changed(core.GEN / "GenIntrinsics.v", tables.intrinsics_v(rows, others, instrs, kws))
    return {"enums": enums, "classes": classes, "singles": singles, "intrinsics": rows,
            "other_intrinsics": others, "instructions": instrs}


def gen_stats():
    from pyt2coq import stats
    core.write_if_changed(core.GEN / "GenStats.v", stats.translate(core.PKG))


def gen_pragma():
    from pyt2coq import pragma
    core.write_if_changed(core.GEN / "GenPragma.v", pragma.translate(core.PKG))


def gen_ops():
    from pyt2coq import ops
    core.write_if_changed(core.GEN / "GenOps.v", ops.translate(core.PKG))


def gen_hash():
    from pyt2coq import hashfmt
    core.write_if_changed(core.GEN / "GenHash.v", hashfmt.translate(core.PKG))


def gen_sites():
    from pyt2coq import sites
    core.write_if_changed(core.GEN / "GenSites.v", sites.translate(core.PKG))


def gen_skeletons():
    from pyt2coq import skeletons
    core.write_if_changed(core.GEN / "GenSkeletons.v", skeletons.translate(core.PKG))


def gen_globals():
    from pyt2coq import globals_
    core.write_if_changed(core.GEN / "GenGlobals.v", globals_.translate(core.PKG))


def gen_forrange():
    from pyt2coq import forrange
    core.write_if_changed(core.GEN / "GenForRange.v", forrange.translate(core.PKG))


def gen_iftest():
    from pyt2coq import iftest
    core.write_if_changed(core.GEN / "GenIfTest.v", iftest.translate(core.PKG))


ALL = [gen_iftest, gen_forrange, gen_share, gen_tables, gen_stats, gen_pragma, gen_ops, gen_hash, gen_sites, gen_skeletons, gen_globals]


def gen_all(strict=True):
    errs = []
    for f in ALL:
        try:
            f()
        except Exception as e:
            if strict:
                raise
            errs.append((f.__name__, e))
    return errs
