"""Regeneration of coq/gen/*.v from /repo (one function per generated file)."""
from . import core
from pyt2coq import common


def gen_share():
    from pyt2coq import share
    core.write_if_changed(core.GEN / "GenShare.v", share.translate(core.PKG))


ALL = [gen_share]


def gen_all(strict=True):
    errs = []
    for f in ALL:
        try:
            f()
        except Exception as e:
            if strict:
                raise
            errs.append((f.__name__, e))
    return errs
