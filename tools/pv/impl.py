"""Running the implementation (the working tree of /repo) from the harness."""
from __future__ import annotations

import itertools
import json
import multiprocessing as mp
import os
import sys
import time
from pathlib import Path

from . import core

OPTION_NAMES = ["original_code_as_comment", "generated_comments", "inline_functions", "remove_labels",
                "append_version", "compact", "tail_call_optimization", "use_push_pop_functions"]
DEFAULTS = {"original_code_as_comment": False, "generated_comments": False, "inline_functions": True,
            "remove_labels": False, "append_version": True, "compact": False,
            "tail_call_optimization": False, "use_push_pop_functions": False}
BEHAVIOUR_OPTS = ["inline_functions", "remove_labels", "compact", "tail_call_optimization", "use_push_pop_functions"]


def vec(**kw):
    d = dict(DEFAULTS)
    d.update(kw)
    return d


def all_vectors():
    return [dict(zip(OPTION_NAMES, bits)) for bits in itertools.product([False, True], repeat=8)]


def pairwise_vectors(rng=None):
    """A small set of vectors covering every pair of option values (greedy)."""
    allv = all_vectors()
    need = {(i, a, j, b) for i in range(8) for j in range(i + 1, 8) for a in (0, 1) for b in (0, 1)}
    chosen = [vec(), vec(compact=True, inline_functions=True, remove_labels=True, append_version=False),
              vec(inline_functions=False, append_version=False)]
    def cov(v):
        bits = [int(v[n]) for n in OPTION_NAMES]
        return {(i, bits[i], j, bits[j]) for i in range(8) for j in range(i + 1, 8)}
    for v in chosen:
        need -= cov(v)
    while need:
        best = max(allv, key=lambda v: len(cov(v) & need))
        chosen.append(best)
        need -= cov(best)
    return chosen


def behaviour_vectors():
    out = []
    for bits in itertools.product([False, True], repeat=len(BEHAVIOUR_OPTS)):
        out.append(vec(append_version=False, **dict(zip(BEHAVIOUR_OPTS, bits))))
    return out


# ----------------------------------------------------------------------------------------
def repo_programs():
    """[(name, src) ...] where src is str or {module: text}; the repository's own programs."""
    out = []
    t = core.REPO / "test"
    for f in sorted((t / "cases").glob("*.py")):
        out.append((f"cases/{f.stem}", f.read_text(encoding="utf-8")))
    ex = core.PKG / "examples"
    for f in sorted(ex.glob("*.py")):
        if "__init__" in f.name:
            continue
        out.append((f"examples/{f.stem}", f.read_text(encoding="utf-8")))
    libs = {f.stem: f.read_text() for f in sorted((t / "mod_libraries").glob("*.py"))}
    import ast
    for f in sorted((t / "mod_scripts").glob("*.py")):
        src = f.read_text()
        mods = {}
        try:
            for n in ast.parse(src).body:
                if isinstance(n, ast.ImportFrom) and n.module == "library":
                    for a in n.names:
                        if a.name in libs:
                            mods[a.name] = libs[a.name]
        except SyntaxError:
            pass
        mods[""] = src
        out.append((f"mod_scripts/{f.stem}", mods))
    for f in sorted((core.VERIF / "corpus" / "programs").glob("*.py")):
        out.append((f"corpus/{f.stem}", f.read_text(encoding="utf-8")))
    # multi-module programs: {"": main text, "<library>": text}
    for f in sorted((core.VERIF / "corpus" / "programs").glob("*.json")):
        out.append((f"corpus/{f.stem}", json.loads(f.read_text(encoding="utf-8"))))
    return out


# ----------------------------------------------------------------------------------------
_inited = False


def _init():
    global _inited
    if not _inited:
        core.setup_impl_import()
        _inited = True


def compile_one(job):
    """job = (src, options dict) -> result dict (JSON-able) or {'raised': repr}."""
    _init()
    from stationeers_pytrapic.compiler import compile_code
    from stationeers_pytrapic.compile_pass import CompileOptions
    src, opts = job
    t0 = time.time()
    try:
        r = compile_code(src, CompileOptions(**opts))
        if not isinstance(r, dict):
            return {"raised": f"non-dict result {type(r).__name__}", "wall": time.time() - t0}
        r = json.loads(json.dumps(r, default=repr))
        r["wall"] = time.time() - t0
        return r
    except BaseException as e:  # noqa
        return {"raised": f"{type(e).__name__}: {e}", "wall": time.time() - t0}


def compile_many(jobs, workers=12, timeout=120):
    """Compile jobs in a pool of forked workers. Returns list of results in order; a job whose
    worker exceeded `timeout` yields {'hang': True}."""
    if not jobs:
        return []
    ctx = mp.get_context("fork")
    res = [None] * len(jobs)
    with ctx.Pool(min(workers, max(1, len(jobs))), maxtasksperchild=200) as pool:
        asyncs = [pool.apply_async(compile_one, (j,)) for j in jobs]
        for i, a in enumerate(asyncs):
            try:
                res[i] = a.get(timeout=timeout)
            except mp.TimeoutError:
                res[i] = {"hang": True}
            except Exception as e:
                res[i] = {"raised": f"worker: {e!r}"}
        pool.terminate()
    # the constexpr child process has a 1 s limit: under the load of the pool it can time out.
    # Those compiles are repeated one at a time.
    for i, r in enumerate(res):
        e = r.get("error") if isinstance(r, dict) else None
        if isinstance(e, dict) and "Timeout during evaluating constexpr" in str(e.get("description", "")):
            for _attempt in range(3):
                res[i] = compile_one(jobs[i])
                e2 = res[i].get("error") if isinstance(res[i], dict) else None
                if not (isinstance(e2, dict) and "Timeout during evaluating constexpr" in str(e2.get("description", ""))):
                    break
                time.sleep(1.0)
    return res
