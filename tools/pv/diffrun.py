"""Differential execution through Coq: source under Src.Sem vs emitted text on IC10.Machine, and
emitted text vs emitted text.  Everything is evaluated with vm_compute from the definitions in
coq/theories (no extraction)."""
from __future__ import annotations

import re
from concurrent.futures import ThreadPoolExecutor

from . import core
from .ic10 import Parsed

HEADER = """From Coq Require Import List ZArith Bool PrimFloat.
From PV Require Import IC10.Values IC10.Machine IC10.FloatAlg Src.Sem Valid.Diff.
Import ListNotations.
Local Open Scope float_scope.
"""

VERDICT = {0: "agree", 1: "events differ", 2: "target emits effects after the source finished",
           3: "target stopped before producing the source's effects", 4: "target machine error",
           5: "source run failed (outside the domain)", 6: "target diverges or is far slower (fewer effects, still running)"}


def _parse_verdicts(s: str):
    s = re.sub(r"%[a-z]+", "", s)
    tups = re.findall(r"\(([\d,\s]+)\)", s)
    return [tuple(int(x) for x in t.replace(" ", "").split(",")) for t in tups]


def _run_file(name, text, timeout):
    rc, out, err = core.coqc_text(name, text, timeout)
    if rc != 0:
        raise core.CoqEvalError(f"{name}: " + (err[-1500:] or out[-500:]))
    return core.parse_evals(out)


def src_vs_tgt(cases, seeds, fs=600, ft=40000, shard=12, name="diff", timeout=900):
    """cases: list of (prog_coq_term, ic10_text). Returns list (per case) of list of verdict tuples."""
    shards = [(i, cases[i:i + shard]) for i in range(0, len(cases), shard)]
    seedl = "[" + "; ".join(f"{s}%Z" for s in seeds) + "]"

    def one(arg):
        off, cs = arg
        body = [HEADER]
        for j, (pc, text) in enumerate(cs):
            body.append(f"Definition P{j} : @prog float := {pc}.")
            body.append(f"Definition T{j} : @program float := {Parsed(text).coq()}.")
            body.append(f"Eval vm_compute in (cmp_float {fs} {ft} P{j} T{j} {seedl}).")
        res = _run_file(f"{name}_{off}", "\n".join(body), timeout)
        return [_parse_verdicts(r) for r in res]

    out = []
    with ThreadPoolExecutor(max_workers=12) as ex:
        for r in ex.map(one, shards):
            out += r
    return out


def tgt_vs_tgt(pairs, seeds, fuel=40000, shard=12, name="diff2", timeout=900):
    """pairs: list of (text1, text2)."""
    shards = [(i, pairs[i:i + shard]) for i in range(0, len(pairs), shard)]
    seedl = "[" + "; ".join(f"{s}%Z" for s in seeds) + "]"

    def one(arg):
        off, cs = arg
        body = [HEADER]
        for j, (a, b) in enumerate(cs):
            body.append(f"Definition A{j} : @program float := {Parsed(a).coq()}.")
            body.append(f"Definition B{j} : @program float := {Parsed(b).coq()}.")
            body.append(f"Eval vm_compute in (cmp2_float {fuel} A{j} B{j} {seedl}).")
        res = _run_file(f"{name}_{off}", "\n".join(body), timeout)
        return [_parse_verdicts(r) for r in res]

    out = []
    with ThreadPoolExecutor(max_workers=12) as ex:
        for r in ex.map(one, shards):
            out += r
    return out


def tgt_vs_tgt_guard(quads, seeds, fuel=40000, shard=12, name="diff2g", timeout=900):
    """quads: list of (text1, entries1, text2, entries2); runs with the C07 guard."""
    shards = [(i, quads[i:i + shard]) for i in range(0, len(quads), shard)]
    seedl = "[" + "; ".join(f"{s}%Z" for s in seeds) + "]"

    def nl(es):
        return "[" + "; ".join(str(e) for e in es) + "]%nat"

    def one(arg):
        off, cs = arg
        body = [HEADER]
        for j, (a, ea, b, eb) in enumerate(cs):
            body.append(f"Definition A{j} : @program float := {Parsed(a).coq()}.")
            body.append(f"Definition B{j} : @program float := {Parsed(b).coq()}.")
            body.append(f"Eval vm_compute in (cmp2g_float {fuel} A{j} {nl(ea)} B{j} {nl(eb)} {seedl}).")
        res = _run_file(f"{name}_{off}", "\n".join(body), timeout)
        return [_parse_verdicts(r) for r in res]

    out = []
    with ThreadPoolExecutor(max_workers=12) as ex:
        for r in ex.map(one, shards):
            out += r
    return out


def show_traces(prog_coq, text, seed, fs=600, ft=40000, name="trace"):
    body = [HEADER, f"Definition P0 : @prog float := {prog_coq}.",
            f"Definition T0 : @program float := {Parsed(text).coq()}.",
            f"Eval vm_compute in (traces_float {fs} {ft} P0 T0 {seed}%Z)."]
    rc, out, err = core.coqc_text(name, "\n".join(body), 300)
    return re.sub(r"\s+", " ", out)[-3000:] if rc == 0 else err[-1500:]


def show_tgt_trace(text, seed, ft=40000, name="trace1"):
    body = [HEADER, f"Definition T0 : @program float := {Parsed(text).coq()}.",
            f"Eval vm_compute in (trace_tgt_float {ft} T0 {seed}%Z)."]
    rc, out, err = core.coqc_text(name, "\n".join(body), 300)
    return re.sub(r"\s+", " ", out)[-3000:] if rc == 0 else err[-1500:]


def tgt_traces(texts, seed=1, fuel=400, shard=16, name="ttr", timeout=600):
    """texts: list of emitted IC10 texts -> list of printed effect traces (one string per text)."""
    shards = [(i, texts[i:i + shard]) for i in range(0, len(texts), shard)]

    def one(arg):
        off, cs = arg
        body = [HEADER]
        for j, t in enumerate(cs):
            body.append(f"Definition T{j} : @program float := {Parsed(t).coq()}.")
            body.append(f"Eval vm_compute in (trace_tgt_float {fuel} T{j} {seed}%Z).")
        return _run_file(f"{name}_{off}", "\n".join(body), timeout)

    out = []
    with ThreadPoolExecutor(max_workers=12) as ex:
        for r in ex.map(one, shards):
            out += r
    return out
