"""Shared machinery of the pipeline properties (C01 C02 C05 C06 C07 C13): compile generated
programs under option vectors, run the differential engine, describe failures."""
from __future__ import annotations

import json
import re

from . import core, impl, progen, diffrun, shrink

FS, FT = 250, 6000
SEEDS = [1, 2, 3]

VECTORS = {
    "default": impl.vec(append_version=False),
    "noinline": impl.vec(append_version=False, inline_functions=False),
    "compact": impl.vec(append_version=False, compact=True, remove_labels=True),
    "pushpop": impl.vec(append_version=False, inline_functions=False, use_push_pop_functions=True),
    "tail": impl.vec(append_version=False, inline_functions=False, tail_call_optimization=True),
    "tailinline": impl.vec(append_version=False, tail_call_optimization=True),
    "pushpopinline": impl.vec(append_version=False, use_push_pop_functions=True),
    "all": impl.vec(original_code_as_comment=True, generated_comments=True, inline_functions=True,
                    remove_labels=True, append_version=True, compact=True, tail_call_optimization=True,
                    use_push_pop_functions=True),
}


def falls_through(result) -> bool:
    """Static closure test (C07) on the final instruction list exported by the hook: some
    function region is entered by sequential flow from the line before it."""
    v = result.get("_verif") or {}
    final = v.get("final") or []
    for i in range(1, len(final)):
        a, b = final[i - 1], final[i]
        if b.get("owner") and b.get("owner") != a.get("owner"):
            op = a.get("op", "")
            if op in ("j", "jr", "hcf"):
                continue
            return True
    return False


def tail_after_call(result):
    from .props.c02 import tail_after_call as f
    return f(result)


def end_label_unterminated(result) -> bool:
    """precondition of the second tail-call defect: a function whose 'j ra' was suppressed for a
    tail call still has its '<name>end' exit (early returns jump there), so that exit runs on into
    whatever follows.  Detected on the final instruction list: inside a function region an
    instruction jumps to the position just past the region's last instruction, or a '<name>end:'
    label is the last line of its region."""
    final = (result.get("_verif") or {}).get("final") or []
    for i, ins in enumerate(final):
        op = ins["op"].strip()
        own = ins.get("owner")
        if own and op.endswith("end:"):
            nxt = final[i + 1] if i + 1 < len(final) else None
            if nxt is None or nxt.get("owner") != own:
                # is it referenced?
                name = op[:-1]
                if any(a.get("val") == name for x in final for a in x["in"]):
                    return True
    return False


def forlist_contains_call(P) -> bool:
    """source-level precondition of the known finding 'call inside a constant-list loop': some
    `for x in [consts]` body contains a call of a user function"""
    def has_call(x):
        if isinstance(x, tuple):
            if x and x[0] == "call":
                return True
            return any(has_call(y) for y in x[1:])
        if isinstance(x, list):
            return any(has_call(y) for y in x)
        return False

    def walk(ss, inside):
        for s in ss:
            if inside and has_call(s):
                return True
            if s[0] == "forlist" and (has_call(s[3]) or walk(s[3], True)):
                return True
            if s[0] == "if" and (any(walk(b, inside) for _, b in s[1]) or (s[2] and walk(s[2], inside))):
                return True
            if s[0] == "while" and walk(s[2], inside):
                return True
            if s[0] == "forrange" and walk(s[3], inside):
                return True
        return False
    if P is None:
        return False
    return walk(P.main, False) or any(walk(f.body, False) for f in P.funcs)


class Case:
    def __init__(self, name, prog, vname, opts, result):
        self.name, self.prog, self.vname, self.opts, self.result = name, prog, vname, opts, result
        self.verdicts = None

    @property
    def ok(self):
        return "code" in self.result

    def error(self):
        e = self.result.get("error")
        if isinstance(e, dict):
            return e.get("description", "")
        return self.result.get("raised") or ("hang" if self.result.get("hang") else str(self.result)[:200])


def compile_cases(progs, vnames):
    jobs, meta = [], []
    for name, p in progs:
        for vn in vnames:
            jobs.append((p.text(), VECTORS[vn]))
            meta.append((name, p, vn))
    res = impl.compile_many(jobs)
    return [Case(n, p, vn, VECTORS[vn], r) for (n, p, vn), r in zip(meta, res)]


def diff_cases(cases, fs=FS, ft=FT, seeds=SEEDS, name="pl"):
    oks = [c for c in cases if c.ok]
    vs = diffrun.src_vs_tgt([(c.prog.coq(), c.result["code"]) for c in oks], seeds, fs=fs, ft=ft, name=name)
    for c, v in zip(oks, vs):
        c.verdicts = v
    return oks


def bad_verdict(c):
    """first verdict that is neither agreement nor an out-of-domain source run"""
    for k, t in enumerate(c.verdicts or []):
        if t[0] not in (0, 5):
            return k, t
    return None


def describe(c, k, t, with_traces=True):
    code, idx, ns, nt, send, tstat = t
    rec = {
        "kind": "trace", "verdict": code, "verdict_text": diffrun.VERDICT.get(code, "?"),
        "first_difference_at_event": idx, "source_events": ns, "target_events": nt,
        "source_ending": send, "target_status": tstat, "oracle_seed": SEEDS[k] if k < len(SEEDS) else k,
        "options": c.opts, "option_set": c.vname, "program": c.name, "source": c.prog.text(),
        "code": c.result.get("code"), "features": sorted(c.prog.features),
        "falls_through": falls_through(c.result),
        "forlist_contains_call": forlist_contains_call(c.prog),
        "tail_call": bool(c.opts.get("tail_call_optimization")), "push_pop": bool(c.opts.get("use_push_pop_functions")),
        "tail_after_call": tail_after_call(c.result) if c.opts.get("tail_call_optimization") else False,
        "tail_end_label_unterminated": end_label_unterminated(c.result) if c.opts.get("tail_call_optimization") else False,
        # the divergence lies after everything the source does (consistent with running past
        # the end of the main code)
        "after_main_finished": bool(send == 1 and idx >= ns) if code in (2, 4) else False,
    }
    if with_traces:
        try:
            rec["traces"] = diffrun.show_traces(c.prog.coq(), c.result["code"], rec["oracle_seed"], fs=FS, ft=FT)[-1200:]
        except Exception as e:  # noqa
            rec["traces"] = repr(e)
    return rec


def shrink_case(c, k, t, max_rounds=30, budget_s=150):
    """Minimise the program of a failing case keeping verdict code (and machine status)."""
    want = (t[0], t[5] if t[0] == 4 else 0)

    def still(cands):
        cs = compile_cases([(c.name, p) for p in cands], [c.vname])
        diff_cases(cs, name="shr")
        out = []
        for x in cs:
            b = bad_verdict(x) if x.ok else None
            out.append(b is not None and (b[1][0], b[1][5] if b[1][0] == 4 else 0) == want)
        return out
    try:
        m = shrink.shrink(c.prog, still, max_rounds=max_rounds, budget_s=budget_s)
    except Exception:
        return c, k, t
    cs = compile_cases([(c.name, m)], [c.vname])
    diff_cases(cs, name="shr")
    if cs and cs[0].ok and bad_verdict(cs[0]):
        k2, t2 = bad_verdict(cs[0])
        return cs[0], k2, t2
    return c, k, t


# ----------------------------------------------------------------------------------------
# layout: owners of the emitted text lines (from the hook's final instruction list)

def line_owners(result):
    """owner function ('' = main) of every line of result['code'], by aligning the text with the
    hook's final instruction list (label lines that were removed from the text are skipped)."""
    final = (result.get("_verif") or {}).get("final") or []
    lines = result["code"].split("\n") if result["code"] != "" else []
    owners = []
    j = 0
    from .ic10 import tokenize
    for ln in lines:
        toks = tokenize(ln)
        first = toks[0] if toks else ""
        k = j
        while k < len(final) and not _same_op(final[k]["op"], first):
            k += 1
        if k >= len(final):
            owners.append(owners[-1] if owners else "")
            continue
        owners.append(final[k].get("owner") or "")
        j = k + 1
    return owners


def _same_op(op, first):
    op = op.strip()
    return op == first or (op.endswith(":") and op == first) or op.split()[:1] == [first]


def region_entries(result):
    ow = line_owners(result)
    return [i for i in range(1, len(ow)) if ow[i] and ow[i] != ow[i - 1]], ow


def main_can_terminate(P) -> bool:
    """source-level: can the top-level code run to its end?"""
    def has_break(ss):
        for s in ss:
            if s[0] == "break":
                return True
            if s[0] == "if":
                if any(has_break(b) for _, b in s[1]) or (s[2] and has_break(s[2])):
                    return True
        return False
    if not P.main:
        return True
    last = P.main[-1]
    if last[0] == "while" and last[1] == ("num", 1) and not has_break(last[2]):
        return False
    return True
