#!/usr/bin/env python3
"""Writes MANIFEST.json from the table below (single source of truth for check metadata)."""
import json
from pathlib import Path

V = Path(__file__).resolve().parents[1]

CHECKS = {
 "C18": dict(
    category="proof", technique="Coq proof (induction over byte lists) + translator tie + model/implementation correspondence",
    text="Kernel-checked theorems for every byte list: url_decode(url_encode bs) = Some bs, URL-safe alphabet, length never 1 mod 4, and the zlib/json pipeline under oracle round-trip hypotheses. The replacement chains, padding rule and call pipelines are regenerated from types.py each run and proved equal to the model; the model's codec is compared with encode_data/decode_data on byte strings of every length 0..300(+) and on generated dictionaries.",
    note="Trusted: Coq kernel; Base64/ShareLink model (compared with the implementation each run); zlib/json/UTF-8 round-trip hypotheses; translator tools/pyt2coq/share.py.",
    design="4 C18"),
 "C16": dict(
    category="proof", technique="Coq finite-forall over regenerated tables (vm_compute + forallb_forall), exhaustive; reflection cross-check",
    text="The structure classes (716), enums (27) and intrinsic wrappers (147) are re-read from the source text on every run and the kernel checks, for every row: stored hash = signed CRC-32 of the prefab name (CRC computed in Coq), plural/singular pairing with equal hash and singleton, slot aliases resolve to the numbered slot, enum values injective, wrapper opcode/operand order/result flag against the hand-written IC10 signature table. Exhaustive over the tables; the nine wrappers that fail are excluded by name in the theorem, refuted in C16_findings.v and listed as a known finding.",
    note="Trusted: Coq kernel; Sig.v (IC10 signatures, hand-written); CRC32.v (compared with zlib each run); translator tables.py (cross-checked against the imported package by reflection each run).",
    design="4 C16"),
 "C17": dict(
    category="proof", technique="Coq proof over a model of str.splitlines + regenerated statistics expressions; independent recount of every compile",
    text="The three statistics expressions are re-read from get_code on every run as terms; the kernel checks, for every program text that is non-empty, has '\\n' as its only line boundary and no trailing newline (and for the empty program), that they evaluate to the line count, the size with two-byte line ends and the size of the used-register list (induction over the text against a model of str.splitlines). Every compile done by the check (repository programs, corpus, generated programs x option vectors) is recounted independently, num_registers against the allocation map exported by the hook.",
    note="Trusted: Coq kernel; PyStr.v model of splitlines/len; translator stats.py; the hook's export of the register map. That the used-register list equals the image of the allocation is checked per compile (and proved for the allocation model in C04), not proved about the Python code.",
    design="4 C17"),
 "C15": dict(
    category="proof", technique="Coq proof (induction over lines/tags) about a model of the scanner + translator tie + model/implementation correspondence",
    text="Kernel-checked theorems for every source text and every caller option vector: the scanner equals 'collect the directives of directive lines in order and apply them' (scan_eq_spec), last directive wins, unknown names are ignored, unnamed options keep the caller's value, the option set never changes, lines whose first non-blank character is not '#' carry no directive, '-' and '_' are alike. The loop's shape and literals and the field test are re-read from compiler.py on every run (fail-closed translator) and proved equal to the model's; the model is run against compile_code on 1500+ generated sources (mixed separators, Unicode spaces, attribute-like names) and the OBSERVE equality is checked on real compiles.",
    note="Trusted: Coq kernel; PyStr.v (Python string methods; exercised against CPython by the correspondence run); translator pragma.py.",
    design="4 C15"),
 "C03": dict(
    category="proof", technique="Coq proofs per operator over the regenerated folding table (Python semantics of each lambda = instruction semantics, all operands in the domain) + correspondence with CPython + compile-and-run observation",
    text="The operator tables of utils.py, including the body of every folding lambda, are re-read on each run as terms and proved equal to the model tables; for each operator the kernel checks, for ALL operands in the stated domain, that Python's evaluation of the lambda yields exactly the value the paired instruction computes (+ - * / ** comparisons: identical IEEE operation; %: for every non-negative modulus; and/or/^/&/>>/<<: non-negative integers below 2^53; not; unary minus up to the sign of zero, from the standard library's IEEE axioms; ~ is never folded); lifted by induction to whole expression trees (the recursion of is_constant): every tree over + - * / ** and the comparisons, of any shape and depth, folds to the value the instructions compute, and so does any tree whose nodes' operands lie in the operator's domain. The Python-semantics model is compared with the real lambdas on an operand grid, and the property's own observation (constant operands vs operands loaded from the stack, four program shapes) is run through the compiler and the machine model.",
    note="Trusted: Coq kernel + stdlib Floats.FloatAxioms (named in print_assumptions); Fold.v model of Python numerics (compared with CPython each run); FloatAlg.v chip arithmetic; transcendental functions / pow assumed identical on both sides; translator ops.py. The tree recursion of is_constant is modelled (FoldTree.v) and exercised by the observation runs; the propagation of constants through names and passes is exercised only.",
    design="4 C03"),
 "C01": dict(
    category="translation_validation", technique="Coq reference semantics (source dialect + IC10 machine) with kernel-checked machine/validator lemmas; per-compile validation by differential execution inside Coq; generated programs, shrinking, known-finding classification",
    text="Source dialect and IC10 machine are Coq definitions (trusted specs). Kernel-checked for all programs/oracles/operands: effects are never retracted and fuel-cut traces are prefixes of longer runs, verdict 0 of the comparison implies event-wise agreement, the negated-comparison table (regenerated) pairs every operator with the negated relation and the negated branch is taken exactly when the comparison is false for all ordered operands (refuted for NaN). The compiler is not modelled as a function: every generated program (grammar-directed, all listed constructs) is compiled under rotating option sets and its emitted text executed against the source under 3 device oracles by vm_compute of those same definitions; disagreements are shrunk and replayed. T1 (a verified simulation checker) is not built yet: the per-compile verdict is a bounded test, stated as such.",
    note="Trusted: Coq kernel; Src/Sem.v, IC10/Machine.v, FloatAlg.v (specifications); ic10.py reader; generator's two printers. Bounded by fuel and by the sample of programs/oracles; timing not modelled; NaN excluded. One open known finding (fall-through after a terminating main, pinned by .ref files).",
    design="4 C01"),
 "C02": dict(
    category="translation_validation", technique="pairwise execution of real compiler outputs on the Coq IC10 machine (vm_compute) with kernel-checked comparison/monotonicity lemmas; option vectors enumerated (pairwise-covering / all 256)",
    text="Every program (generated + the repository's 69 programs) is compiled under a baseline and under option vectors (quick: 4 per program from a pairwise-covering set plus the 32 behaviour vectors; thorough: all 256 on 20 programs) and each variant is executed against the baseline on the machine model under 2 oracles; one vector per program is also delivered through '# pytrapic:' lines and must give the same code. Kernel-checked: verdict 0 implies event-wise agreement, traces are monotone in fuel, the C07 guard is conservative, the option record has exactly the 8 regenerated fields. Bounded, sampled validation - not a proof of the compiler.",
    note="Trusted: Coq kernel; IC10/Machine.v; ic10.py reader. Known finding C07 is factored out by the guarded run; programs addressing the chip's own stack are not compared under the push/pop convention (same memory); the former finding 'tail call after an inner call' was repaired (7e7d929).",
    design="4 C02"),
 "C07": dict(
    category="proof", technique="Coq proof about the machine (sequential flow = next line; j/jr/hcf never fall through; end of program halts silently) + closure check of every emitted layout evaluated in Coq + execution past the end of main",
    text="Kernel-checked for every program, oracle and state: a non-control instruction moves to the next line or fails in place; a line that is j/jr/hcf never continues sequentially; in a closed layout every function region is preceded by such a line, hence is entered only by explicit transfer; running past the last line halts with no effect. For each compile the region entries come from the hook and `closed` is evaluated in Coq on the emitted program; programs are also executed past the end of main. The layout is NOT closed today whenever main can terminate (refuted by witness in C07.v): open known finding pinned by the stored .ref files.",
    note="Trusted: Coq kernel; IC10/Machine.v; hook's owner export; ic10.py reader. Dynamic part bounded/sampled.",
    design="4 C07"),
 "C08": dict(
    category="proof", technique="Coq proofs about models of calc_hash / compute_hash / compute_string / _apply_output_mode / format_int (all strings, all integers, all modes) + translator tie + token-wise comparison of compact and verbose outputs",
    text="Kernel-checked: calc_hash's xor/subtract formula is the signed reading of the CRC for every 32-bit value (and CRC-32 of every byte string is below 2^32); for every name and every output mode the printed HASH token (HASH(\"..\"), decimal or $HEX) has the value signed-CRC(name); the same for STR over ASCII strings (shift/or packing = big-endian base 256); format_int output reads back as the integer for EVERY integer (Coq's standard decimal/hexadecimal printers and parsers); every enum member's name resolves to its number within its enumeration (finite, regenerated). The six functions' shapes and constants are re-read from the source each run. Model functions are compared with the implementation on generated strings/integers, and compact vs verbose outputs of repository, generated and sweep programs are compared token-wise.",
    note="Trusted: Coq kernel; CRC32.v (vs zlib each run); ic10.py token valuation; translator hashfmt.py. Strings are modelled by their UTF-8 bytes (the compact/verbose choice for non-ASCII names is not compared: either choice has the same value). One open known finding (bare enum names used as plain values).",
    design="4 C08"),
 "C09": dict(
    category="proof", technique="Coq: finite-forall over the regenerated emission-site inventory and operator tables against the IC10 signature table; integer-literal round trip for all integers; wf_program => machine never reports unknown instruction / wrong operand count (all oracles); version-note model. Grammar + literal read-back check of every emitted line",
    text="Kernel-checked: every instruction-emission site with a literal opcode (inventory regenerated from the sources) names an existing instruction with the right operand count; every operator-table opcode exists except 'neg' (refuted, known finding); integer literals read back exactly for EVERY integer; a statically well-formed program never stops with 'unknown instruction' or 'wrong operand count' for any oracle and fuel; the version note changes at most one line and a changed line stays below 89 characters. Every line of every compile (repository, corpus, generated programs x option vectors) is checked against the signature table, forbidden spellings and the values exported by the hook (exact for integers up to 2^53, 16 significant digits otherwise, exact rationals); float formatting is read back over all decades.",
    note="Trusted: Sig.v (hand-written IC10 signatures) and the literal grammar in ic10.py; hook values; CPython's %.16g taken as correctly rounded (checked by read-back, not modelled). Three open known findings pinned by stored references (neg opcode, empty operand for an unassigned name, unvalidated logic-type name).",
    design="4 C09"),
 "C05": dict(
    category="proof", technique="Coq: semantic theorem for the call-free fragment (label-free program simulates the labelled one step for step, all programs / oracles / fuel) + structural resolution theorems for all programs + per-compile glue equality and fragment membership evaluated in Coq + identifier adversary + execution of both label modes",
    text="Kernel-checked: (1) for EVERY labelled program whose labels occur only as targets of absolute non-linking jumps/branches (no jal/jr/relative branches, no alias names), every device behaviour and every number of steps, the label-free program resolve(q) reaches the same effect history, status, registers and memory, its pc being the number of instruction lines before q's pc (simulation proof over all instructions of the machine; instantiated for binary64 and programs up to 4096 lines); (2) for every program and label the number that replaces a label is the index, in the label-free program, of the instruction following the label; the resolved program has no label lines or operands; the static check implies every referenced label is defined once. For every compile pair (labels kept / removed, 3-5 option variants) the equality resolve(parse(labelled)) = parse(label-free) and membership in the fragment are evaluated in Coq on the real outputs: pairs in the fragment with the equality are decided by theorem (1) (126 of 266 in the last quick run, reported in the evidence); all pairs additionally pass a static jump-target check and are executed against each other. Function names come from adversarial families (prefixes, '<name>end', generated-label and opcode/register look-alikes, also used as device-name strings; comment and label look-alikes inside HASH literals).",
    note="Programs with calls are outside theorem (1): return addresses held in ra / on the stack differ between the two renderings; for them the decision is the per-compile glue + execution (bounded). Trusted: Coq kernel; Machine.v label semantics; ic10.py reader. Two open known findings (label-name clashes: '<name>end' vs function <name>end; functions named like generated labels).",
    design="4 C05, 11.2"),
 "C06": dict(
    category="proof", technique="Coq: shadow-call-stack monitor proved not to disturb the machine; model of add_ra_instructions with shape theorem for all function bodies (fixed-slot) + correspondence in both conventions; monitored execution of generated call graphs",
    text="Kernel-checked: the monitored run is the machine's run for every program/oracle/fuel/state; for EVERY function body of the emitted shape that makes a call, add_ra_instructions (fixed-slot) yields one push ra on entry and one pop ra after the end label, so every exit (early returns jump to the end label) restores ra; functions without calls or returns are untouched; for the push/pop convention, for EVERY instruction list starting with the function label (push position not also a pop position), the result is the original list decorated with `push ra` after the argument pops and `pop ra` at each exit (or in front of the value push preceding it), and reading the result from the top every exit - early return or end label - is preceded by `pop ra` with at most the return-value push in between (insertion at descending positions = decoration, proved generically). The model of add_ra_instructions (both conventions) is compared with the real method on 1000+ synthetic instruction lists. Generated programs with functions (arities 0-3, early returns, calls in expressions) are compiled under five option sets; every executed return is checked by the monitor (returns to the call being served, stack-pointer delta 0 / -args+result) and effect traces are compared with the source.",
    note="Trusted: Coq kernel; Machine.v/Monitor.v; RaInsert.v abstraction of instructions; generator's arities; hook. Monitored runs bounded and sampled. Open known findings: consequences of C07 fall-through only (the tail-call and constant-list-loop defects were repaired: 7e7d929, c46ae10).",
    design="4 C06"),
 "C14": dict(
    category="proof", technique="Coq: verified outcome analysis of control skeletons (soundness for every skeleton, environment and execution) evaluated on the regenerated skeletons of process_input and main + scripted-stdin runs of the real daemon under five interpreter environments",
    text="The statement structure of process_input and main is re-read from mod_daemon.py on every run. A small operational semantics of such skeletons (any expression not listed as safe may raise any Exception subclass; one tracked variable) and an analysis of all possible (outcome, replies written) pairs are defined in Coq with a kernel-checked soundness theorem over all skeletons/executions. Evaluated on the regenerated skeletons the kernel checks: on a non-empty line every path returns normally with exactly one reply written; an empty line writes nothing; by induction over request histories the number of replies after any history (and after each of its prefixes) equals the number of non-empty lines served; the main loop lets no exception escape and makes stdin lenient before reading; the only statement writing to the saved stdout is the reply and stdout is redirected at import. The real daemon is run on generated request histories (22 request kinds incl. undecodable bytes, blank lines, EXIT/EOF variants) under five environments; count, order, decodability and class of replies are checked.",
    note="Trusted: Coq kernel; SkelSem.v semantics and the listed non-raising assumptions (SkelEnvs.v); translator skeletons.py. BaseException-only exceptions, OS pipes and buffering are outside the model (exercised by the process runs only). The per-line theorem and the loop structure are connected by reading, not by a machine-checked composition.",
    design="4 C14"),
 "C10": dict(
    category="proof", technique="Coq: verified outcome analysis evaluated on the regenerated skeletons of Compiler.compile, compile_code and eval_constexpr (every exception path enumerated symbolically) + fault enumeration on the implementation with wall-clock limit and /proc scan",
    text="With the sound skeleton analysis (theorem over all skeletons/executions) the kernel checks on the skeletons re-read from the sources: whatever Exception subclass is raised anywhere inside the try of Compiler.compile, every path ends in a return of the result or an {'error': ..} dictionary; compile_code (CompileOptions value/None, str source) always ends in that return; after the constexpr child is started, every path on which communicate() did not complete kills the child before leaving. The implementation is exercised by fault enumeration: prefixes of the repository's programs (keystroke model), mutations, random Unicode, every unsupported construct, recursion, constexpr bodies that fail/print/never end/sleep/exit/return non-JSON/spawn; each call under a wall-clock limit, followed by a scan for surviving child processes; verdict shape, statistics and error position (inside the submitted text) are checked.",
    note="Partial: wall-clock bounds and OS process state are runtime behaviour that the model cannot exhibit (exercised, not proved). Assumed: exception handlers do not raise; BaseException-only exceptions not modelled; option dictionaries with unknown keys and source mappings without \"\" are API misuse outside the property's domain. Trusted: Coq kernel; SkelSem.v; translator skeletons.py.",
    design="4 C10"),
 "C11": dict(
    category="proof", technique="Coq: state-machine model of the process-wide state with an invariant proved by induction over request histories (cache is a subset of the evaluator's graph) + regenerated inventory of module-level mutable state + history runs against fresh-process results",
    text="Kernel-checked for every history and request, for any evaluator and any compiler that uses the evaluator only by calling it: the result after the history equals the result in a fresh process (invariant: the constexpr cache only holds (script, value of that script); the output mode is overwritten from the request before use; the hash set is filled before first use). The inventory of module-level mutable state (rebound globals, mutated containers, attribute writes through modules) is regenerated from the package on every run and proved equal to the list the model accounts for; the skeleton of compile_code is checked to copy the options before the directive scanner writes and to set the output mode before compiling. Histories of 5-60 requests from a pool (pragma-carrying sources with contradicting caller options, compact/verbose alternation, constexpr users, failing and multi-module requests) are served by one process each and compared with fresh-process results; the caller's options and sources are compared before/after.",
    note="Trusted: Coq kernel; GlobalState.v (compiler as an oracle, deterministic evaluator); translator globals_.py. State held inside objects (device singletons) is not inventoried statically; covered by the history runs only.",
    design="4 C11"),
 "C12": dict(
    category="proof", technique="Coq proofs about the rejection test (word search model, every text) and the integer transport (decimal text -> emitted literal -> value, every integer); regenerated skeletons of the constexpr mechanisms; generated functions x arguments x call positions compared with direct evaluation and with literal substitution",
    text="Kernel-checked: for every text in which open, eval or exec stands as a word (delimited by non-word characters or the ends), the model of the rejection test answers 'forbidden'; the source applies exactly that test and raises (skeleton of check_constexpr_function re-read each run); a decorated function is checked, recorded and its body emptied; CompilerPassGatherCode.run appends lines only inside the per-function loop and skips constexpr functions first; every integer a function returns arrives unchanged in the literal the chip reads (json decimal text, format_int in either output mode, literal reader). The VALUE is computed by CPython and is not modelled: generated pure functions (typed grammar over ints, floats, strings, booleans, enums, HASH; fully parenthesised to stress re-serialisation; branches, loops, defaults, keywords, nested constexpr calls) are compiled at 10 call positions (main, expressions, function bodies, loops, arguments, Stack subscripts, three library placements) under rotating options and compared with direct evaluation in the checker's interpreter (own CRC-32) and with the program that has the literal in the call's place and no definition.",
    note="Partial: the theorem part covers rejection, emission of no code and integer transport; 'the value is what ordinary Python evaluation returns' is a statement about CPython running a generated script and is decided by the correspondence runs only (sampled). Trusted: Coq kernel; Constexpr.v word-search model (compared with CPython's re each run); translator skeletons.py; astroid's as_string only through the runs. Two open known findings (non-finite result, string result as HASH argument: internal compiler errors).",
    design="4 C12"),
 "C04": dict(
    category="proof", technique="Coq proofs about a faithful model of register_assignment.py (interval colouring for all symbol lists, scope ordering for all call graphs, register range / limit) + correspondence with assign_colors and with the allocation decisions exported by the hook + liveness-based interference check and register-pressure runs",
    text="Kernel-checked: for EVERY list of symbols (any order, any lifetimes) assign_colors gives different colours to symbols with overlapping lifetimes (stable sort, expiry and free-list reuse modelled as written); for EVERY call graph the scope ordering, when it succeeds, places every scope after its callers, and any call cycle (recursion) makes it fail; a scope only receives registers among r0..r15 that its callers have not blocked, and a colour beyond the available registers is the out-of-registers error. The colouring model is compared with the real assign_colors on random interval sets; on every compile (generated, directed shapes, register-pressure programs, and all of the repository's own programs and the text corpus incl. multi-module programs) the exported scope order, available lists, colours and map are re-derived, a liveness-based interference check runs on the pre-allocation instruction stream (CFG with call/return edges, jump tables), and register-pressure programs (3..20 simultaneously live variables, loop-carried variables, values live across call chains) are executed against the source.",
    note="NOT proved: that the line-interval lifetimes computed from the source cover true liveness (types.py lifetime); this link is tested by the interference check and the pressure runs only. AllocCheck with a soundness theorem (T2) is not built; the interference check is harness code. Trusted: Coq kernel; RegAlloc.v; hook exports.",
    design="4 C04"),
 "C13": dict(
    category="translation_validation", technique="one source tree rendered as a split (main + library module) and as a merged single-file program; both compiled and executed on the Coq machine against the Coq source semantics and against each other; kernel-checked comparison lemmas",
    text="Each generated program has 1-3 library functions, 1-2 library globals (written through `global`), a never-called library function and an `if __name__ == \"__main__\"` block, imported with or without alias, with main-level names that collide with library-level names. The split rendering and the merged rendering (module-name prefix) are compiled under 2-5 option sets; each output is executed against the source semantics (same tree for both) and the two outputs against each other; the never-called function and the __main__ block must contribute no instruction. Kernel-checked: verdict 0 of both comparisons implies event-wise agreement; traces are monotone in fuel. No theorem about the compiler's handling of modules: bounded, sampled validation.",
    note="Trusted: Coq kernel; Src/Sem.v, Machine.v; the harness's two printers. Open known finding: consequences of the fall-through defect (the tail-call defects were repaired: 7e7d929).",
    design="4 C13"),
}

NOT_YET = {}


def main():
    props = [json.loads(l) for l in (V / "properties.jsonl").read_text().splitlines() if l.strip()]
    checks = []
    na = []
    for p in props:
        pid = p["id"]
        if pid in CHECKS:
            c = CHECKS[pid]
            checks.append({
                "property_id": pid,
                "quick_cmd": f"./check {pid} --tier quick",
                "thorough_cmd": f"./check {pid} --tier thorough",
                "evidence_file": f"evidence/{pid}.json",
                "replay_cmd_template": "./check replay {path}",
                "engine": "coq",
                "level_claimed": {"category": c["category"], "text": c["text"], "design_ref": c["design"]},
                "level_note": c["note"],
                "technique": c["technique"],
            })
        else:
            na.append({"property_id": pid, "reason": NOT_YET.get(pid, "check not built yet in this session (planned in DESIGN.md section 4); not claimed until its Coq model, theorems and tie exist")})
    m = {
        "version": 1,
        "setup_cmd": "./check setup",
        "hooks": {
            "guard": "PYTRAPIC_VERIF",
            "enable": "checks run the working tree of /repo with PYTHONPATH=/repo/src and PYTRAPIC_VERIF=1",
            "baseline_off_cmd": "cd /repo && env -u PYTRAPIC_VERIF /venv/bin/python -m pytest -ra -q -p no:cacheprovider --timeout=900 --continue-on-collection-errors",
            "source_commits": json.loads((V / "hooks.json").read_text()) if (V / "hooks.json").exists() else [],
            "add_only": True,
        },
        "engines": [
            {"name": "coq", "path": "coq/", "serves_properties": sorted(CHECKS),
             "kind_free_text": "Coq 8.16.1 development (models, theorems, verified checkers); gen/ regenerated from /repo by tools/pyt2coq on every run; correspondence cases evaluated with vm_compute"},
        ],
        "checks": checks,
        "not_applicable": na,
        "notes": "All checks: ./check <id> --tier quick|thorough ; honours VERIF_SEED / VERIF_TIER. See DESIGN.md.",
    }
    (V / "MANIFEST.json").write_text(json.dumps(m, indent=1) + "\n")


if __name__ == "__main__":
    main()
