#!/venv/bin/python
"""tools/runseeded.py <seeded dir> [--checks C01,C02] [--tier quick]
Applies seeded/<name>/patch.diff to /repo, runs the named checks (default: the property in
meta.json) with PV_REPLAY=1 (evidence files are not rewritten), undoes the patch, and writes
seeded/<name>/result.json.  Never commits anything to /repo."""
import argparse
import json
import os
import subprocess
import sys
import time
from pathlib import Path

V = Path(__file__).resolve().parents[1]
REPO = Path("/repo")


def sh(cmd, **kw):
    return subprocess.run(cmd, capture_output=True, text=True, **kw)


def main():
    ap = argparse.ArgumentParser()
    ap.add_argument("dir")
    ap.add_argument("--checks", default=None)
    ap.add_argument("--tier", default="quick")
    a = ap.parse_args()
    d = Path(a.dir).resolve()
    meta = json.loads((d / "meta.json").read_text())
    checks = a.checks.split(",") if a.checks else [meta["property"]]
    st = sh(["git", "-C", str(REPO), "status", "--porcelain"]).stdout.strip()
    if st:
        print("refusing: /repo working tree is not clean:\n" + st)
        return 2
    r = sh(["git", "-C", str(REPO), "apply", str(d / "patch.diff")])
    if r.returncode != 0:
        print("patch does not apply: " + r.stderr)
        return 2
    results = {}
    try:
        for c in checks:
            t0 = time.time()
            env = dict(os.environ, PV_REPLAY="1")
            p = sh([str(V / "check"), c, "--tier", a.tier], env=env, cwd=str(V))
            lines = [l for l in p.stdout.splitlines() if l.startswith(("VIOLATION", "KNOWN-FINDING"))]
            replays = []
            for l in lines:
                if l.startswith("VIOLATION") and "replay=" in l:
                    path = l.split("replay=")[1].split()[0]
                    try:
                        rec = json.loads(Path(path).read_text())
                        replays.append({"what": rec.get("what"), "no_failing_input": l.rstrip().endswith("no-failing-input-found"),
                                        "broken_obligation": rec.get("broken_obligation")})
                    except Exception:
                        pass
            results[c] = {"rc": p.returncode, "caught": p.returncode == 1 and any(l.startswith("VIOLATION") for l in lines),
                          "violations": replays[:8], "wall_s": round(time.time() - t0, 1)}
            print(c, "rc=", p.returncode, "caught" if results[c]["caught"] else "MISSED", [x["what"] for x in replays[:3]], flush=True)
    finally:
        sh(["git", "-C", str(REPO), "checkout", "--", "."])
    old = {}
    if (d / "result.json").exists():
        old = json.loads((d / "result.json").read_text())
    old.update(results)
    (d / "result.json").write_text(json.dumps(old, indent=1) + "\n")
    return 0


if __name__ == "__main__":
    sys.exit(main())
