#!/bin/bash
# Independent re-check of the compiled development (all property modules and everything they depend on)
# with coqchk; prints the axioms the checked context relies on.  Takes several minutes.
cd "$(dirname "$0")/../coq" || exit 2
mods=$(ls theories/Props/*.v | sed 's#theories/Props/\(.*\)\.v#PV.Props.\1#')
timeout 3600 coqchk -silent -o -Q theories PV -Q gen PVGen $mods 2>&1 | tee ../evidence/coqchk.txt | tail -40
