"""types.encode_data / decode_data  ->  coq/gen/GenShare.v"""
import ast
from .common import *


def _call_chain(expr):
    """Peel method calls: returns (innermost expr, [(method, args)...] outermost last)."""
    chain = []
    while isinstance(expr, ast.Call) and isinstance(expr.func, ast.Attribute):
        if expr.keywords:
            fail(expr, "keyword arguments not supported")
        chain.append((expr.func.attr, expr.args))
        expr = expr.func.value
    chain.reverse()
    return expr, chain


def _fname(f):
    if isinstance(f, ast.Attribute) and isinstance(f.value, ast.Name):
        return f"{f.value.id}.{f.attr}"
    if isinstance(f, ast.Name):
        return f.id
    fail(f, "unsupported callee")


def _nest(expr, var):
    """Nested single-argument calls/methods applied to variable `var`, innermost first."""
    steps = []
    while True:
        if isinstance(expr, ast.Name) and expr.id == var:
            break
        if isinstance(expr, ast.Call) and not expr.keywords:
            if isinstance(expr.func, ast.Attribute) and len(expr.args) == 0:
                steps.append("." + expr.func.attr)
                expr = expr.func.value
                continue
            if len(expr.args) == 1:
                steps.append(_fname(expr.func))
                expr = expr.args[0]
                continue
        fail(expr, "unsupported pipeline element")
    steps.reverse()
    return steps


def _repl_chain(chain):
    out = []
    for m, args in chain:
        if m != "replace" or len(args) != 2:
            fail(args[0] if args else m, f"unsupported string method {m}")
        a, b = const_str(args[0]), const_str(args[1])
        if len(a) != 1 or len(b) > 1:
            raise TranslateError(f"replace({a!r},{b!r}) is not one-character")
        out.append((ord(a), ord(b) if b else None))
    return out


def _coq_chain(ch):
    return coq_list([f"({a}, {'Some ' + str(b) if b is not None else 'None'})" for a, b in ch]) + "%N"


def translate(pkg) -> str:
    tree = parse_file(pkg / "types.py")
    enc = find_def(tree, "encode_data")
    dec = find_def(tree, "decode_data")
    # ---- encode: imports then a single return
    body = [s for s in strip_docstring(enc.body) if not isinstance(s, ast.Import)]
    if len(body) != 1 or not isinstance(body[0], ast.Return):
        fail(enc, "encode_data: expected a single return statement")
    if len(enc.args.args) != 1:
        fail(enc, "encode_data: expected one parameter")
    inner, chain = _call_chain(body[0].value)
    # chain = [... pipeline ..., decode, replace, replace, replace]; split at first replace
    k = next((i for i, (m, _) in enumerate(chain) if m == "replace"), len(chain))
    pre, repl = chain[:k], chain[k:]
    # rebuild the pre-part as an expression to read the pipeline
    expr = body[0].value
    for _ in repl:
        expr = expr.func.value
    enc_pipeline = _nest(expr, enc.args.args[0].arg)
    enc_chain = _repl_chain(repl)
    # ---- decode
    body = [s for s in strip_docstring(dec.body) if not isinstance(s, ast.Import)]
    var = dec.args.args[0].arg
    if len(body) != 3:
        fail(dec, "decode_data: expected if / assignment / return")
    iff, asg, ret = body
    # if len(v) % 4: v += "=" * (4 - len(v) % 4)
    ok = (isinstance(iff, ast.If) and not iff.orelse and len(iff.body) == 1
          and isinstance(iff.test, ast.BinOp) and isinstance(iff.test.op, ast.Mod))
    if not ok:
        fail(iff, "decode_data: unexpected padding test")
    def is_len(e):
        return (isinstance(e, ast.Call) and isinstance(e.func, ast.Name) and e.func.id == "len"
                and len(e.args) == 1 and isinstance(e.args[0], ast.Name) and e.args[0].id == var)
    if not is_len(iff.test.left):
        fail(iff.test, "decode_data: padding test is not len(arg) % m")
    mod = const_int(iff.test.right)
    aug = iff.body[0]
    ok = (isinstance(aug, ast.AugAssign) and isinstance(aug.op, ast.Add) and isinstance(aug.target, ast.Name)
          and aug.target.id == var and isinstance(aug.value, ast.BinOp) and isinstance(aug.value.op, ast.Mult))
    if not ok:
        fail(aug, "decode_data: unexpected padding statement")
    padch = const_str(aug.value.left)
    cnt = aug.value.right
    ok = (isinstance(cnt, ast.BinOp) and isinstance(cnt.op, ast.Sub) and const_int(cnt.left) == mod
          and isinstance(cnt.right, ast.BinOp) and isinstance(cnt.right.op, ast.Mod)
          and is_len(cnt.right.left) and const_int(cnt.right.right) == mod)
    if not ok or len(padch) != 1:
        fail(cnt, "decode_data: padding count is not m - len(arg) % m")
    if not (isinstance(asg, ast.Assign) and len(asg.targets) == 1 and isinstance(asg.targets[0], ast.Name)
            and asg.targets[0].id == var):
        fail(asg, "decode_data: expected reassignment of the argument")
    inner, chain = _call_chain(asg.value)
    if not (isinstance(inner, ast.Name) and inner.id == var):
        fail(asg.value, "decode_data: replacement chain not on the argument")
    dec_chain = _repl_chain(chain)
    if not isinstance(ret, ast.Return):
        fail(ret, "decode_data: expected return")
    dec_pipeline = _nest(ret.value, var)

    out = [HEADER, "From Coq Require Import List NArith String.", "Import ListNotations.", "Open Scope string_scope.", ""]
    out.append(f"Definition gen_enc_chain : list (N * option N) := {_coq_chain(enc_chain)}.")
    out.append(f"Definition gen_dec_chain : list (N * option N) := {_coq_chain(dec_chain)}.")
    out.append(f"Definition gen_pad_char : N := {ord(padch)}%N.")
    out.append(f"Definition gen_pad_mod : N := {mod}%N.")
    out.append(f"Definition gen_enc_pipeline : list string := {coq_list([coq_str(s) for s in enc_pipeline])}.")
    out.append(f"Definition gen_dec_pipeline : list string := {coq_list([coq_str(s) for s in dec_pipeline])}.")
    return "\n".join(out) + "\n"
