"""utils.py operator / comparison tables and folding lambdas  ->  coq/gen/GenOps.v"""
import ast
from .common import *

BINOPS = {ast.Add: "PAdd", ast.Sub: "PSub", ast.Mult: "PMul", ast.Div: "PDiv", ast.Mod: "PMod", ast.Pow: "PPow",
          ast.BitAnd: "PBitAnd", ast.BitOr: "PBitOr", ast.BitXor: "PBitXor", ast.LShift: "PShl", ast.RShift: "PShr"}
CMPS = {ast.Eq: "Ceq", ast.NotEq: "Cne", ast.Lt: "Clt", ast.LtE: "Cle", ast.Gt: "Cgt", ast.GtE: "Cge"}


N_IS_IDENTITY_ON_NUMBERS = [False]
N_SOURCE = ("def _n(value):\n    if isinstance(value, str) and value.startswith('HASH(\"'):\n        return _e(value)\n    return value")


def _dict_of_return(fn):
    """function whose (last) statement is `return {...}[op]` or `return {...}.get(op, default)`"""
    ret = fn.body[-1]
    if not isinstance(ret, ast.Return):
        fail(fn, "last statement is not a return")
    v = ret.value
    if isinstance(v, ast.Subscript) and isinstance(v.value, ast.Dict):
        return v.value
    if isinstance(v, ast.Call) and isinstance(v.func, ast.Attribute) and v.func.attr == "get" and isinstance(v.func.value, ast.Dict):
        return v.func.value
    fail(ret, "unsupported table shape")


def pexpr(e, params):
    if isinstance(e, ast.Name):
        if e.id in params:
            return ["PX", "PY"][params.index(e.id)]
        fail(e, "free variable in folding lambda")
    if isinstance(e, ast.Call) and isinstance(e.func, ast.Name) and len(e.args) == 1 and not e.keywords:
        if e.func.id == "_e":
            return f"(PE {pexpr(e.args[0], params)})"
        if e.func.id == "_n" and N_IS_IDENTITY_ON_NUMBERS[0]:
            # _n: HASH("..") text -> its number, everything else unchanged: the identity on the numeric
            # operands the model ranges over (the definition is compared with N_SOURCE below)
            return pexpr(e.args[0], params)
        if e.func.id == "int":
            return f"(PInt {pexpr(e.args[0], params)})"
        if e.func.id == "float":
            return f"(PFloat {pexpr(e.args[0], params)})"
        fail(e, "unsupported call in folding lambda")
    if isinstance(e, ast.UnaryOp):
        k = {ast.USub: "PNeg", ast.Invert: "PInv", ast.Not: "PNot"}.get(type(e.op))
        if k:
            return f"({k} {pexpr(e.operand, params)})"
    if isinstance(e, ast.BinOp) and type(e.op) in BINOPS:
        return f"(PBin {BINOPS[type(e.op)]} {pexpr(e.left, params)} {pexpr(e.right, params)})"
    if isinstance(e, ast.BoolOp) and len(e.values) == 2:
        k = "PAnd" if isinstance(e.op, ast.And) else "POr"
        return f"({k} {pexpr(e.values[0], params)} {pexpr(e.values[1], params)})"
    if isinstance(e, ast.Compare) and len(e.ops) == 1 and type(e.ops[0]) in CMPS:
        return f"(PCmp {CMPS[type(e.ops[0])]} {pexpr(e.left, params)} {pexpr(e.comparators[0], params)})"
    fail(e, "unsupported expression in folding lambda")


def translate(pkg) -> str:
    tree = parse_file(pkg / "utils.py")
    N_IS_IDENTITY_ON_NUMBERS[0] = False
    for n in tree.body:
        if isinstance(n, ast.FunctionDef) and n.name == "_n":
            if ast.unparse(n) != N_SOURCE:
                raise TranslateError("utils._n is not the function the model takes for the identity on numbers:\n" + ast.unparse(n))
            N_IS_IDENTITY_ON_NUMBERS[0] = True
    suf = _dict_of_return(find_def(tree, "get_comparison_suffix"))
    nsuf = _dict_of_return(find_def(tree, "get_negated_comparison_suffix"))
    suffix = {const_str(k): const_str(v) for k, v in zip(suf.keys, suf.values)}
    nsuffix = {const_str(k): const_str(v) for k, v in zip(nsuf.keys, nsuf.values)}

    def entries(fname):
        fn = find_def(tree, fname)
        # local helper  comp = lambda op: "s" + get_comparison_suffix(op)
        helpers = {}
        for st in fn.body[:-1]:
            if (isinstance(st, ast.Assign) and isinstance(st.value, ast.Lambda) and isinstance(st.targets[0], ast.Name)):
                b = st.value.body
                ok = (isinstance(b, ast.BinOp) and isinstance(b.op, ast.Add) and isinstance(b.left, ast.Constant)
                      and isinstance(b.right, ast.Call) and isinstance(b.right.func, ast.Name)
                      and b.right.func.id == "get_comparison_suffix")
                if not ok:
                    fail(st, "unsupported helper")
                helpers[st.targets[0].id] = const_str(b.left)
            elif isinstance(st, ast.Expr) and isinstance(st.value, ast.Constant):
                continue
            else:
                fail(st, "unsupported statement in operator table function")
        d = _dict_of_return(fn)
        out = []
        for k, v in zip(d.keys, d.values):
            if not (isinstance(v, ast.Tuple) and len(v.elts) == 2 and isinstance(v.elts[1], ast.Lambda)):
                fail(v, "table entry is not (opcode, lambda)")
            o, lam = v.elts
            if isinstance(o, ast.Constant):
                opcode = const_str(o)
            elif isinstance(o, ast.Call) and isinstance(o.func, ast.Name) and o.func.id in helpers and len(o.args) == 1:
                opcode = helpers[o.func.id] + suffix[const_str(o.args[0])]
            else:
                fail(o, "unsupported opcode expression")
            params = [a.arg for a in lam.args.args]
            out.append((const_str(k), opcode, pexpr(lam.body, params)))
        return out
    un = entries("get_unop_instruction")
    bi = entries("get_binop_instruction")
    # sets / constants
    maths, branchv = None, None
    for n in tree.body:
        if isinstance(n, ast.Assign) and isinstance(n.targets[0], ast.Name):
            if n.targets[0].id == "_math_functions" and isinstance(n.value, ast.Set):
                maths = [const_str(e) for e in n.value.elts]
            if n.targets[0].id == "_branch_variant" and isinstance(n.value, ast.Dict):
                branchv = [(const_str(k), const_str(v)) for k, v in zip(n.value.keys, n.value.values)]
    if maths is None or branchv is None:
        raise TranslateError("_math_functions / _branch_variant not found")
    g = parse_file(pkg / "generate_code.py")
    consts = {}
    for n in ast.walk(g):
        if isinstance(n, ast.Assign) and len(n.targets) == 1 and isinstance(n.targets[0], ast.Name) \
                and n.targets[0].id in ("_RETURN_VALUE_ADDRESS", "JUMP_TABLE_LIMIT"):
            consts[n.targets[0].id] = const_int(n.value)
    if set(consts) != {"_RETURN_VALUE_ADDRESS", "JUMP_TABLE_LIMIT"}:
        raise TranslateError("generate_code constants not found")
    out = [HEADER, "From Coq Require Import List ZArith String.", "From PV Require Import IC10.Values Model.Fold.",
           "Import ListNotations.", "Local Open Scope string_scope.", ""]
    out.append("Definition gen_cmp_suffix : list (string * string) := ["
               + "; ".join(f"({coq_str(k)}, {coq_str(v)})" for k, v in suffix.items()) + "].")
    out.append("Definition gen_neg_cmp_suffix : list (string * string) := ["
               + "; ".join(f"({coq_str(k)}, {coq_str(v)})" for k, v in nsuffix.items()) + "].")
    out.append("Definition gen_unops : list (string * string * pexpr) := [\n  "
               + ";\n  ".join(f"({coq_str(a)}, {coq_str(b)}, {c})" for a, b, c in un) + "].")
    out.append("Definition gen_binops : list (string * string * pexpr) := [\n  "
               + ";\n  ".join(f"({coq_str(a)}, {coq_str(b)}, {c})" for a, b, c in bi) + "].")
    out.append("Definition gen_math_functions : list string := [" + "; ".join(coq_str(m) for m in sorted(maths)) + "].")
    out.append("Definition gen_branch_variant : list (string * string) := ["
               + "; ".join(f"({coq_str(a)}, {coq_str(b)})" for a, b in branchv) + "].")
    out.append(f"Definition gen_return_value_address : Z := {consts['_RETURN_VALUE_ADDRESS']}%Z.")
    out.append(f"Definition gen_jump_table_limit : Z := {consts['JUMP_TABLE_LIMIT']}%Z.")
    return "\n".join(out) + "\n"
