"""Inventory of process-wide mutable state in the package -> coq/gen/GenGlobals.v:
module-level bindings that are rebound through `global` statements or are mutable containers,
and attribute writes through module objects."""
import ast
from .common import *

FILES = ["compiler.py", "compile_pass.py", "generate_code.py", "register_assignment.py", "utils.py", "types.py",
         "mod_daemon.py", "symbols.py", "intrinsics.py", "builtins.py", "parse_lua.py", "__init__.py"]


def translate(pkg) -> str:
    rows = []
    for fname in FILES:
        path = pkg / fname
        if not path.exists():
            continue
        tree = parse_file(path)
        mod = fname[:-3]
        top = {}
        for n in tree.body:
            targets = []
            if isinstance(n, ast.Assign):
                targets = [t for t in n.targets if isinstance(t, ast.Name)]
                val = n.value
            elif isinstance(n, ast.AnnAssign) and isinstance(n.target, ast.Name) and n.value is not None:
                targets, val = [n.target], n.value
            for t in targets:
                kind = None
                if isinstance(val, (ast.Dict, ast.List, ast.Set)) or (isinstance(val, ast.Call) and isinstance(val.func, ast.Name) and val.func.id in ("dict", "list", "set")):
                    kind = "container"
                top[t.id] = kind
        # names rebound via `global`
        rebound = set()
        for n in ast.walk(tree):
            if isinstance(n, ast.Global):
                rebound.update(n.names)
        mutated = set()
        MUT = {"add", "append", "update", "pop", "clear", "setdefault", "extend", "remove", "discard", "insert", "popitem"}
        for n in ast.walk(tree):
            if isinstance(n, ast.Call) and isinstance(n.func, ast.Attribute) and n.func.attr in MUT and isinstance(n.func.value, ast.Name):
                mutated.add(n.func.value.id)
            if isinstance(n, (ast.Assign, ast.AugAssign, ast.Delete)):
                ts = n.targets if isinstance(n, (ast.Assign, ast.Delete)) else [n.target]
                for t in ts:
                    if isinstance(t, ast.Subscript) and isinstance(t.value, ast.Name):
                        mutated.add(t.value.id)
        for name, kind in top.items():
            if name in rebound:
                rows.append((mod, name, "rebound"))
            elif kind == "container" and name not in ("__all__",):
                rows.append((mod, name, "container_mutated" if name in mutated else "container_const"))
        # writes through another module's attribute:  utils._x = ...
        for n in ast.walk(tree):
            if isinstance(n, (ast.Assign, ast.AugAssign)):
                ts = n.targets if isinstance(n, ast.Assign) else [n.target]
                for t in ts:
                    if isinstance(t, ast.Attribute) and isinstance(t.value, ast.Name) and t.value.id in ("utils", "types", "symbols", "sys"):
                        rows.append((mod, f"{t.value.id}.{t.attr}", "attribute_write"))
    out = [HEADER, "From Coq Require Import List String.", "Import ListNotations.", "Local Open Scope string_scope.", "",
           "Definition gen_globals : list (string * string * string) := ["]
    out.append(";\n".join(f"  ({coq_str(m)}, {coq_str(n)}, {coq_str(k)})" for m, n, k in sorted(set(rows))))
    out.append("].")
    return "\n".join(out) + "\n"
