"""utils.calc_hash / format_int / format_enum, types._apply_output_mode / compute_hash /
compute_string  ->  coq/gen/GenHash.v.  Each function must have exactly the modelled shape
(compared after replacing constants by placeholders); the constants are compared in Coq."""
import ast
import copy
from .common import *


class _Abstract(ast.NodeTransformer):
    def __init__(self):
        self.consts = []

    def visit_Import(self, node):
        return None

    def visit_ImportFrom(self, node):
        return None

    def visit_Constant(self, node):
        self.consts.append(node.value)
        return ast.copy_location(ast.Name(id=f"K{len(self.consts) - 1}", ctx=ast.Load()), node)

    def visit_JoinedStr(self, node):
        # f-string: keep its parts as one constant (template with {name} holes)
        parts = []
        for v in node.values:
            if isinstance(v, ast.Constant):
                parts.append(v.value)
            elif isinstance(v, ast.FormattedValue):
                spec = ""
                if v.format_spec is not None:
                    spec = ":" + "".join(x.value for x in v.format_spec.values if isinstance(x, ast.Constant))
                parts.append("{" + ast.unparse(v.value) + spec + "}")
            else:
                fail(v, "unsupported f-string part")
        self.consts.append("".join(parts))
        return ast.copy_location(ast.Name(id=f"K{len(self.consts) - 1}", ctx=ast.Load()), node)


def shape_of(fn):
    body = [s for s in strip_docstring(fn.body) if not isinstance(s, (ast.Import, ast.ImportFrom))]
    m = ast.Module(body=copy.deepcopy(body), type_ignores=[])
    a = _Abstract()
    m = a.visit(m)
    ast.fix_missing_locations(m)
    return ast.unparse(m), a.consts


SHAPES = {
    "calc_hash": "val = zlib.crc32(name.encode())\nval = (val ^ K0) - K1\nreturn val",
    "format_int": ("if not _all_hashes:\n    for name in dir(symbols):\n        val = getattr(symbols, name)\n"
                   "        if hasattr(val, K0):\n            h = val._hash\n            if isinstance(h, int):\n"
                   "                _all_hashes.add(h)\nif value <= K1 or value in _all_hashes:\n    return str(value)\nreturn K2"),
    "format_enum": ("if _output_mode == OutputMode.VERBOSE:\n    if isinstance(enum_val, (LogicType, LogicBatchMethod, LogicSlotType)):\n"
                    "        return enum_val.name\n    return enum_val.__class__.__name__ + K0 + enum_val.name\nelse:\n    return enum_val.value"),
    "_apply_output_mode": ("if output_mode is K0:\n    output_mode = utils._output_mode\nif output_mode == OutputMode.VERBOSE:\n    return string_value\n"
                           "if output_mode == OutputMode.NUMERIC:\n    return num_value\n"
                           "return num_value if len(str(num_value)) < len(string_value) else string_value"),
    "compute_string": "val = K0\nfor char in s:\n    val = val << K1 | ord(char)\nreturn _apply_output_mode(val, K2, output_mode)",
    "compute_hash": ("if not isinstance(name, str):\n    return name\nif name.startswith(K0):\n    return name\nif name == K1:\n    raise ValueError(K2)\n"
                     "if name[K3] == K4 and name[-K5] == K6:\n    name = name[K7:-K8]\nif name.startswith(K9) and name.endswith(K10):\n    name = name[K11:-K12]\n"
                     "hash_str = K13\nval = calc_hash(name)\nreturn _apply_output_mode(val, hash_str, output_mode)"),
}


def cval(v):
    if v is None:
        return "CNone"
    if isinstance(v, bool):
        raise TranslateError("unexpected bool constant")
    if isinstance(v, int):
        return f"(CInt ({v}))"
    if isinstance(v, str):
        return f"(CStr {coq_str(v)})"
    raise TranslateError(f"unsupported constant {v!r}")


def translate(pkg) -> str:
    ut = parse_file(pkg / "utils.py")
    ty = parse_file(pkg / "types.py")
    out = [HEADER, "From Coq Require Import List ZArith String.", "Import ListNotations.", "Local Open Scope string_scope.", "",
           "Inductive gconst := CNone | CInt (z : Z) | CStr (s : string)."]
    for name, tree in [("calc_hash", ut), ("format_int", ut), ("format_enum", ut), ("_apply_output_mode", ty),
                       ("compute_string", ty), ("compute_hash", ty)]:
        fn = find_def(tree, name)
        shape, consts = shape_of(fn)
        if shape != SHAPES[name]:
            raise TranslateError(f"{name} has an unexpected shape:\n{shape}")
        out.append(f"Definition gen_{name.strip('_')}_consts : list gconst := [" + "; ".join(cval(c) for c in consts) + "].")
    # enum numbering of OutputMode
    for n in ut.body:
        if isinstance(n, ast.ClassDef) and n.name == "OutputMode":
            ms = [(s.targets[0].id, const_int(s.value)) for s in n.body if isinstance(s, ast.Assign)]
            out.append("Definition gen_output_modes : list (string * Z) := [" + "; ".join(f"({coq_str(a)}, {b}%Z)" for a, b in ms) + "].")
    return "\n".join(out) + "\n"
