"""Fail-closed translator for the test handling of `if` (generate_code.py handle_if, utils.py
try_replace_call_with_branch):

  * the two blocks that decide, for a constant test, which of the two branches is kept
    (assignments to emit_if / emit_else under conditions on the constant and on negate_test), as Coq
    functions over booleans;
  * the opcode chosen for the compare-and-branch on a non-constant comparison
    (get_comparison_suffix if negate_test else get_negated_comparison_suffix);
  * the opcode chosen for bnez / beqz on a plain value;
  * the opcode chosen when the call of a device test (sdse / sdns) becomes a branch.

  -> coq/gen/GenIfTest.v
"""
import ast

from .common import TranslateError, coq_str, find_def, parse_file, fail

FLAGS = ("emit_if", "emit_else")


def bexpr(e, value_names):
    """boolean expression over  V (truth value of the constant)  and  N (negate_test)"""
    if isinstance(e, ast.Constant) and isinstance(e.value, bool):
        return "true" if e.value else "false"
    if isinstance(e, ast.Name) and e.id == "negate_test":
        return "N"
    if isinstance(e, ast.Name) and e.id in FLAGS:
        return {"emit_if": "EI", "emit_else": "EE"}[e.id]
    if isinstance(e, ast.Attribute) and ast.unparse(e) in value_names:
        return "V"                      # used as a truth value
    if isinstance(e, ast.Call) and isinstance(e.func, ast.Name) and e.func.id == "bool" and len(e.args) == 1 and not e.keywords:
        return bexpr(e.args[0], value_names)
    if isinstance(e, ast.UnaryOp) and isinstance(e.op, ast.Not):
        return f"(negb {bexpr(e.operand, value_names)})"
    if isinstance(e, ast.BoolOp):
        op = "andb" if isinstance(e.op, ast.And) else "orb"
        out = bexpr(e.values[0], value_names)
        for v in e.values[1:]:
            out = f"({op} {out} {bexpr(v, value_names)})"
        return out
    if isinstance(e, ast.Compare) and len(e.ops) == 1 and isinstance(e.ops[0], (ast.Eq, ast.NotEq, ast.Is, ast.IsNot)):
        # both sides must be genuine booleans (bool(..), negate_test, constants): == on a raw value is not a truth test
        for side in (e.left, e.comparators[0]):
            if isinstance(side, ast.Attribute):
                fail(e, "comparison of the raw constant (not its truth value)")
        a, b = bexpr(e.left, value_names), bexpr(e.comparators[0], value_names)
        eq = f"(Bool.eqb {a} {b})"
        return eq if isinstance(e.ops[0], (ast.Eq, ast.Is)) else f"(negb {eq})"
    if isinstance(e, ast.IfExp):
        return f"(if {bexpr(e.test, value_names)} then {bexpr(e.body, value_names)} else {bexpr(e.orelse, value_names)})"
    fail(e, "unsupported boolean expression in the constant-test block")


def block(stmts, value_names, k):
    """statements -> Coq term of type bool * bool given current (EI, EE); k = continuation text"""
    if not stmts:
        return k
    st, rest = stmts[0], stmts[1:]
    if isinstance(st, ast.Assign) and len(st.targets) == 1 and isinstance(st.targets[0], ast.Name) and st.targets[0].id in FLAGS:
        var = {"emit_if": "EI", "emit_else": "EE"}[st.targets[0].id]
        return f"(let {var} := {bexpr(st.value, value_names)} in {block(rest, value_names, k)})"
    if isinstance(st, ast.If):
        # both arms continue with the rest (no early exit in this fragment)
        a = block(st.body + rest, value_names, k)
        b = block(st.orelse + rest, value_names, k)
        return f"(if {bexpr(st.test, value_names)} then {a} else {b})"
    if isinstance(st, ast.Pass):
        return block(rest, value_names, k)
    fail(st, "unsupported statement in the constant-test block")


def translate(pkg):
    g = parse_file(pkg / "generate_code.py")
    fn = find_def(g, "handle_if", cls="CompilerPassGenerateCode")
    # the if / elif chain on the kind of test
    chain = None
    for st in fn.body:
        if isinstance(st, ast.If) and "is_constant" in ast.unparse(st.test):
            chain = st
    if chain is None:
        raise TranslateError("handle_if: the chain starting with the constant test was not found")
    arms = []
    cur = chain
    while True:
        arms.append((cur.test, cur.body))
        if len(cur.orelse) == 1 and isinstance(cur.orelse[0], ast.If):
            cur = cur.orelse[0]
        else:
            arms.append((None, cur.orelse))
            break
    const_arm = folded_const_arm = compare_arm = value_arm = call_arm = None
    for test, body in arms:
        t = ast.unparse(test) if test is not None else ""
        if t == "test_data.is_constant":
            const_arm = body
        elif t == "isinstance(test_node, nodes.Const)":
            folded_const_arm = body
        elif t == "isinstance(test_node, nodes.Compare)":
            compare_arm = body
        elif t.startswith("isinstance(test_node, (nodes.BoolOp"):
            value_arm = body
        elif "try_replace_call_with_branch" in t:
            call_arm = test
    if None in (const_arm, folded_const_arm, compare_arm, value_arm, call_arm):
        raise TranslateError("handle_if: an arm of the test chain was not recognised")
    c1 = block(const_arm, {"test_data.constant_value"}, "(EI, EE)")
    c2 = block(folded_const_arm, {"test_node.value"}, "(EI, EE)")
    # negation must come from exactly: UnaryOp 'not' stripped once
    src = ast.unparse(fn)
    if src.count("negate_test = True") != 1 or src.count("negate_test = False") != 1:
        raise TranslateError("handle_if: negate_test is set in an unexpected way")
    # compare arm: "b" + (get_comparison_suffix(cmp_op) if negate_test else get_negated_comparison_suffix(cmp_op))
    cmp_choice = None
    for n in ast.walk(ast.Module(body=compare_arm, type_ignores=[])):
        if isinstance(n, ast.IfExp) and isinstance(n.test, ast.Name) and n.test.id == "negate_test":
            a, b = ast.unparse(n.body), ast.unparse(n.orelse)
            cmp_choice = (a, b)
    if cmp_choice is None:
        raise TranslateError("handle_if: choice of the comparison suffix not found")
    known = {"get_comparison_suffix(cmp_op)": "false", "get_negated_comparison_suffix(cmp_op)": "true"}
    if cmp_choice[0] not in known or cmp_choice[1] not in known:
        raise TranslateError("handle_if: unexpected suffix functions " + repr(cmp_choice))
    # value arm: IC10("bnez" if negate_test else "beqz", [test, else_label])
    val_choice = None
    for n in ast.walk(ast.Module(body=value_arm, type_ignores=[])):
        if isinstance(n, ast.IfExp) and isinstance(n.test, ast.Name) and n.test.id == "negate_test" \
                and isinstance(n.body, ast.Constant) and isinstance(n.orelse, ast.Constant):
            val_choice = (n.body.value, n.orelse.value)
    if val_choice is None:
        raise TranslateError("handle_if: choice of bnez / beqz not found")
    # call arm: try_replace_call_with_branch(test_node, else_label, negate_test)
    call = None
    for n in ast.walk(call_arm):
        if isinstance(n, ast.Call) and isinstance(n.func, ast.Name) and n.func.id == "try_replace_call_with_branch":
            call = n
    passes_negate = call is not None and len(call.args) == 3 and isinstance(call.args[2], ast.Name) and call.args[2].id == "negate_test"
    u = parse_file(pkg / "utils.py")
    tr = find_def(u, "try_replace_call_with_branch")
    params = [a.arg for a in tr.args.args]
    if len(params) not in (2, 3):
        raise TranslateError("try_replace_call_with_branch: unexpected parameters")
    neg_param = params[2] if len(params) == 3 else None
    if passes_negate != (neg_param is not None):
        raise TranslateError("handle_if and try_replace_call_with_branch disagree about the negate argument")
    assign = None
    for n in ast.walk(tr):
        if isinstance(n, ast.Assign) and ast.unparse(n.targets[0]) == "instr.op":
            if assign is not None:
                raise TranslateError("try_replace_call_with_branch: instr.op assigned twice")
            assign = n.value
    if assign is None:
        raise TranslateError("try_replace_call_with_branch: assignment of instr.op not found")

    def opexpr(e):
        if isinstance(e, ast.Subscript) and ast.unparse(e) == "_branch_variant[fname]":
            return "(variant F)"
        if isinstance(e, ast.BinOp) and isinstance(e.op, ast.Add) and isinstance(e.left, ast.Constant) and isinstance(e.left.value, str) \
                and ast.unparse(e.right) == "fname[1:]":
            return f"(String.append {coq_str(e.left.value)} (drop1 F))"
        if isinstance(e, ast.IfExp) and isinstance(e.test, ast.Name) and e.test.id == neg_param:
            return f"(if N then {opexpr(e.body)} else {opexpr(e.orelse)})"
        fail(e, "unsupported opcode expression in try_replace_call_with_branch")
    branch_op = opexpr(assign)
    table = None
    for n in u.body:
        if isinstance(n, ast.Assign) and isinstance(n.targets[0], ast.Name) and n.targets[0].id == "_branch_variant" and isinstance(n.value, ast.Dict):
            table = [(k.value, v.value) for k, v in zip(n.value.keys, n.value.values)]
    if table is None:
        raise TranslateError("_branch_variant not found")
    lines = ["(* generated by tools/pyt2coq/iftest.py from generate_code.py handle_if and utils.py try_replace_call_with_branch *)",
             "From Coq Require Import String List Bool.", "Import ListNotations.", "Local Open Scope string_scope.",
             "(* V: truth value of the constant test, N: the test stands under 'not', EI / EE: bodies present *)",
             f"Definition gen_const_test (V N EI EE : bool) : bool * bool := {c1}.",
             f"Definition gen_literal_test (V N EI EE : bool) : bool * bool := {c2}.",
             "(* true: the suffix of the negated relation is used (the branch leaves when the relation fails) *)",
             f"Definition gen_compare_uses_negated_suffix (N : bool) : bool := if N then {known[cmp_choice[0]]} else {known[cmp_choice[1]]}.",
             f"Definition gen_value_branch (N : bool) : string := if N then {coq_str(val_choice[0])} else {coq_str(val_choice[1])}.",
             "Definition gen_branch_variant_table : list (string * string) := ["
             + "; ".join(f"({coq_str(a)}, {coq_str(b)})" for a, b in table) + "].",
             "Definition variant (f : string) : string := match find (fun kv => String.eqb (fst kv) f) gen_branch_variant_table with Some kv => snd kv | None => \"\" end.",
             "Definition drop1 (f : string) : string := match f with String _ r => r | EmptyString => EmptyString end.",
             f"Definition gen_device_test_branch (F : string) (N : bool) : string := {branch_op}.",
             f"Definition gen_negate_is_passed : bool := {'true' if passes_negate else 'false'}."]
    return "\n".join(lines) + "\n"
