"""Inventory of every instruction-emission site (calls of IC10 / IC10Instruction / _IC10 with
a literal opcode) in the compiler sources -> coq/gen/GenSites.v.
Dynamic opcodes (variables, f-strings that are not label definitions) are listed separately."""
import ast
from .common import *

FILES = ["generate_code.py", "types.py", "compile_pass.py", "utils.py", "register_assignment.py"]
CALLEES = {"IC10", "IC10Instruction", "_IC10"}


def translate(pkg) -> str:
    sites, dyn = [], []
    for fname in FILES:
        tree = parse_file(pkg / fname)
        for n in ast.walk(tree):
            if not (isinstance(n, ast.Call) and isinstance(n.func, ast.Name) and n.func.id in CALLEES):
                continue
            if not n.args:
                fail(n, "emission site without opcode")
            op = n.args[0]
            kw = {k.arg: k.value for k in n.keywords}
            ins = n.args[1] if len(n.args) > 1 else kw.get("inputs")
            outp = n.args[2] if len(n.args) > 2 else kw.get("output")
            nin = len(ins.elts) if isinstance(ins, ast.List) else (0 if ins is None else -1)
            has_out = 0 if (outp is None or (isinstance(outp, ast.Constant) and outp.value is None)) else 1
            where = f"{fname}:{n.lineno}"
            if isinstance(op, ast.Constant) and isinstance(op.value, str):
                sites.append((where, op.value, nin, has_out))
            elif (isinstance(op, ast.IfExp) and isinstance(op.body, ast.Constant) and isinstance(op.orelse, ast.Constant)
                  and isinstance(op.body.value, str) and isinstance(op.orelse.value, str)):
                sites.append((where, op.body.value, nin, has_out))
                sites.append((where, op.orelse.value, nin, has_out))
            elif isinstance(op, ast.JoinedStr):
                last = op.values[-1]
                if isinstance(last, ast.Constant) and str(last.value).endswith(":"):
                    sites.append((where, "<label>:", 0, 0))
                else:
                    dyn.append((where, ast.unparse(op)))
            else:
                dyn.append((where, ast.unparse(op)))
    out = [HEADER, "From Coq Require Import List ZArith String.", "Import ListNotations.", "Local Open Scope string_scope.", "",
           "(* (where, opcode, number of listed inputs or -1 if not a literal list, 1 if an output is given) *)",
           "Definition gen_sites : list (string * string * Z * Z) := ["]
    out.append(";\n".join(f"  ({coq_str(w)}, {coq_str(o)}, ({n})%Z, {h}%Z)" for w, o, n, h in sites))
    out.append("].")
    out.append("Definition gen_dynamic_sites : list (string * string) := ["
               + "; ".join(f"({coq_str(w)}, {coq_str(e)})" for w, e in dyn) + "].")
    return "\n".join(out) + "\n"
