"""types_generated.py (enums), structures_generated.py (structure classes), intrinsics.py
(wrappers), webapp/src/ic10.json  ->  coq/gen/GenEnums.v GenStructs.v GenIntrinsics.v
Fail-closed: any class member the translator does not recognise is an error."""
import ast
import json
from .common import *

BATCH = ("Average", "Minimum", "Maximum", "Sum")


# ------------------------------------------------------------------------------ enums
def read_enums(pkg):
    tree = parse_file(pkg / "types_generated.py")
    enums = []
    for n in tree.body:
        if isinstance(n, ast.ClassDef) and any(
                (isinstance(b, ast.Name) and b.id in ("_IntEnum", "IntEnum")) for b in n.bases):
            members = []
            for s in n.body:
                if isinstance(s, ast.Assign) and len(s.targets) == 1 and isinstance(s.targets[0], ast.Name):
                    members.append((s.targets[0].id, const_int(s.value)))
                elif isinstance(s, ast.Expr) and isinstance(s.value, ast.Constant):
                    continue  # docstring
                elif isinstance(s, ast.Pass):
                    continue
                else:
                    fail(s, f"enum {n.name}: unsupported member")
            enums.append((n.name, members))
    if not enums:
        raise TranslateError("no enums found")
    return enums


def enums_v(enums):
    out = [HEADER, "From Coq Require Import List ZArith String.", "Import ListNotations.",
           "Open Scope string_scope.", "Open Scope Z_scope.", ""]
    out.append("Definition gen_enums : list (string * list (string * Z)) := [")
    rows = []
    for name, members in enums:
        ms = "; ".join(f"({coq_str(m)}, {v if v >= 0 else '(' + str(v) + ')'})" for m, v in members)
        rows.append(f"  ({coq_str(name)}, [{ms}])")
    out.append(";\n".join(rows))
    out.append("].")
    return "\n".join(out) + "\n"


# ------------------------------------------------------------------------------ structures
def _ret(fn):
    body = strip_docstring(fn.body)
    if len(body) == 1 and isinstance(body[0], ast.Return):
        return body[0].value
    if len(body) == 1 and isinstance(body[0], ast.Pass):
        return None
    fail(fn, "property body is not a single return / pass")


def _prop(cls, fn):
    """Classify one method of a structure class -> (name, kind-term) or None (setter)."""
    decos = [ast.unparse(d) for d in fn.decorator_list]
    if any(d.endswith(".setter") for d in decos):
        if _ret(fn) is not None:
            fail(fn, "setter with a body")
        return None
    if fn.name == "__getitem__":
        v = _ret(fn)
        if (isinstance(v, ast.Call) and isinstance(v.func, ast.Name) and len(v.args) == 1
                and isinstance(v.args[0], ast.Name) and v.args[0].id == fn.args.args[1].arg and not v.keywords):
            return (fn.name, f"PGetItem {coq_str(v.func.id)}")
        fail(fn, "unsupported __getitem__")
    if decos != ["property"]:
        fail(fn, f"unsupported decorators {decos}")
    v = _ret(fn)
    if isinstance(v, ast.Call) and isinstance(v.func, ast.Name):
        f = v.func.id
        if f in ("_DeviceLogicType", "_DevicesLogicType") and len(v.args) == 2 and not v.keywords:
            a0, a1 = v.args
            if isinstance(a0, ast.Name) and a0.id == "self" and isinstance(a1, ast.Attribute) \
                    and isinstance(a1.value, ast.Name) and a1.value.id == "_LT":
                return (fn.name, f"PLogic {'true' if f == '_DevicesLogicType' else 'false'} {coq_str(a1.attr)}")
        if f in ("_DeviceSlotType", "_DevicesSlotType") and len(v.args) == 2 and not v.keywords:
            a0, a1 = v.args
            if isinstance(a0, ast.Name) and a0.id == "self" and isinstance(a1, ast.Attribute) \
                    and isinstance(a1.value, ast.Name) and a1.value.id == "_LST":
                return (fn.name, f"PSlotLogic {'true' if f == '_DevicesSlotType' else 'false'} {coq_str(a1.attr)}")
        if f.startswith("_SlotType") and len(v.args) == 2 and not v.keywords:
            a0, a1 = v.args
            if isinstance(a0, ast.Name) and a0.id == "self":
                return (fn.name, f"PSlot {coq_str(f)} {const_int(a1)}")
        if fn.name in BATCH and not v.args:
            kw = {k.arg: k.value for k in v.keywords}
            if set(kw) == {"name", "batch_mode"} and ast.unparse(kw["name"]) == "self._name" \
                    and isinstance(kw["batch_mode"], ast.Attribute) \
                    and ast.unparse(kw["batch_mode"].value) == "LogicBatchMethod":
                return (fn.name, f"PBatch {coq_str(f)} {coq_str(kw['batch_mode'].attr)}")
    if isinstance(v, ast.Attribute) and isinstance(v.value, ast.Name) and v.value.id == "self":
        return (fn.name, f"PAlias {coq_str(v.attr)}")
    fail(fn, "unsupported property")


def read_structs(pkg):
    tree = parse_file(pkg / "structures_generated.py")
    classes, singles = [], []
    for n in tree.body:
        if isinstance(n, ast.ImportFrom):
            continue
        if isinstance(n, ast.AnnAssign) and isinstance(n.target, ast.Name):
            v = n.value
            if isinstance(v, ast.Call) and isinstance(v.func, ast.Name) and not v.args and not v.keywords:
                singles.append((n.target.id, ast.unparse(n.annotation), v.func.id))
                continue
            fail(n, "unsupported module-level binding")
        if not isinstance(n, ast.ClassDef):
            fail(n, "unsupported module-level statement")
        row = {"name": n.name, "bases": [ast.unparse(b) for b in n.bases], "hash": None, "prefab": None,
               "props": []}
        for s in n.body:
            if isinstance(s, ast.AnnAssign) and isinstance(s.target, ast.Name):
                if s.target.id == "_hash":
                    row["hash"] = const_int(s.value)
                elif s.target.id == "_prefab_name":
                    row["prefab"] = const_str(s.value)
                else:
                    fail(s, "unsupported class attribute")
            elif isinstance(s, ast.FunctionDef):
                p = _prop(n, s)
                if p:
                    # a later definition of the same name replaces the earlier one (Python
                    # class-body semantics), e.g. the logic type `Maximum` of a PID controller
                    # shadows the batch method of the same name
                    row["props"] = [q for q in row["props"] if q[0] != p[0]]
                    row["props"].append(p)
            elif isinstance(s, ast.Pass) or (isinstance(s, ast.Expr) and isinstance(s.value, ast.Constant)):
                continue
            else:
                fail(s, "unsupported class member")
        classes.append(row)
    return classes, singles


def structs_v(classes, singles):
    out = [HEADER, "From Coq Require Import List ZArith String.", "From PV Require Import Model.Tables.",
           "Import ListNotations.", "Open Scope string_scope.", "Open Scope Z_scope.", ""]
    out.append("Definition gen_classes : list class_row := [")
    rows = []
    for c in classes:
        props = "; ".join(f"({coq_str(n)}, {k})" for n, k in c["props"])
        h = "None" if c["hash"] is None else f"Some ({c['hash']})"
        pf = "None" if c["prefab"] is None else f"Some {coq_str(c['prefab'])}"
        bases = "; ".join(coq_str(b) for b in c["bases"])
        rows.append(f"  {{| c_name := {coq_str(c['name'])}; c_bases := [{bases}]; c_hash := {h}; "
                    f"c_prefab := {pf};\n     c_props := [{props}] |}}")
    out.append(";\n".join(rows))
    out.append("].\n")
    out.append("Definition gen_singletons : list (string * string * string) := [")
    out.append(";\n".join(f"  ({coq_str(a)}, {coq_str(b)}, {coq_str(c)})" for a, b, c in singles))
    out.append("].")
    return "\n".join(out) + "\n"


# ------------------------------------------------------------------------------ intrinsics
def read_intrinsics(pkg):
    tree = parse_file(pkg / "intrinsics.py")
    rows, others = [], []
    for n in tree.body:
        if isinstance(n, (ast.ImportFrom, ast.Import)):
            continue
        if isinstance(n, ast.Expr) and isinstance(n.value, ast.Constant):
            continue
        if not isinstance(n, ast.FunctionDef):
            fail(n, "unsupported module-level statement in intrinsics.py")
        body = strip_docstring(n.body)
        body = [s for s in body if not isinstance(s, ast.ImportFrom)]
        if len(body) != 1 or not isinstance(body[0], ast.Return):
            fail(n, "intrinsic body is not a single return")
        c = body[0].value
        if isinstance(c, ast.Call) and isinstance(c.func, ast.Name) and c.func.id == "_IC10":
            if len(c.args) != 3 or c.keywords or not isinstance(c.args[1], ast.List):
                fail(c, "unsupported _IC10 call")
            op = const_str(c.args[0])
            ins = []
            for e in c.args[1].elts:
                if not isinstance(e, ast.Name):
                    fail(e, "intrinsic operand is not a parameter name")
                ins.append(e.id)
            o = c.args[2]
            if isinstance(o, ast.Constant) and o.value is None:
                out = False
            elif isinstance(o, ast.Call) and isinstance(o.func, ast.Name) and o.func.id == "_Register":
                out = True
            else:
                fail(o, "unsupported output")
            a = n.args
            if a.vararg or a.kwarg or a.kwonlyargs or a.posonlyargs or a.defaults:
                fail(n, "unsupported parameter list")
            rows.append((n.name, op, [p.arg for p in a.args], ins, out))
        else:
            others.append((n.name, ast.unparse(c)))
    return rows, others


def intrinsics_v(rows, others, instrs, keywords):
    out = [HEADER, "From Coq Require Import List String Bool.", "From PV Require Import Model.Tables.",
           "Import ListNotations.", "Open Scope string_scope.", ""]
    out.append("Definition gen_intrinsics : list intrinsic_row := [")
    out.append(";\n".join(
        f"  {{| i_name := {coq_str(n)}; i_op := {coq_str(op)}; i_params := [{'; '.join(coq_str(p) for p in ps)}]; "
        f"i_inputs := [{'; '.join(coq_str(p) for p in ins)}]; i_out := {'true' if o else 'false'} |}}"
        for n, op, ps, ins, o in rows))
    out.append("].\n")
    out.append("Definition gen_other_intrinsics : list (string * string) := ["
               + "; ".join(f"({coq_str(a)}, {coq_str(b)})" for a, b in others) + "].\n")
    out.append("Definition gen_ic10_instructions : list string := ["
               + "; ".join(coq_str(i) for i in instrs) + "].\n")
    return "\n".join(out) + "\n"


def read_ic10_json(repo):
    d = json.loads((repo / "webapp" / "src" / "ic10.json").read_text())
    if not isinstance(d, dict) or "instructions" not in d:
        raise TranslateError("ic10.json: no 'instructions'")
    return list(d["instructions"]), list(d.get("keywords", []))
