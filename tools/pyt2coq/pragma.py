"""compile_pass.CompileOptions fields and the directive scanner of compiler.compile_code
   -> coq/gen/GenOptions.v, GenPragma.v"""
import ast
from .common import *


def read_options(pkg):
    tree = parse_file(pkg / "compile_pass.py")
    for n in tree.body:
        if isinstance(n, ast.ClassDef) and n.name == "CompileOptions":
            if [ast.unparse(d) for d in n.decorator_list] != ["dataclass"]:
                fail(n, "CompileOptions is not a plain @dataclass")
            fields = []
            for s in n.body:
                if isinstance(s, ast.AnnAssign) and isinstance(s.target, ast.Name) and ast.unparse(s.annotation) == "bool" \
                        and isinstance(s.value, ast.Constant) and isinstance(s.value.value, bool):
                    fields.append((s.target.id, s.value.value))
                elif isinstance(s, ast.Expr) and isinstance(s.value, ast.Constant):
                    continue
                else:
                    fail(s, "unsupported member of CompileOptions")
            return fields
    raise TranslateError("CompileOptions not found")


class _Abstract(ast.NodeTransformer):
    """Replace every constant by a placeholder, collecting the constants in order."""
    def __init__(self):
        self.consts = []

    def visit_Constant(self, node):
        self.consts.append(node.value)
        return ast.copy_location(ast.Name(id=f"K{len(self.consts) - 1}", ctx=ast.Load()), node)


# shape of the scanner (constants abstracted); the literals are compared in Coq
SKELETON = None  # filled below


def scanner_block(pkg):
    tree = parse_file(pkg / "compiler.py")
    fn = find_def(tree, "compile_code")
    blocks = [s for s in fn.body if isinstance(s, ast.If) and "pytrapic" in ast.unparse(s.test)]
    if len(blocks) != 1:
        raise TranslateError("compile_code: expected exactly one directive-scanning block")
    return fn, blocks[0]


def abstract_block(block):
    import copy
    a = _Abstract()
    b = a.visit(copy.deepcopy(block))
    ast.fix_missing_locations(b)
    return ast.unparse(b), a.consts


EXPECTED_SHAPE = '''if K0 in main_module:
    import copy
    options = copy.copy(options)
    for line in main_module.splitlines():
        if K1 not in line:
            continue
        line = line.strip()
        if not line.startswith(K2):
            continue
        tokens = line.split(K3, K4)
        if len(tokens) < K5:
            continue
        tokens = tokens[K6].split(K7, K8)
        if len(tokens) < K9:
            continue
        tokens = tokens[K10].strip().split(K11)
        for tag in tokens:
            tag = tag.strip().replace(K12, K13)
            value = not tag.startswith(K14)
            if not value:
                tag = tag[K15:].strip()
            if ATTRTEST:
                setattr(options, tag, value)'''

ATTR_TESTS = {
    "hasattr(options, tag)": "AttrHasattr",
    "tag in options.__dataclass_fields__": "AttrIsField",
    "tag in {f.name for f in dataclasses.fields(options)}": "AttrIsField",
    "tag in [f.name for f in dataclasses.fields(options)]": "AttrIsField",
}


def translate(pkg):
    fields = read_options(pkg)
    fn, block = scanner_block(pkg)
    shape, consts = abstract_block(block)
    attr = None
    for src, kind in ATTR_TESTS.items():
        if shape == EXPECTED_SHAPE.replace("ATTRTEST", src):
            attr = kind
    if attr is None:
        raise TranslateError("directive scanner has an unexpected shape:\n" + shape)
    # what happens around the block: options may be copied before, must be used after
    pre = [ast.unparse(s) for s in fn.body[:fn.body.index(block)]]
    post = [ast.unparse(s) for s in fn.body[fn.body.index(block) + 1:]]
    copies = any(("copy" in p or "replace(" in p) and p.startswith("options =") for p in pre)

    def cstr(v):
        if isinstance(v, str):
            return "S " + "[" + "; ".join(str(ord(c)) for c in v) + "]%N"
        if isinstance(v, int):
            return f"I {v}%Z"
        raise TranslateError(f"unsupported constant {v!r}")
    out = [HEADER, "From Coq Require Import List NArith ZArith String.", "From PV Require Import Model.Pragma.",
           "Import ListNotations.", ""]
    out.append("Inductive gconst := S (s : list N) | I (z : Z).")
    out.append("Inductive attr_test := AttrHasattr | AttrIsField.")
    out.append("Definition gen_scanner_consts : list gconst := [" + "; ".join(cstr(c) for c in consts) + "].")
    out.append(f"Definition gen_attr_test : attr_test := {attr}.")
    out.append(f"Definition gen_options_copied_before_scan : bool := {'true' if copies else 'false'}.")
    out.append("Definition gen_option_fields : list (list N * bool) := ["
               + "; ".join("([" + "; ".join(str(ord(c)) for c in n) + "]%N, " + ("true" if d else "false") + ")" for n, d in fields) + "].")
    out.append("Definition gen_after_scan : list string := [" + "; ".join(coq_str(p.replace("\n", " ")) for p in post) + "]%string.")
    return "\n".join(out) + "\n"
