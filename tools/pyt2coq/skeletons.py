"""Control skeletons (statement structure with expressions as normalised source text) of
mod_daemon.process_input / main, compiler.compile_code, Compiler.compile, utils.eval_constexpr
-> coq/gen/GenSkeletons.v.  Fail-closed on statement kinds outside the skeleton language."""
import ast
from .common import *


def q(s):
    return coq_str(" ".join(s.split()))


def skel(stmts):
    out = []
    for s in stmts:
        if isinstance(s, ast.Expr) and isinstance(s.value, ast.Constant) and isinstance(s.value.value, str):
            continue  # docstring
        out.append(one(s))
    return "(SSeq [" + "; ".join(out) + "])"


def one(s):
    if isinstance(s, (ast.Import, ast.ImportFrom)):
        return "SImport"
    if isinstance(s, ast.Pass):
        return "SPass"
    if isinstance(s, ast.Break):
        return "SBreak"
    if isinstance(s, ast.Continue):
        return "SContinue"
    if isinstance(s, ast.Return):
        return f"(SReturn {q(ast.unparse(s.value) if s.value else '')})"
    if isinstance(s, ast.Raise):
        return f"(SRaise {q(ast.unparse(s.exc) if s.exc else '')})"
    if isinstance(s, ast.Assign):
        return f"(SAssign {q(', '.join(ast.unparse(t) for t in s.targets))} {q(ast.unparse(s.value))})"
    if isinstance(s, ast.AugAssign):
        return f"(SAssign {q(ast.unparse(s.target))} {q(ast.unparse(s.target) + ' ' + type(s.op).__name__ + ' ' + ast.unparse(s.value))})"
    if isinstance(s, ast.Expr):
        return f"(SExpr {q(ast.unparse(s.value))})"
    if isinstance(s, ast.Global):
        return f"(SExpr {q('global ' + ', '.join(s.names))})"
    if isinstance(s, ast.If):
        return f"(SIf {q(ast.unparse(s.test))} {skel(s.body)} {skel(s.orelse)})"
    if isinstance(s, ast.While):
        if s.orelse:
            fail(s, "while/else")
        return f"(SWhile {q(ast.unparse(s.test))} {skel(s.body)})"
    if isinstance(s, ast.For):
        if s.orelse:
            fail(s, "for/else")
        return f"(SFor {q(ast.unparse(s.target))} {q(ast.unparse(s.iter))} {skel(s.body)})"
    if isinstance(s, ast.Try):
        if s.orelse:
            fail(s, "try/else")
        hs = []
        for h in s.handlers:
            exc = ast.unparse(h.type) if h.type else "BaseException"
            hs.append(f"({q(exc)}, {skel(h.body)})")
        return f"(STry {skel(s.body)} [{'; '.join(hs)}] {skel(s.finalbody)})"
    fail(s, "statement kind outside the skeleton language")


def translate(pkg) -> str:
    out = [HEADER, "From Coq Require Import List String.", "From PV Require Import Model.Skel.", "Import ListNotations.",
           "Local Open Scope string_scope.", ""]
    d = parse_file(pkg / "mod_daemon.py")
    out.append(f"Definition gen_process_input : skel := {skel(find_def(d, 'process_input').body)}.")
    out.append(f"Definition gen_daemon_main : skel := {skel(find_def(d, 'main').body)}.")
    # module-level statements of the daemon that touch stdout
    top = [ast.unparse(n) for n in d.body if isinstance(n, (ast.Assign, ast.Expr)) and "stdout" in ast.unparse(n)]
    out.append("Definition gen_daemon_stdout_setup : list string := [" + "; ".join(q(t) for t in top) + "].")
    # every place that can write to the real stdout (print / _stdout / sys.stdout / sys.__stdout__)
    writes = []
    for n in ast.walk(d):
        if isinstance(n, ast.Call):
            t = ast.unparse(n)
            if (isinstance(n.func, ast.Name) and n.func.id == "print") or "_stdout" in t.split("(")[0] or "sys.__stdout__" in t:
                writes.append(" ".join(ast.unparse(n).split())[:120])
    out.append("Definition gen_daemon_print_sites : list string := [" + "; ".join(q(w) for w in writes) + "].")
    c = parse_file(pkg / "compiler.py")
    out.append(f"Definition gen_compile_code : skel := {skel(find_def(c, 'compile_code').body)}.")
    out.append(f"Definition gen_compiler_compile : skel := {skel(find_def(c, 'compile', cls='Compiler').body)}.")
    cp = parse_file(pkg / "compile_pass.py")
    out.append(f"Definition gen_constexpr_decorators : skel := {skel(find_def(cp, 'handle_decorators', cls='CompilerPassHandleConstexpr').body)}.")
    out.append(f"Definition gen_constexpr_check : skel := {skel(find_def(cp, 'check_constexpr_function', cls='CompilerPassHandleConstexpr').body)}.")
    out.append(f"Definition gen_modnames_import : skel := {skel(find_def(cp, 'handle_import_from', cls='CompilerPassSetModuleNames').body)}.")
    out.append(f"Definition gen_modnames_run : skel := {skel(find_def(cp, 'run', cls='CompilerPassSetModuleNames').body)}.")
    g = parse_file(pkg / "generate_code.py")
    out.append(f"Definition gen_gather_run : skel := {skel(find_def(g, 'run', cls='CompilerPassGatherCode').body)}.")
    u = parse_file(pkg / "utils.py")
    out.append(f"Definition gen_eval_constexpr : skel := {skel(find_def(u, 'eval_constexpr').body)}.")
    return "\n".join(out) + "\n"
