"""Statistics tail of CompilerPassGatherCode.get_code  ->  coq/gen/GenStats.v"""
import ast
from .common import *


def _expr(e, code_var):
    if isinstance(e, ast.Call) and isinstance(e.func, ast.Name) and e.func.id == "len" and len(e.args) == 1 and not e.keywords:
        a = e.args[0]
        if isinstance(a, ast.Name) and a.id == code_var:
            return "SLenS"
        if (isinstance(a, ast.Call) and isinstance(a.func, ast.Attribute) and a.func.attr == "splitlines"
                and isinstance(a.func.value, ast.Name) and a.func.value.id == code_var and not a.args and not a.keywords):
            return "SLenSplitlines"
        if isinstance(a, ast.Attribute) and isinstance(a.value, ast.Name) and a.value.id == "self" and a.attr == "used_registers":
            return "SLenUsedRegisters"
        fail(e, "unsupported len() argument")
    if isinstance(e, ast.Constant) and isinstance(e.value, int) and not isinstance(e.value, bool):
        return f"(SConst ({e.value}))"
    if isinstance(e, ast.Name):
        return f"(SVar {coq_str(e.id)})"
    if isinstance(e, ast.BinOp) and isinstance(e.op, (ast.Add, ast.Sub)):
        return f"({'SAdd' if isinstance(e.op, ast.Add) else 'SSub'} {_expr(e.left, code_var)} {_expr(e.right, code_var)})"
    if (isinstance(e, ast.Call) and isinstance(e.func, ast.Name) and e.func.id == "max" and len(e.args) == 2
            and not e.keywords):
        return f"(SMax {_expr(e.args[0], code_var)} {_expr(e.args[1], code_var)})"
    fail(e, "unsupported statistics expression")


def translate(pkg) -> str:
    tree = parse_file(pkg / "generate_code.py")
    fn = find_def(tree, "get_code", cls="CompilerPassGatherCode")
    body = fn.body
    last = body[-1]
    ok = (isinstance(last, ast.Assign) and len(last.targets) == 1 and ast.unparse(last.targets[0]) == "self.data.result"
          and isinstance(last.value, ast.Dict))
    if not ok:
        fail(last, "get_code does not end with the assignment of the result dictionary")
    fields = {}
    for k, v in zip(last.value.keys, last.value.values):
        if not isinstance(v, ast.Name):
            fail(v, "result field is not a plain variable")
        fields[const_str(k)] = v.id
    if "code" not in fields:
        raise TranslateError("result has no 'code' field")
    code_var = fields["code"]
    stat_vars = {v: k for k, v in fields.items() if k != "code"}
    # the statements immediately before must be exactly the assignments of the statistics
    defs = []
    i = len(body) - 2
    while i >= 0 and len(defs) < len(stat_vars):
        st = body[i]
        if not (isinstance(st, ast.Assign) and len(st.targets) == 1 and isinstance(st.targets[0], ast.Name)
                and st.targets[0].id in stat_vars):
            fail(st, "statement between the statistics and the result is not a statistics assignment")
        defs.append((st.targets[0].id, _expr(st.value, code_var)))
        i -= 1
    defs.reverse()
    if {d[0] for d in defs} != set(stat_vars) or len(defs) != len(stat_vars):
        raise TranslateError("statistics assignments do not match the result fields")
    out = [HEADER, "From Coq Require Import List ZArith String.", "From PV Require Import Model.Stats.",
           "Import ListNotations.", "Local Open Scope string_scope.", ""]
    out.append("Definition gen_stats : list (string * sexpr) := ["
               + "; ".join(f"({coq_str(stat_vars[n])}, {e})" for n, e in defs) + "].")
    out.append("Definition gen_stat_vars : list (string * string) := ["
               + "; ".join(f"({coq_str(n)}, {coq_str(stat_vars[n])})" for n, _ in defs) + "].")
    out.append("Definition gen_result_fields : list string := [" + "; ".join(coq_str(k) for k in fields) + "].")
    # variable names inside expressions must be renamed to field names for SVar lookups
    txt = "\n".join(out) + "\n"
    for n, f in stat_vars.items():
        txt = txt.replace(f"(SVar {coq_str(n)})", f"(SVar {coq_str(f)})")
    return txt
