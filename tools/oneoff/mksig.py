#!/usr/bin/env python3
"""One-off: expands the hand-written IC10 signature spec below into coq/theories/IC10/Sig.v.
The spec is written from the IC10 instruction reference (Stationpedia): r = output register,
d = device operand, v = value operand (register or number), t = jump target value,
n = name (alias/define).  It is part of the trusted specification."""
from pathlib import Path

SPEC = """
alias n x ; define n v ; hcf ; sleep v ; yield ; label d n
abs r v ; add r v v ; ceil r v ; div r v v ; pow r v v ; exp r v ; floor r v ; log r v
max r v v ; min r v v ; mod r v v ; move r v ; mul r v v ; rand r ; round r v ; sqrt r v
sub r v v ; trunc r v ; lerp r v v v
acos r v ; asin r v ; atan r v ; atan2 r v v ; cos r v ; sin r v ; tan r v
clr d ; clrd v ; get r d v ; getd r v v ; peek r ; poke v v ; pop r ; push v ; put d v v ; putd v v v
l r d v ; lr r d v v ; ls r d v v ; s d v v ; ss d v v v ; rmap r d v
lb r v v v ; lbn r v v v v ; lbns r v v v v v ; lbs r v v v v ; sb v v v ; sbn v v v v ; sbs v v v v
and r v v ; nor r v v ; not r v ; or r v v ; sla r v v ; sll r v v ; sra r v v ; srl r v v ; xor r v v
ext r v v v ; ins r v v v ; select r v v v
sdns r d ; sdse r d ; sap r v v v ; sapz r v v ; seq r v v ; seqz r v ; sge r v v ; sgez r v
sgt r v v ; sgtz r v ; sle r v v ; slez r v ; slt r v v ; sltz r v ; sna r v v v ; snan r v
snanz r v ; snaz r v v ; sne r v v ; snez r v
j t ; jal t ; jr t
bdnvl d v t ; bdnvs d v t ; bdns d t ; bdnsal d t ; bdse d t ; bdseal d t ; brdns d t ; brdse d t
bap v v v t ; brap v v v t ; bapal v v v t ; bapz v v t ; brapz v v t ; bapzal v v t
beq v v t ; breq v v t ; beqal v v t ; beqz v t ; breqz v t ; beqzal v t
bge v v t ; brge v v t ; bgeal v v t ; bgez v t ; brgez v t ; bgezal v t
bgt v v t ; brgt v v t ; bgtal v v t ; bgtz v t ; brgtz v t ; bgtzal v t
ble v v t ; brle v v t ; bleal v v t ; blez v t ; brlez v t ; blezal v t
blt v v t ; brlt v v t ; bltal v v t ; bltz v t ; brltz v t ; bltzal v t
bna v v v t ; brna v v v t ; bnaal v v v t ; bnan v t ; brnan v t
bnaz v v t ; brnaz v v t ; bnazal v v t ; bne v v t ; brne v v t ; bneal v v t
bnez v t ; brnez v t ; bnezal v t
"""
K = {"r": "KOut", "d": "KDev", "v": "KVal", "t": "KTgt", "n": "KName", "x": "KRegOrDev"}
rows = []
for item in SPEC.replace("\n", " ; ").split(";"):
    toks = item.split()
    if not toks:
        continue
    rows.append((toks[0], [K[t] for t in toks[1:]]))
out = ["(* IC10 instruction signatures — trusted specification, written from the IC10 reference.",
       "   Expanded by tools/oneoff/mksig.py from its compact spec; edit the spec, not this file. *)",
       "From Coq Require Import List String Bool.", "Import ListNotations.", "Local Open Scope string_scope.", "",
       "Inductive okind := KOut | KDev | KVal | KTgt | KName | KRegOrDev.",
       "Record sig := { s_name : string; s_ops : list okind }.", "",
       "Definition okind_eqb (a b : okind) : bool :=",
       "  match a, b with KOut, KOut | KDev, KDev | KVal, KVal | KTgt, KTgt | KName, KName | KRegOrDev, KRegOrDev => true | _, _ => false end.",
       "Definition has_out (s : sig) : bool := match s_ops s with KOut :: _ => true | _ => false end.",
       "Definition n_ops (s : sig) : nat := List.length (s_ops s).", "",
       "Definition sigs : list sig := ["]
out.append(";\n".join(f'  {{| s_name := "{n}"; s_ops := [{"; ".join(ks)}] |}}' for n, ks in rows))
out.append("].\n")
out.append("Fixpoint find_sig (l : list sig) (n : string) : option sig :=\n  match l with [] => None | s :: r => if String.eqb (s_name s) n then Some s else find_sig r n end.")
out.append("Definition sig_of (n : string) : option sig := find_sig sigs n.\n")
Path(__file__).resolve().parents[2].joinpath("coq/theories/IC10/Sig.v").write_text("\n".join(out))
print(len(rows), "signatures")
